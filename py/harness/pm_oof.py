"""PM stage 2a harness: block/paragraph documents with out-of-flow children (absolutely positioned boxes and
full-width left floats, `clear`), run through the real layout and canonicalised to the `pmoof` driver's output.

Document = dict(pageH, ltr, root); box = dict(kind='para'|'block', id, st, n, lineH, kids, pos, clear)
with pos in 'static' | 'abs' | 'float' and clear a bool (`clear:left`).  Out-of-flow boxes may hold out-of-flow
boxes, at any depth (round 3: floats in floats / in absolutely positioned boxes; round 4: absolutely positioned
boxes in floats and in absolutely positioned boxes).
"""
from fractions import Fraction

from harness import docs, pm
from vlib import sx

POS = ('static', 'abs', 'float')


def box_wire(box, inherited_page=''):
    page = box['st']['page'] or inherited_page
    pos = box.get('pos', 'static')
    clear = bool(box.get('clear', False))
    if box['kind'] == 'para':
        return ['para', box['id'], box['n'], box['lineH'], pm.style_wire(box['st'], inherited_page), pos, clear]
    return ['block', box['id'], pm.style_wire(box['st'], inherited_page), pos, clear,
            [box_wire(k, page) for k in box['kids']]]


def doc_line(doc):
    return sx.line('pmoof', doc['pageH'], doc['ltr'], box_wire(doc['root']))


def css_of(box):
    kind = 'para' if box['kind'] == 'para' else 'block'
    css = pm.css_of(box['st'], kind, box.get('lineH'))
    pos = box.get('pos', 'static')
    if pos == 'abs':
        css += ';position:absolute;width:200px'       # the page width: a float inside stays full-width on every page
    elif pos == 'float':
        css += ';float:left;width:100%'
    if box.get('clear'):
        css += ';clear:left'
    return css


def box_html(box):
    if box['kind'] == 'para':
        words = '<br>'.join(f'w{box["id"]}x{i}' for i in range(box['n']))
        return f'<p id="n{box["id"]}" style="{css_of(box)}">{words}</p>'
    inner = ''.join(box_html(k) for k in box['kids'])
    return f'<div id="n{box["id"]}" style="{css_of(box)}">{inner}</div>'


def doc_html(doc):
    root = doc['root']
    body = root['kids'][0]
    inner = ''.join(box_html(k) for k in body['kids'])
    direction = 'ltr' if doc['ltr'] else 'rtl'
    return (
        f'<html id="n{root["id"]}" style="direction:{direction};{pm.css_of(root["st"], "block")}"><head><style>'
        f'@page{{size:200px {pm.px(doc["pageH"])};margin:0}}</style></head>'
        f'<body id="n{body["id"]}" style="{pm.css_of(body["st"], "block")}">{inner}</body></html>')


# ---------------------------------------------------------------------------------------------
# real pipeline


def run_real(doc):
    """Lay the document out with the real code; return the canonical output line."""
    from weasyprint.css.counters import CounterStyle
    from weasyprint.document import Document
    from weasyprint import DEFAULT_OPTIONS
    from weasyprint.formatting_structure import boxes
    from weasyprint.formatting_structure.build import build_formatting_structure
    from weasyprint.layout import layout_document

    html = docs.html(doc_html(doc))
    _, _, font_config = docs._env()
    counter_style = CounterStyle()
    options = dict(DEFAULT_OPTIONS)
    context = Document._build_layout_context(html, font_config, counter_style, options)
    root_box = build_formatting_structure(
        html.etree_element, context.style_for, context.get_image_from_uri, html.base_url,
        context.target_collector, counter_style, context.footnotes)
    from weasyprint.layout import page as page_module
    broken_after = {}
    real_make_page = page_module.make_page

    line_of = {}

    def note_lines(fragment):
        for box in fragment.descendants(placeholders=True):
            if isinstance(box, boxes.LineBox):
                pid, i = pm.line_ident(box)
                if pid is not None:
                    line_of[(pid, repr(getattr(box, 'resume_at', None)))] = i + 1

    def spy_make_page(context_, root_box_, page_type, resume_at, page_number, page_state):
        result = real_make_page(context_, root_box_, page_type, resume_at, page_number, page_state)
        broken_after[page_number - 1] = [
            (int(box.element.get('id')[1:]), skip) for box, _, skip in context_.broken_out_of_flow.values()]
        for fragment in context_.broken_out_of_flow:
            # the cut fragment itself: it may be on no page (a box registered and then dropped from the page)
            note_lines(fragment)
        return result
    page_module.make_page = spy_make_page
    try:
        pages = list(layout_document(html, root_box, context))
    finally:
        page_module.make_page = real_make_page
    maker = context.page_maker
    by_id = {}

    def index_boxes(box):
        by_id[box['id']] = box
        for kid in box['kids']:
            index_boxes(kid)
    index_boxes(doc['root'])

    for page in pages:
        note_lines(page)

    out = []
    for index, page in enumerate(pages):
        ptype = page.page_type
        resume, next_page = maker[index + 1][0], maker[index + 1][1]
        root = page.children[0]
        out.append(['page', index, ptype.side == 'right', bool(ptype.blank), ptype.name or '-',
                    resume_wire(resume, doc['root'], line_of),
                    'any' if next_page['break'] == 'any' else next_page['break'],
                    'none' if next_page['page'] is None else (next_page['page'] or '-'),
                    ['bk'] + [[ident, resume_wire(skip, by_id[ident], line_of)]
                              for ident, skip in broken_after.get(index, [])],
                    frag_wire(root, boxes)])
    return sx.line(*out)


resume_wire = pm.resume_wire
fr = pm.fr


def frag_wire(box, boxes):
    from weasyprint.layout.absolute import AbsolutePlaceholder
    ident = int(box.element.get('id')[1:])
    index = getattr(box, 'index', 0)
    if isinstance(box, AbsolutePlaceholder) and not box._layout_done:
        return ['ph', ident, index, fr(box.position_y)]
    geo = [fr(box.position_y), fr(box.margin_top), fr(box.margin_bottom), fr(box.padding_top),
           fr(box.padding_bottom), fr(box.border_top_width), fr(box.border_bottom_width), fr(box.height)]
    if box.children and isinstance(box.children[0], boxes.LineBox):
        lines = []
        for line in box.children:
            _, i = pm.line_ident(line)
            lines.append([i, fr(line.position_y)])
        return ['p', ident, index, *geo, lines]
    return ['b', ident, index, *geo, [frag_wire(child, boxes) for child in box.children]]


def show(doc):
    """Readable dump of the real result (debugging)."""
    line = run_real(doc)
    return '\n'.join(sx.dumps(p) for p in sx.loads_line(line))


# ---------------------------------------------------------------------------------------------
# generator

def all_boxes(doc):
    """(box, parent, position, inside_oof) in document order."""
    out = []

    def walk(box, parent, i, inside):
        out.append((box, parent, i, inside))
        for j, kid in enumerate(box['kids']):
            walk(kid, box, j, inside or box.get('pos', 'static') != 'static')
    walk(doc['root'], None, 0, False)
    return out


def gen_doc(rng, size=None, mode='mixed', nest=True):
    """A stage-1 document (pm.gen_doc: margins, paddings, borders, heights, breaks, named pages,
    orphans/widows, clone) in which boxes are taken out of the flow: `mode` in static | abs | float | mixed.
    Out-of-flow boxes keep only static descendants; `clear` on floats and on static boxes."""
    if mode == 'nested' or (mode == 'mixed' and nest and rng.random() < 0.25):
        return nest_oof(gen_doc(rng, size, rng.choice(['mixed', 'mixed', 'float', 'scenario']), nest=False), rng)
    if mode == 'keep' or (mode == 'mixed' and rng.random() < 0.12):
        return gen_keep_together(rng)
    if mode == 'spacer' or (mode == 'mixed' and rng.random() < 0.1):
        return gen_spacer_tail(rng)
    if mode == 'scenario' or (mode == 'mixed' and rng.random() < 0.4):
        return gen_scenario(rng)
    doc = pm.gen_doc(rng, size)
    body = doc['root']['kids'][0]
    for box, _, _, _ in all_boxes(doc):
        box['pos'] = 'static'
        box['clear'] = False
    if mode == 'static':
        return doc
    kinds = {'abs': ['abs'], 'float': ['float'], 'mixed': ['abs', 'float', 'float']}[mode]
    line_h = next((b['lineH'] for b, _, _, _ in all_boxes(doc) if b['kind'] == 'para'), Fraction(10))
    next_id = [max(b['id'] for b, _, _, _ in all_boxes(doc))]

    def nid():
        next_id[0] += 1
        return next_id[0]

    def make_oof(box):
        box['pos'] = rng.choice(kinds)
        if box['kind'] == 'para' and rng.random() < 0.4:
            box['n'] = rng.choice([1, 2, 4, 6, 9, 12])
        if rng.random() < 0.35:
            box['st']['height'] = Fraction(rng.choice([0, 5, 10, 15, 20, 30, 40, 60]))
        if box['pos'] == 'float' and rng.random() < 0.3:
            box['clear'] = True
        # break properties on out-of-flow boxes are mostly noise: keep some
        if rng.random() < 0.6:
            box['st']['brkBefore'] = box['st']['brkAfter'] = 'auto'

    p_convert = rng.choice([0.1, 0.2, 0.35])

    def convert(box):
        for kid in box['kids']:
            if rng.random() < p_convert:
                make_oof(kid)          # its descendants stay static
            else:
                convert(kid)
    convert(body)
    # extra out-of-flow paragraphs inserted between the children of static blocks
    for box, parent, _, inside in all_boxes(doc):
        if box['kind'] != 'block' or box is doc['root'] or inside or box['pos'] != 'static':
            continue
        if rng.random() < 0.3:
            extra = dict(kind='para', id=nid(), n=rng.choice([1, 2, 3, 5, 8]), lineH=Fraction(line_h),
                         st=pm.default_style(), kids=[], pos='static', clear=False)
            if rng.random() < 0.3:
                extra['st']['mt'] = Fraction(rng.choice([2, 4, 8]))
            if rng.random() < 0.3:
                extra['st']['mb'] = Fraction(rng.choice([2, 4, 8]))
            if rng.random() < 0.2:
                extra['st']['pt'] = Fraction(rng.choice([2, 4]))
            make_oof(extra)
            box['kids'].insert(rng.randrange(len(box['kids']) + 1), extra)
    if 'float' in kinds:
        for box, parent, _, inside in all_boxes(doc):
            if parent is None or box is body or inside or box['pos'] != 'static':
                continue
            if rng.random() < 0.15:
                box['clear'] = True
    return doc


def nest_oof(doc, rng):
    """Take boxes *inside* out-of-flow boxes out of the flow too: floats in floats, floats in absolutely positioned
    boxes, absolutely positioned boxes in floats (round 4: generated since repair 0d665d0 - before it the finding
    nested-out-of-flow-in-postponed-float could lay the same source box out twice on one page, and the two
    AbsolutePlaceholders then shared the source box's position, an aliasing the model does not have).
    Round 4: also an absolutely positioned box inside an absolutely positioned box (Model `layoutAbs`)."""
    p_nest = rng.choice([0.25, 0.5, 0.8])

    def walk(box, inside, in_abs):
        for kid in box['kids']:
            if inside and kid['pos'] == 'static' and rng.random() < p_nest:
                kid['pos'] = rng.choice(['float', 'float', 'abs'])
                if kid['pos'] == 'float' and rng.random() < 0.25:
                    kid['clear'] = True
                if rng.random() < 0.2:
                    kid['st']['height'] = Fraction(rng.choice([0, 10, 20, 30, 50]))
            walk(kid, inside or kid['pos'] != 'static', in_abs or kid['pos'] == 'abs')
    walk(doc['root'], False, False)
    return doc


def features(doc):
    tags = set(pm.features(doc))
    for box, _, _, inside in all_boxes(doc):
        if box['pos'] != 'static':
            tags.add(box['pos'])
            if inside:
                tags.add('nested-' + box['pos'])
            if box['st']['height'] != 'auto':
                tags.add(box['pos'] + '-fixed-height')
        if box['clear']:
            tags.add('clear-' + box['pos'])
    return sorted(tags)


# ---------------------------------------------------------------------------------------------
# shrinking

def shrink(doc, still_fails, budget=400):
    """Greedy structural minimisation (pm.shrink's moves, plus: make a box static, drop `clear`)."""
    import copy
    spent = [0]

    def attempt(candidate):
        spent[0] += 1
        if spent[0] > budget:
            return False
        try:
            return still_fails(candidate)
        except Exception:  # noqa: BLE001
            return False

    changed = True
    while changed and spent[0] <= budget:
        changed = False
        count = len(all_boxes(doc))
        for idx in range(count):
            cand = copy.deepcopy(doc)
            entries = all_boxes(cand)
            if idx >= len(entries):
                break
            box, parent, i, _ = entries[idx]
            if parent is None or parent is cand['root']:
                continue
            del parent['kids'][i]
            if attempt(cand):
                doc, changed = cand, True
                break
        if changed:
            continue
        default = pm.default_style()
        for idx in range(len(all_boxes(doc))):
            box = all_boxes(doc)[idx][0]
            trials = []
            for key, dv in default.items():
                if key != 'isRoot' and box['st'][key] != dv:
                    trials.append(('st', key, dv))
            if box['clear']:
                trials.append(('box', 'clear', False))
            if box['pos'] != 'static':
                trials.append(('box', 'pos', 'static'))
            if box['kind'] == 'para' and box['n'] > 1:
                trials.append(('box', 'n', box['n'] - 1))
            for where, key, value in trials:
                cand = copy.deepcopy(doc)
                target = all_boxes(cand)[idx][0]
                if where == 'st':
                    target['st'][key] = value
                else:
                    target[key] = value
                if attempt(cand):
                    doc, changed = cand, True
                    break
            if changed:
                break
    return doc


# ---------------------------------------------------------------------------------------------
# scenario families: the rarely reached branches around out-of-flow boxes

def gen_scenario(rng):
    """Structured documents aimed at the branches a uniform generator seldom reaches: a block that is
    cancelled / dropped / laid out twice / cut by an earlier break after it has placed placeholders or floats,
    `only absolute children`, floats that do not fit, zero-height floats, clearance in every position,
    continuation on blank pages, boxes cut over several pages or at the end of the document."""
    counter = [0]

    def nid():
        counter[0] += 1
        return counter[0]

    line_h = Fraction(rng.choice([10, 10, 20, 12]))
    page_lines = rng.choice([3, 4, 5, 6, 8])
    page_h = page_lines * line_h + rng.choice([0, 0, line_h / 2, 3])

    def maybe(p, choices, default=0):
        return Fraction(rng.choice(choices)) if rng.random() < p else default

    def style(kind, oof=False):
        st = pm.default_style()
        st['mt'] = maybe(0.3, (2, 4, 8, 16, -4))
        st['mb'] = maybe(0.3, (2, 4, 8, 16, -4))
        st['pt'] = maybe(0.15, (2, 4))
        st['pb'] = maybe(0.25, (2, 4, 10, 20))
        st['bt'] = maybe(0.15, (1, 2))
        st['bb'] = maybe(0.2, (1, 2, 4))
        if rng.random() < (0.4 if oof else 0.08):
            st['height'] = Fraction(rng.choice([0, 0, 5, 10, 20, 30, 50, 80]))
        if rng.random() < 0.05:
            st['minH'] = Fraction(rng.choice([5, 15, 40]))
        if rng.random() < 0.05:
            st['maxH'] = Fraction(rng.choice([10, 30]))
        if not oof or rng.random() < 0.3:
            if rng.random() < 0.3:
                st['brkBefore'] = rng.choice(['avoid', 'avoid', 'avoid-page', 'page', 'left', 'right', 'recto'])
            if rng.random() < 0.3:
                st['brkAfter'] = rng.choice(['avoid', 'avoid', 'avoid-page', 'page', 'left', 'right', 'verso'])
        if rng.random() < 0.2:
            st['brkInside'] = rng.choice(['avoid', 'avoid-page'])
        st['clone'] = rng.random() < 0.1
        if rng.random() < 0.06:
            st['page'] = rng.choice(['pa', 'pb'])
        if kind == 'para':
            st['orphans'] = rng.choice([1, 1, 2, 3])
            st['widows'] = rng.choice([1, 1, 2, 3])
        return st

    def para(pos='static', n=None):
        oof = pos != 'static'
        if n is None:
            n = rng.choice([1, 1, 2, 3, 4, 6, 9, 14] if oof else [1, 1, 2, 2, 3, 4, 6])
        return dict(kind='para', id=nid(), n=n, lineH=line_h, st=style('para', oof), kids=[], pos=pos,
                    clear=rng.random() < (0.3 if pos == 'float' else 0.12 if pos == 'static' else 0))

    def block(kids, pos='static'):
        oof = pos != 'static'
        return dict(kind='block', id=nid(), st=style('block', oof), kids=kids, pos=pos,
                    clear=rng.random() < (0.3 if pos == 'float' else 0.1 if pos == 'static' else 0))

    def oof_box(pos):
        if rng.random() < 0.75:
            return para(pos)
        return block([para() if rng.random() < 0.8 else block([para()]) for _ in range(rng.choice([0, 1, 2, 3]))], pos)

    def unstatic(box):
        """static descendants only inside an out-of-flow box"""
        for kid in box['kids']:
            kid['clear'] = False
            unstatic(kid)
        return box

    kinds = rng.choice([['abs'], ['float'], ['abs', 'float'], ['abs', 'float', 'float']])

    def group(depth):
        """a static block starting with out-of-flow children"""
        kids = [unstatic(oof_box(rng.choice(kinds))) for _ in range(rng.choice([1, 1, 2, 3]))]
        for _ in range(rng.choice([0, 1, 1, 2, 3])):
            r = rng.random()
            if r < 0.55:
                kids.append(para())
            elif r < 0.75:
                kids.append(unstatic(oof_box(rng.choice(kinds))))
            elif depth < 2:
                kids.append(group(depth + 1))
            else:
                kids.append(block([]))
        if rng.random() < 0.3:
            rng.shuffle(kids)
        return block(kids)

    body_kids = []
    for _ in range(rng.choice([1, 2, 2, 3, 4])):
        r = rng.random()
        if r < 0.35:
            body_kids.append(para())
        elif r < 0.8:
            body_kids.append(group(0))
        else:
            body_kids.append(unstatic(oof_box(rng.choice(kinds))))
    if rng.random() < 0.5:
        body_kids.insert(0, para(n=rng.choice([page_lines - 2, page_lines - 1, page_lines, page_lines + 1]) or 1))
    if rng.random() < 0.3:
        # trailing spacers: empty boxes (or boxes holding only out-of-flow children) that are collapsed through,
        # `height: 0` or auto, with margins larger than what is left of the page - they must not make a page
        tail = body_kids
        if rng.random() < 0.3 and body_kids and body_kids[-1]['kind'] == 'block' and body_kids[-1]['pos'] == 'static':
            tail = body_kids[-1]['kids']
        for _ in range(rng.choice([1, 1, 2])):
            kids = [unstatic(oof_box('abs'))] if rng.random() < 0.15 else []
            spacer = dict(kind='block', id=nid(), st=pm.default_style(), kids=kids, pos='static', clear=False)
            spacer['st']['height'] = rng.choice([Fraction(0), Fraction(0), 'auto'])
            spacer['st']['mt'] = Fraction(rng.choice([0, 8, 16, 20, 40]))
            spacer['st']['mb'] = Fraction(rng.choice([0, 0, 8, 16, 40]))
            tail.append(spacer)
    body_st = pm.default_style()
    root_st = pm.default_style(isRoot=True)
    if rng.random() < 0.3:
        body_st['mt'] = Fraction(rng.choice([4, 8]))
        body_st['mb'] = Fraction(rng.choice([4, 8]))
    if rng.random() < 0.15:
        body_st['pt'] = Fraction(rng.choice([2, 4]))
    if rng.random() < 0.1:
        root_st['mt'] = Fraction(rng.choice([4, 8]))
    if rng.random() < 0.1:
        root_st['pt'] = Fraction(rng.choice([2, 4]))
    if rng.random() < 0.08:
        root_st['clone'] = True
    if rng.random() < 0.1:
        root_st['height'] = Fraction(rng.choice([20, 60]))
    body = dict(kind='block', id=nid(), st=body_st, kids=body_kids, pos='static', clear=False)
    root = dict(kind='block', id=nid(), st=root_st, kids=[body], pos='static', clear=False)
    return dict(pageH=Fraction(page_h), ltr=rng.random() < 0.8, root=root)


def gen_keep_together(rng):
    """The page break has to move to an earlier boundary (`find_earlier_page_break`) across out-of-flow siblings:
    filler, A, out-of-flow boxes, B (break-after: avoid, or C break-before: avoid), C that does not fit and cannot
    be split (orphans = its line count, or break-inside: avoid) — optionally one level down, with out-of-flow boxes
    before A / after B as well, so that every position of the cut relative to the out-of-flow boxes occurs: cut
    right after them, right before them, between two of them."""
    counter = [0]

    def nid():
        counter[0] += 1
        return counter[0]

    line_h = Fraction(rng.choice([10, 10, 12, 20]))

    def para(n, pos='static', **kw):
        st = pm.default_style(**kw)
        return dict(kind='para', id=nid(), n=n, lineH=line_h, st=st, kids=[], pos=pos, clear=False)

    def block(kids, pos='static', **kw):
        return dict(kind='block', id=nid(), st=pm.default_style(**kw), kids=kids, pos=pos, clear=False)

    def oofs(p_some):
        out = []
        while rng.random() < p_some and len(out) < 3:
            pos = rng.choice(['abs', 'float', 'float'])
            n = rng.choice([1, 1, 2, 3])
            box = para(n, pos)
            if rng.random() < 0.2:
                box = block([para(n)], pos)
            if pos == 'float' and rng.random() < 0.25:
                box['clear'] = True
            if rng.random() < 0.2:
                box['st']['height'] = Fraction(rng.choice([0, 5, 10, 20]))
            out.append(box)
            p_some *= 0.6
        return out

    filler_n = rng.choice([0, 1, 2, 3, 4])
    a_n = rng.choice([1, 1, 2, 3])
    b_n = rng.choice([1, 1, 2])
    c_n = rng.choice([2, 3, 4, 5])
    between = oofs(0.9)
    float_lines = sum(b['n'] if b['kind'] == 'para' else b['kids'][0]['n']
                      for b in between if b['pos'] == 'float' and b['st']['height'] == 'auto')
    used = filler_n + a_n + b_n + float_lines
    page_lines = used + rng.choice([0, 1, 1, 2, min(c_n - 1, 3)])
    page_h = page_lines * line_h + rng.choice([0, 0, line_h / 2, 3])
    avoid = rng.choice(['avoid', 'avoid', 'avoid-page'])
    a = para(a_n)
    b = para(b_n)
    c = para(c_n)
    how = rng.random()
    if how < 0.5:
        b['st']['brkAfter'] = avoid
    elif how < 0.8:
        c['st']['brkBefore'] = avoid
    else:
        b['st']['brkAfter'] = avoid
        a['st']['brkAfter'] = rng.choice(['auto', avoid])
    if rng.random() < 0.7:
        c['st']['orphans'] = min(c_n, 4)
        if c_n > 4:
            c['st']['widows'] = rng.choice([1, 2])
    else:
        c['st']['brkInside'] = avoid
    if rng.random() < 0.25:
        b['st']['orphans'] = rng.choice([1, 2, 3])
    if rng.random() < 0.3:
        a['st']['widows'] = rng.choice([1, 2, 3])
        a['st']['orphans'] = rng.choice([1, 2])
    run = oofs(0.3) + [a] + between + [b] + oofs(0.3) + [c] + oofs(0.2)
    if rng.random() < 0.3:
        # the tail one level down: the earlier break is found inside a nested block
        cut = rng.randrange(0, len(run))
        run = run[:cut] + [block(run[cut:])]
    elif rng.random() < 0.3:
        i = run.index(b)
        run[i] = block([b] + ([] if rng.random() < 0.5 else oofs(0.8)))
    kids = ([para(filler_n)] if filler_n else []) + run
    if rng.random() < 0.5:
        kids.append(para(rng.choice([1, 2, 5])))
    for box in kids:
        if rng.random() < 0.1 and box['pos'] == 'static':
            box['st']['mt'] = Fraction(rng.choice([2, 4, 8]))
        if rng.random() < 0.1 and box['pos'] == 'static':
            box['st']['mb'] = Fraction(rng.choice([2, 4, 8]))
    body = dict(kind='block', id=nid(), st=pm.default_style(), kids=kids, pos='static', clear=False)
    root = dict(kind='block', id=nid(), st=pm.default_style(isRoot=True), kids=[body], pos='static', clear=False)
    return dict(pageH=Fraction(page_h), ltr=rng.random() < 0.85, root=root)


def gen_spacer_tail(rng):
    """A page that is (nearly) full, then - last in the document or in a block - boxes that take no room: empty
    blocks with `height: 0` / auto and margins larger than what is left of the page, blocks holding only out-of-flow
    boxes. They are collapsed through and must not open a page of their own."""
    counter = [0]

    def nid():
        counter[0] += 1
        return counter[0]

    line_h = Fraction(rng.choice([10, 10, 12, 20]))
    page_lines = rng.choice([3, 4, 5, 8])
    page_h = page_lines * line_h + rng.choice([0, 0, 3, line_h / 2])

    def para(n, pos='static'):
        return dict(kind='para', id=nid(), n=n, lineH=line_h, st=pm.default_style(), kids=[], pos=pos, clear=False)

    def spacer():
        kids = []
        if rng.random() < 0.2:
            kids = [para(rng.choice([1, 2]), rng.choice(['abs', 'abs', 'float']))]
            if kids[0]['pos'] == 'float':
                kids[0]['st']['height'] = Fraction(0)
        box = dict(kind='block', id=nid(), st=pm.default_style(), kids=kids, pos='static', clear=False)
        box['st']['height'] = rng.choice([Fraction(0), Fraction(0), 'auto'])
        box['st']['mt'] = Fraction(rng.choice([0, 4, 10, 20, 40]))
        box['st']['mb'] = Fraction(rng.choice([0, 0, 10, 20]))
        return box

    kids = [para(rng.choice([page_lines - 1, page_lines, page_lines, 2 * page_lines - 1, 2 * page_lines]) or 1)]
    if rng.random() < 0.3:
        kids.append(para(rng.choice([1, 2]), rng.choice(['abs', 'float'])))
    tail = [spacer() for _ in range(rng.choice([1, 1, 2, 3]))]
    if rng.random() < 0.3:
        tail = [dict(kind='block', id=nid(), st=pm.default_style(), kids=tail, pos='static', clear=False)]
    kids += tail
    body = dict(kind='block', id=nid(), st=pm.default_style(), kids=kids, pos='static', clear=False)
    if rng.random() < 0.2:
        body['st']['mb'] = Fraction(8)
    root = dict(kind='block', id=nid(), st=pm.default_style(isRoot=True), kids=[body], pos='static', clear=False)
    return dict(pageH=Fraction(page_h), ltr=True, root=root)
