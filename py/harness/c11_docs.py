"""C11 document-level correspondences: small generated documents rendered by the real pipeline,
geometry extracted from the laid-out box tree and compared with the Lean model run on the same
abstract input.  All lengths are dyadic so that float arithmetic is exact."""
import contextlib
import math
from fractions import Fraction as F

from harness import c11_mocks, docs
from vlib import sx


def guarded(fn):
    """Rendering a document: 30 s of CPU time (a normal one takes a few tens of ms)."""
    return c11_mocks.outcome(fn, 30.0)


SIDES = ('left', 'right')
CLEARS = ('none', 'left', 'right', 'both')
PAGE_MARGIN = 20


def px(v):
    """A dyadic Fraction as a CSS px value."""
    v = F(v)
    if v.denominator == 1:
        return f'{v.numerator}px'
    return f'{float(v)}px'


def q(rng, lo, hi, den=4):
    return F(rng.randint(lo * den, hi * den), den)


# ---------------------------------------------------------------------------------------------
# float documents

def gen_float_doc(rng, adversarial=False):
    fs = rng.choice([8, 10, 10, 12, 16])
    width = F(rng.choice([60, 80, 100, 100, 120, 150, 200]))
    doc = {
        'fs': fs, 'rtl': rng.random() < 0.3, 'w': width,
        'ml': q(rng, 0, 30, 2), 'spacer': q(rng, 0, 20, 2), 'items': [],
    }
    n_floats = rng.randint(1, 12)
    n_other = rng.randint(0, 5)
    kinds = ['float'] * n_floats + [rng.choice(['para', 'para', 'bfc', 'block', 'img', 'table']) for _ in range(n_other)]
    rng.shuffle(kinds)

    def clear():
        return rng.choice(CLEARS) if rng.random() < 0.3 else 'none'

    def margin():
        r = rng.random()
        if r < 0.6:
            return F(0)
        if r < 0.97 or not adversarial:
            return q(rng, 0, 10)
        return -q(rng, 0, 8)
    def vmargin():
        """Vertical margin of an in-flow block: they collapse between siblings (clearance is computed
        from the collapsed position)."""
        r = rng.random()
        if r < 0.45:
            return F(0)
        if r < 0.93:
            return q(rng, 0, 40)
        return -q(rng, 0, 10)
    for kind in kinds:
        if kind == 'float':
            r = rng.random()
            if adversarial and r < 0.15:
                w = rng.choice([width, width + F(1, 4), width * 2, F(1, 4)])
            elif r < 0.75:
                w = F(rng.randint(1, max(1, int(width * 4 * 0.6))), 4)
            else:
                w = F(rng.randint(1, int(width)))
            r = rng.random()
            # 4%: an empty border box (placed like any other float since 1bc67ce)
            h = q(rng, 1, 40) if r < 0.88 else F(1, 4) if r < 0.96 else F(0)
            item = {'kind': 'float', 'side': rng.choice(SIDES), 'w': w, 'h': h, 'clear': clear(),
                    'mt': margin(), 'mr': margin(), 'mb': margin(), 'ml': margin()}
            if rng.random() < 0.4:
                item['style'] = gen_float_style(rng, fs, item)
            doc['items'].append(item)
        elif kind == 'para':
            max_chars = max(1, int(width // fs) + (2 if adversarial else 0))
            words = [rng.randint(1, max_chars) for _ in range(rng.randint(1, 5))]
            # floats met inside a line, after its word: widths around what is left of the line, so that
            # "fits on the line", "waits for the end of the line" and "waits behind a waiting float" all occur
            inline = []
            align = rng.choice(['start', 'start', 'left', 'right', 'center', 'end'])
            # floats inside lines in every direction and alignment: they stay where float_layout puts them
            # (the line's own shift no longer moves them: former finding rtl-inline-float-displaced)
            with_floats = True
            for n in words:
                line_floats = []
                if with_floats and rng.random() < 0.45:
                    left_over = max(F(1), width - n * fs)
                    for _f in range(rng.choice([1, 1, 2, 2, 3])):
                        r = rng.random()
                        fw = (F(rng.randint(1, int(left_over * 4)), 4) if r < 0.55 else
                              left_over + q(rng, 0, 20) if r < 0.8 else q(rng, 1, 12))
                        line_floats.append({'side': rng.choice(SIDES), 'w': fw, 'h': q(rng, 1, 30),
                                            'clear': clear() if rng.random() < 0.3 else 'none',
                                            'mt': abs(margin()), 'mr': abs(margin()), 'mb': abs(margin()),
                                            'ml': abs(margin())})
                inline.append(line_floats)
            # some lines hold an inline-block taller than the strut instead of a word: the line box is first
            # tried with the strut height, then with its real height (second half of get_next_linebox)
            for k in range(len(words)):
                if not inline[k] and rng.random() < 0.2:
                    words[k] = ['ib', F(rng.randint(1, int(width) + (8 if adversarial else 0))),
                                F(fs) + q(rng, 0, 40)]
            doc['items'].append({'kind': 'para', 'clear': clear(), 'words': words, 'inline': inline,
                                 'align': align,
                                 'mt': vmargin(), 'mb': vmargin()})
        elif kind == 'bfc':
            w = 'auto' if rng.random() < 0.3 else F(rng.randint(1, int(width * 4)), 4)
            h = F(0) if rng.random() < 0.1 else q(rng, 0, 30)
            doc['items'].append({'kind': 'bfc', 'clear': clear(), 'w': w, 'h': h,
                                 'ml': margin() if margin() >= 0 else F(0), 'mr': abs(margin()),
                                 'mt': vmargin() if h > 0 else F(0), 'mb': vmargin() if h > 0 else F(0)})
        elif kind == 'table':
            doc['items'].append({'kind': 'table', 'clear': clear(), 'w': F(rng.randint(4, int(width * 4)), 4),
                                 'h': q(rng, 1, 30), 'ml': abs(margin()), 'mr': abs(margin())})
        elif kind == 'img':
            doc['items'].append({'kind': 'img', 'clear': clear(), 'w': F(rng.randint(1, int(width * 4)), 4),
                                 'h': F(0) if rng.random() < 0.05 else q(rng, 0, 30),
                                 'ml': abs(margin()), 'mr': abs(margin())})
        else:
            h = F(0) if rng.random() < 0.1 else q(rng, 0, 30)
            doc['items'].append({'kind': 'block', 'clear': clear(), 'h': h,
                                 'mt': vmargin() if h > 0 else F(0), 'mb': vmargin() if h > 0 else F(0)})
    return doc


def gen_float_style(rng, fs, item):
    """The beginning of float_layout: auto / % widths and margins, paddings, borders, min/max-width, content."""
    content = gen_content(rng, fs)
    if '<div' in content['html'] and content['hwide'] == 0:
        content = {'html': '<div style="width:5px;height:3px"></div>', 'minc': F(5), 'maxc': F(5),
                   'hwide': F(3), 'hnarrow': F(3)}

    def mdim(v):
        r = rng.random()
        return 'auto' if r < 0.25 else ['pct', rng.choice(PCTS_SMALL)] if r < 0.4 else ['px', v]

    def pdim():
        r = rng.random()
        return ['px', F(0)] if r < 0.6 else ['pct', rng.choice(PCTS_SMALL)] if r < 0.7 else ['px', q(rng, 0, 8)]
    r = rng.random()
    width = 'auto' if r < 0.5 else ['pct', rng.choice(PCTS)] if r < 0.65 else ['px', item['w']]
    return {
        'width': width, 'height': 'auto' if rng.random() < 0.6 else item['h'],
        'ml': mdim(item['ml']), 'mr': mdim(item['mr']), 'mt': mdim(item['mt']), 'mb': mdim(item['mb']),
        'pl': pdim(), 'pr': pdim(), 'pt': pdim(), 'pb': pdim(),
        'bl': F(rng.choice([0, 0, 1, 2])), 'br': F(rng.choice([0, 0, 1, 2])),
        'bt': F(rng.choice([0, 0, 1, 2])), 'bb': F(rng.choice([0, 0, 1, 2])),
        'minw': gen_dim(rng, 0, 80) if rng.random() < 0.25 else 'auto',
        'maxw': gen_dim(rng, 0, 120) if rng.random() < 0.25 else 'auto',
        'content': content,
    }


def float_spec(it):
    """(side clear width height ml mr mt mb pl pr pt pb bl br bt bb minW maxW minC maxC hWide hNarrow)"""
    st = it.get('style')
    if st is None:
        z = ['px', F(0)]
        return [it['side'], it['clear'], ['px', it['w']], it['h'], ['px', it['ml']], ['px', it['mr']],
                ['px', it['mt']], ['px', it['mb']], z, z, z, z, 0, 0, 0, 0, 'auto', 'auto', 0, 0, 0, 0]
    c = st['content']
    return [it['side'], it['clear'], dim_wire(st['width']), st['height']] + [
        dim_wire(st[k]) for k in ('ml', 'mr', 'mt', 'mb', 'pl', 'pr', 'pt', 'pb')] + [
        st['bl'], st['br'], st['bt'], st['bb'], dim_wire(st['minw']), dim_wire(st['maxw']),
        c['minc'], c['maxc'], c['hwide'], c['hnarrow']]


def float_css(it):
    st = it.get('style')
    if st is None:
        return (f'float:{it["side"]};width:{px(it["w"])};height:{px(it["h"])};'
                f'margin:{px(it["mt"])} {px(it["mr"])} {px(it["mb"])} {px(it["ml"])};clear:{it["clear"]}'), ''
    css = [f'float:{it["side"]}', f'clear:{it["clear"]}', f'width:{css_dim(st["width"])}',
           f'height:{"auto" if st["height"] == "auto" else px(st["height"])}',
           'margin:' + ' '.join(css_dim(st[k]) for k in ('mt', 'mr', 'mb', 'ml')),
           'padding:' + ' '.join(css_dim(st[k]) for k in ('pt', 'pr', 'pb', 'pl')),
           'border-style:solid',
           f'border-width:{px(st["bt"])} {px(st["br"])} {px(st["bb"])} {px(st["bl"])}']
    if st['minw'] != 'auto':
        css.append(f'min-width:{css_dim(st["minw"])}')
    if st['maxw'] != 'auto':
        css.append(f'max-width:{css_dim(st["maxw"])}')
    return ';'.join(css), st['content']['html']


SVG = "data:image/svg+xml,%3Csvg xmlns='http://www.w3.org/2000/svg' width='4' height='4'/%3E"


CONTAINER_PAD = 1


def word(n):
    return 'abcdefghijklmnopqrstuvwxyz'[:n] if n <= 26 else 'a' * n


def float_doc_html(doc):
    fs = doc['fs']
    parts = [
        '<style>@page{size:600px 6000px;margin:%dpx}html,body{margin:0;padding:0}'
        'body{font-family:weasyprint;font-size:%dpx;line-height:%dpx}p{margin:0}</style>' % (PAGE_MARGIN, fs, fs),
        f'<div style="height:{px(doc["spacer"])}"></div>',
        # the top padding keeps the children's margins from collapsing through the container
        f'<div id="c" style="width:{px(doc["w"])};margin-left:{px(doc["ml"])};padding-top:{CONTAINER_PAD}px;'
        f'direction:{"rtl" if doc["rtl"] else "ltr"}">',
    ]
    for i, it in enumerate(doc['items']):
        if it['kind'] == 'float':
            css, inner = float_css(it)
            parts.append(f'<div id="i{i}" style="{css}">{inner}</div>')
        elif it['kind'] == 'para':
            # forced breaks (white-space: pre-line): one word per line box, its floats right after the word
            chunks = []
            for k, n in enumerate(it['words']):
                spans = ''.join(
                    f'<span id="i{i}l{k}f{m}" style="float:{f["side"]};width:{px(f["w"])};height:{px(f["h"])};'
                    f'margin:{px(f["mt"])} {px(f["mr"])} {px(f["mb"])} {px(f["ml"])};clear:{f["clear"]}"></span>'
                    for m, f in enumerate(it['inline'][k]))
                if isinstance(n, list):
                    chunks.append(f'<span style="display:inline-block;vertical-align:top;width:{px(n[1])};'
                                  f'height:{px(n[2])}"></span>')
                else:
                    chunks.append(word(n) + spans)
            text = '\n'.join(chunks)
            parts.append(f'<p id="i{i}" style="white-space:pre-line;text-align:{it["align"]};clear:{it["clear"]};'
                         f'margin:{px(it["mt"])} 0 {px(it["mb"])}">{text}</p>')
        elif it['kind'] == 'bfc':
            width = 'auto' if it['w'] == 'auto' else px(it['w'])
            parts.append(
                f'<div id="i{i}" style="overflow:hidden;width:{width};height:{px(it["h"])};'
                f'margin:{px(it["mt"])} {px(it["mr"])} {px(it["mb"])} {px(it["ml"])};clear:{it["clear"]}"></div>')
        elif it['kind'] == 'table':
            parts.append(
                f'<table id="i{i}" style="width:{px(it["w"])};height:{px(it["h"])};border-spacing:0;'
                f'margin-left:{px(it["ml"])};margin-right:{px(it["mr"])};clear:{it["clear"]}"><tr><td></td></tr></table>')
        elif it['kind'] == 'img':
            parts.append(
                f'<img id="i{i}" src="{SVG}" style="display:block;width:{px(it["w"])};height:{px(it["h"])};'
                f'margin-left:{px(it["ml"])};margin-right:{px(it["mr"])};clear:{it["clear"]}">')
        else:
            parts.append(f'<div id="i{i}" style="height:{px(it["h"])};margin:{px(it["mt"])} 0 {px(it["mb"])};'
                         f'clear:{it["clear"]}"></div>')
    parts.append('</div>')
    return ''.join(parts)


def float_doc_wire(doc):
    cx = F(PAGE_MARGIN) + doc['ml']
    y0 = F(PAGE_MARGIN) + doc['spacer'] + CONTAINER_PAD
    items = []
    for it in doc['items']:
        if it['kind'] == 'float':
            items.append(['floatspec', float_spec(it)])
        elif it['kind'] == 'para':
            lines = []
            for n, fl in zip(it['words'], it['inline']):
                size = [0, n[1], n[2]] if isinstance(n, list) else [n * doc['fs'], n * doc['fs'], doc['fs']]
                lines.append(size + [[[0, 0, f['mt'], f['mb'], f['ml'], f['mr'], f['w'], f['h'], f['side'],
                                       f['clear'], 'bfc'] for f in fl]])
            items.append(['para', it['clear'], doc['fs'], it['align'], lines, it['mt'], it['mb']])
        elif it['kind'] == 'bfc':
            items.append(['bfc', it['clear'], it['w'], it['h'], it['ml'], it['mr'], it['mt'], it['mb']])
        elif it['kind'] in ('img', 'table'):
            items.append([it['kind'], it['clear'], it['w'], it['h'], it['ml'], it['mr']])
        else:
            items.append(['block', it['clear'], it['h'], it['mt'], it['mb']])
    return sx.line('flow', [cx, doc['w'], doc['rtl']], y0, items)


def walk(box, parent=None):
    """(box, parent) pairs of a laid-out tree, absolute placeholders unwrapped."""
    box = box.__dict__.get('_box', box) if type(box).__name__ == 'AbsolutePlaceholder' else box
    yield box, parent
    for child in getattr(box, 'children', ()):
        yield from walk(child, box)


def boxes_by_id(document):
    """{element id: [boxes]} over all pages (page index and parent attached as `_page`, `_parent`)."""
    out = {}
    for page_index, page in enumerate(document.pages):
        for box, parent in walk(page._page_box):
            box._page, box._parent = page_index, parent
            element = getattr(box, 'element', None)
            if element is not None and element.get('id'):
                out.setdefault(element.get('id'), []).append(box)
    return out


def fr(v):
    return F(v)


def observe_float_doc(doc):
    from weasyprint.formatting_structure import boxes
    document = docs.render(float_doc_html(doc))
    by_id = boxes_by_id(document)
    out = []
    for i, it in enumerate(doc['items']):
        found = by_id.get(f'i{i}', [])
        blocks = [b for b in found if isinstance(b, (boxes.BlockBox, boxes.BlockReplacedBox))]   # table: its wrapper
        if len(blocks) != 1:
            out.append(f'(missing-or-split {len(blocks)})')
            continue
        box = blocks[0]
        if it['kind'] == 'float':
            out.append('(F ' + ' '.join(sx.atom(fr(v)) for v in (
                box.position_x, box.position_y, box.margin_width(), box.margin_height())) + ')')
        elif it['kind'] == 'para':
            lines = [c for c in box.children if isinstance(c, boxes.LineBox)]
            text = '(P'
            for k, ln in enumerate(lines):
                n_inline = len(it['inline'][k]) if k < len(it['inline']) else 0
                if n_inline:
                    # a line holding floats: its box also spans the floats placed on it; only its top is compared
                    text += ' (- ' + sx.atom(fr(ln.position_y)) + ' - -'
                else:
                    text += ' (' + ' '.join(sx.atom(fr(v)) for v in (
                        ln.position_x, ln.position_y, ln.width, ln.height))
                for m in range(n_inline):
                    fl = [b for b in by_id.get(f'i{i}l{k}f{m}', []) if isinstance(b, boxes.BlockBox)]
                    text += (' (F ' + ' '.join(sx.atom(fr(v)) for v in (
                        fl[0].position_x, fl[0].position_y, fl[0].margin_width(), fl[0].margin_height())) + ')'
                        if len(fl) == 1 else f' (missing-or-split {len(fl)})')
                text += ')'
            out.append(text + ')')
        elif it['kind'] in ('bfc', 'img', 'table'):
            out.append(('(B ' if it['kind'] == 'bfc' else '(R ') + ' '.join(sx.atom(fr(v)) for v in (
                box.border_box_x(), box.border_box_y(), box.border_width(), box.border_height())) + ')')
        else:
            out.append('(K ' + sx.atom(fr(box.border_box_y())) + ')')
    return ' '.join(out)


def sec_float_docs(run):
    rng = run.rng
    sec = run.section(
        'float-docs', 'rendered documents: 1..12 block-level floats (random side, size, margins, clear) mixed with '
        'paragraphs of one-word lines, BFC roots (overflow:hidden, auto or fixed width) and plain blocks in a '
        'container of random width, ltr and rtl; compared: margin box of every float, position and width of every '
        'line box, border box of every BFC root, top of every block; non-trivial = at least two floats')
    for _ in range(run.n(500, 4000)):
        doc = gen_float_doc(rng, adversarial=rng.random() < 0.2)
        out = guarded(lambda: observe_float_doc(doc))
        n_floats = sum(1 for it in doc['items'] if it['kind'] == 'float')
        sec.add(float_doc_wire(doc), out, meta={'kind': 'float-doc', 'doc': doc, 'signature': None},
                nontrivial=n_floats >= 2,
                tags=[f'floats{n_floats}', 'rtl' if doc['rtl'] else 'ltr'] +
                     sorted({it['kind'] for it in doc['items']}))


# ---------------------------------------------------------------------------------------------
# positioned-box documents

PCTS = (F(0), F(25, 2), F(25), F(50), F(100))


PCTS_SMALL = (F(0), F(25, 2), F(25))


def gen_dim(rng, p_auto, hi, negative=False, pcts=PCTS):
    r = rng.random()
    if r < p_auto:
        return 'auto'
    if r < p_auto + (1 - p_auto) * 0.7:
        v = q(rng, 0, hi)
        if negative and rng.random() < 0.15:
            v = -v
        return ['px', v]
    return ['pct', rng.choice(pcts)]


def css_dim(d):
    if d == 'auto':
        return 'auto'
    if d[0] == 'px':
        return px(d[1])
    return f'{float(d[1])}%'


def gen_abs_style(rng, fixed=False):
    """Computed style of a positioned target: every offset / size / margin independently auto, px or %."""
    st = {
        'left': gen_dim(rng, 0.45, 60, True), 'right': gen_dim(rng, 0.45, 60, True),
        # vertical values are kept small enough for the box to stay on its (tall) page: a positioned box
        # that overflows the page bottom goes through the page-overflow code of the block layout
        'top': gen_dim(rng, 0.45, 60, True, PCTS_SMALL), 'bottom': gen_dim(rng, 0.45, 60, False, PCTS_SMALL),
        'width': gen_dim(rng, 0.4, 120), 'height': gen_dim(rng, 0.4, 80, False, PCTS_SMALL),
        'ml': gen_dim(rng, 0.4, 20, True), 'mr': gen_dim(rng, 0.4, 20, True),
        'mt': gen_dim(rng, 0.4, 20, True, PCTS_SMALL), 'mb': gen_dim(rng, 0.4, 20, False, PCTS_SMALL),
        'pl': gen_dim(rng, 0, 8) if rng.random() < 0.4 else ['px', F(0)],
        'pr': gen_dim(rng, 0, 8) if rng.random() < 0.4 else ['px', F(0)],
        'pt': gen_dim(rng, 0, 8, False, PCTS_SMALL) if rng.random() < 0.4 else ['px', F(0)],
        'pb': gen_dim(rng, 0, 8, False, PCTS_SMALL) if rng.random() < 0.4 else ['px', F(0)],
        'bl': F(rng.choice([0, 0, 1, 2, 3])), 'br': F(rng.choice([0, 0, 1, 2, 3])),
        'bt': F(rng.choice([0, 0, 1, 2, 3])), 'bb': F(rng.choice([0, 0, 1, 2, 3])),
        'minw': gen_dim(rng, 0, 100) if rng.random() < 0.15 else 'auto',
        'maxw': gen_dim(rng, 0, 150) if rng.random() < 0.15 else 'auto',
        'minh': gen_dim(rng, 0, 60) if rng.random() < 0.1 else 'auto',
        'maxh': gen_dim(rng, 0, 100) if rng.random() < 0.1 else 'auto',
    }
    if fixed and st['left'] == 'auto' and st['right'] == 'auto':
        st[rng.choice(['left', 'right'])] = ['px', q(rng, 0, 40)]
    if fixed and st['top'] == 'auto' and st['bottom'] == 'auto':
        st[rng.choice(['top', 'bottom'])] = ['px', q(rng, 0, 40)]
    return st


def gen_content(rng, fs):
    """Content with known min/max-content widths and heights: a fixed block, one word, or two words."""
    r = rng.random()
    if r < 0.4:
        w, h = q(rng, 0, 80), q(rng, 0, 40)
        return {'html': f'<div style="width:{px(w)};height:{px(h)}"></div>', 'minc': w, 'maxc': w,
                'hwide': h, 'hnarrow': h}
    if r < 0.6:
        n = rng.randint(1, 6)
        return {'html': 'abcdefgh'[:n], 'minc': F(n * fs), 'maxc': F(n * fs), 'hwide': F(fs), 'hnarrow': F(fs)}
    a, b = rng.randint(1, 4), rng.randint(1, 4)
    return {'html': 'abcd'[:a] + ' ' + 'efgh'[:b], 'minc': F(max(a, b) * fs), 'maxc': F((a + b + 1) * fs),
            'hwide': F(fs), 'hnarrow': F(2 * fs)}


def gen_abs_doc(rng):
    """A chain of 1..3 ancestors (static / relative / absolute, fixed sizes, paddings, borders, horizontal
    margins, relative offsets), the innermost holding k in-flow blocks then the positioned target."""
    fs = rng.choice([8, 10, 12])
    depth = rng.randint(1, 3)
    ancestors = []
    size_w, size_h = F(rng.choice([300, 320, 360])), F(rng.choice([240, 260, 300]))
    for level in range(depth):
        pos = rng.choice(['static', 'static', 'relative', 'relative', 'absolute'])
        anc = {
            'pos': pos, 'w': size_w, 'h': size_h,
            'pl': q(rng, 0, 6, 2), 'pt': q(rng, 0, 6, 2), 'pr': q(rng, 0, 6, 2), 'pb': q(rng, 0, 6, 2),
            'bl': F(rng.choice([0, 1, 2])), 'bt': F(rng.choice([0, 1, 2])),
            'br': F(rng.choice([0, 1, 2])), 'bb': F(rng.choice([0, 1, 2])),
            'ml': q(rng, 0, 10, 2), 'rtl': rng.random() < 0.3,
            'before': [q(rng, 1, 12, 2) for _ in range(rng.randint(0, 2))],
        }
        if pos == 'relative':
            anc['off'] = [gen_dim(rng, 0.5, 20, True) for _ in range(4)]     # left right top bottom
            if level == 0:
                # the parent is <body>, whose height is auto (percentages of an auto height: not claimed)
                for k in (2, 3):
                    if anc['off'][k] != 'auto' and anc['off'][k][0] == 'pct':
                        anc['off'][k] = ['px', q(rng, 0, 20)]
        elif pos == 'absolute':
            anc['style'] = gen_abs_style(rng)
            # ancestors are never anchored to the bottom of their containing block: what they contain
            # must stay above the page bottom (see gen_abs_style)
            anc['style']['bottom'] = 'auto'
            anc['style']['width'] = ['px', size_w]
            anc['style']['height'] = ['px', size_h]
            for k in ('pl', 'pr', 'pt', 'pb'):
                anc['style'][k] = ['px', anc[k]]
            for k in ('bl', 'br', 'bt', 'bb'):
                anc['style'][k] = anc[k]
            for k in ('minw', 'maxw', 'minh', 'maxh'):
                anc['style'][k] = 'auto'
        # min-height / max-height on a positioned ancestor: the height of the containing block of its absolute
        # children (known finding abs-cb-height-before-min-max: a relative block lays them out before the clamp)
        anc['minh'], anc['maxh'] = F(0), math.inf
        if pos != 'static' and rng.random() < 0.35:
            if rng.random() < 0.5:
                anc['minh'] = size_h + q(rng, -40, 60, 2)
            else:
                anc['maxh'] = max(F(60), size_h - q(rng, 0, 80, 2))
            if pos == 'absolute':
                anc['style']['minh'] = ['px', anc['minh']] if anc['minh'] else 'auto'
                anc['style']['maxh'] = ['px', anc['maxh']] if anc['maxh'] != math.inf else 'auto'
        ancestors.append(anc)
        size_w, size_h = size_w - 60, size_h - 50
    for level in range(1, depth):
        parent, anc = ancestors[level - 1], ancestors[level]
        if anc['pos'] == 'relative' and (parent['minh'] or parent['maxh'] != math.inf):
            # percentages of top / bottom refer to the parent's height, read before its min/max clamp
            for k in (2, 3):
                if anc['off'][k] != 'auto' and anc['off'][k][0] == 'pct':
                    anc['off'][k] = ['px', q(rng, 0, 20)]
    fixed = rng.random() < 0.2
    target, content = gen_abs_style(rng, fixed), gen_content(rng, fs)
    replaced = rng.random() < 0.25
    if replaced:
        # an absolutely positioned image with specified sizes: absolute_replaced
        content = {'html': None, 'minc': F(0), 'maxc': F(0), 'hwide': F(0), 'hnarrow': F(0)}
        for k, hi in (('width', 120), ('height', 80)):
            if target[k] == 'auto':
                target[k] = ['px', q(rng, 0, hi)]
        for k in ('minw', 'maxw', 'minh', 'maxh'):
            target[k] = 'auto'
    elif '<div' not in content['html']:
        # text must not overflow its box: a line box that ends below the page bottom goes through the
        # page-overflow code of _linebox_layout (pagination, not placement)
        if target['height'] != 'auto':
            target['height'] = ['px', content['hnarrow'] + q(rng, 0, 40)]
        target['maxh'] = 'auto'
        # text is laid out at the static position: keep it at x >= 0 (split_inline_box widens max_x by a
        # factor 1 + 1e-9, which *narrows* the line at negative coordinates: text that fits exactly wraps)
        for anc in ancestors:
            if anc['pos'] == 'absolute':
                anc['style']['right'] = 'auto'
                for k in ('left', 'ml'):
                    if anc['style'][k] != 'auto' and anc['style'][k][1] < 0:
                        anc['style'][k] = [anc['style'][k][0], -anc['style'][k][1]]
            if anc['pos'] == 'relative':
                anc['off'][0] = anc['off'][1] = 'auto'
    return {'fs': fs, 'ancestors': ancestors, 'fixed': fixed,
            'target': target, 'content': content,
            'before': [q(rng, 1, 12, 2) for _ in range(rng.randint(0, 3))],
            'pages': rng.randint(2, 3) if fixed else 1}


def abs_style_css(st, position):
    parts = [f'position:{position}']
    for key, prop in (('left', 'left'), ('right', 'right'), ('top', 'top'), ('bottom', 'bottom'),
                      ('width', 'width'), ('height', 'height'), ('ml', 'margin-left'), ('mr', 'margin-right'),
                      ('mt', 'margin-top'), ('mb', 'margin-bottom'), ('pl', 'padding-left'),
                      ('pr', 'padding-right'), ('pt', 'padding-top'), ('pb', 'padding-bottom')):
        parts.append(f'{prop}:{css_dim(st[key])}')
    parts.append('border-style:solid')
    parts.append(f'border-width:{px(st["bt"])} {px(st["br"])} {px(st["bb"])} {px(st["bl"])}')
    if st['minw'] != 'auto':
        parts.append(f'min-width:{css_dim(st["minw"])}')
    if st['maxw'] != 'auto':
        parts.append(f'max-width:{css_dim(st["maxw"])}')
    if st['minh'] != 'auto':
        parts.append(f'min-height:{css_dim(st["minh"])}')
    if st['maxh'] != 'auto':
        parts.append(f'max-height:{css_dim(st["maxh"])}')
    return ';'.join(parts)


PAGE_W, PAGE_H = 500, 1600


def abs_doc_html(doc):
    fs = doc['fs']
    out = ['<style>@page{size:%dpx %dpx;margin:%dpx}html,body{margin:0;padding:0}'
           'body{font-family:weasyprint;font-size:%dpx;line-height:%dpx}</style>' % (
               PAGE_W, PAGE_H, PAGE_MARGIN, fs, fs)]
    closing = []
    for level, anc in enumerate(doc['ancestors']):
        direction = 'rtl' if anc['rtl'] else 'ltr'
        common = (f'direction:{direction};padding:{px(anc["pt"])} {px(anc["pr"])} {px(anc["pb"])} {px(anc["pl"])};'
                  f'border-style:solid;border-width:{px(anc["bt"])} {px(anc["br"])} {px(anc["bb"])} {px(anc["bl"])}')
        for h in anc['before']:
            out.append(f'<div style="height:{px(h)}"></div>')
        if anc['pos'] == 'absolute':
            out.append(f'<div id="a{level}" style="{abs_style_css(anc["style"], "absolute")};direction:{direction}">')
        else:
            style = f'position:{anc["pos"]};width:{px(anc["w"])};height:{px(anc["h"])};margin-left:{px(anc["ml"])};{common}'
            if anc['pos'] == 'relative':
                left, right, top, bottom = anc['off']
                style += (f';left:{css_dim(left)};right:{css_dim(right)};top:{css_dim(top)};'
                          f'bottom:{css_dim(bottom)}')
                if anc.get('minh'):
                    style += f';min-height:{px(anc["minh"])}'
                if anc.get('maxh', math.inf) != math.inf:
                    style += f';max-height:{px(anc["maxh"])}'
            out.append(f'<div id="a{level}" style="{style}">')
        closing.append('</div>')
    for h in doc['before']:
        out.append(f'<div style="height:{px(h)}"></div>')
    position = 'fixed' if doc['fixed'] else 'absolute'
    if doc['content']['html'] is None:
        out.append(f'<img id="t" src="{SVG}" style="{abs_style_css(doc["target"], position)}">')
    else:
        out.append(f'<div id="t" style="{abs_style_css(doc["target"], position)}">{doc["content"]["html"]}</div>')
    out.extend(reversed(closing))
    for _ in range(doc['pages'] - 1):
        out.append('<div style="break-before:page;height:10px"></div>')
    return ''.join(out)


def dim_wire(d):
    return 'auto' if d == 'auto' else [d[0], d[1]]


def style_wire(st):
    return [dim_wire(st[k]) for k in ('left', 'right', 'top', 'bottom', 'width', 'height', 'ml', 'mr', 'mt', 'mb',
                                      'pl', 'pr', 'pt', 'pb')] + [st['bl'], st['br'], st['bt'], st['bb']] + [
        dim_wire(st[k]) for k in ('minw', 'maxw', 'minh', 'maxh')]


def cb_wire(box, is_page):
    return [is_page] + [fr(v) for v in (
        box.position_x, box.position_y, box.margin_left, box.margin_top, box.border_left_width,
        box.border_top_width, box.padding_left, box.padding_top, box.padding_right, box.padding_bottom,
        box.width, box.height)]


def rect_of(box):
    return ' '.join(sx.atom(fr(v)) for v in (
        box.position_x, box.position_y, box.margin_width(), box.margin_height(), box.width, box.height,
        box.margin_left, box.margin_right, box.margin_top, box.margin_bottom))


@contextlib.contextmanager
def logged_owners():
    """{element id: [id of the containing block ('page' for a PageBox) of every absolute_box_layout call]}"""
    import weasyprint.layout as layout_mod
    from weasyprint.layout import absolute, page
    real = absolute.absolute_box_layout
    owners = {}

    def wrapper(context, box, containing_block, *args, **kwargs):
        element = getattr(box, 'element', None)
        key = element.get('id') if element is not None else None
        if key:
            cb_element = getattr(containing_block, 'element', None)
            is_page = type(containing_block).__name__ == 'PageBox'
            owners.setdefault(key, []).append(
                'page' if is_page else (cb_element.get('id') if cb_element is not None else None) or '?')
        return real(context, box, containing_block, *args, **kwargs)
    absolute.absolute_box_layout = page.absolute_box_layout = layout_mod.absolute_box_layout = wrapper
    try:
        yield owners
    finally:
        absolute.absolute_box_layout = page.absolute_box_layout = layout_mod.absolute_box_layout = real


def abs_doc_cases(doc):
    """Render; -> list of (protocol line, implementation output, tags, description)."""
    from weasyprint.formatting_structure import boxes
    with logged_owners() as owners:
        document = docs.render(abs_doc_html(doc))
    by_id = boxes_by_id(document)
    cases = []
    ancestors = doc['ancestors']
    # which box the implementation handed to absolute_box_layout as containing block, against the model of the
    # list plumbing (Model/Positioned.lean)
    chain = [a['pos'] for a in ancestors]
    for level in range(len(ancestors) + 1):
        key = f'a{level}' if level < len(ancestors) else 't'
        pos = (ancestors[level]['pos'] if level < len(ancestors) else 'fixed' if doc['fixed'] else 'absolute')
        if pos in ('absolute', 'fixed'):
            seen = owners.get(key)
            cases.append((sx.line('cbowner', pos, chain[:level]),
                          'never-laid-out' if not seen else seen[0][1:] if seen[0].startswith('a') else seen[0],
                          ['owner-' + pos], key))

    def the_box(key, page=0):
        found = [b for b in by_id.get(key, []) if b._page == page and not isinstance(b, (boxes.LineBox, boxes.TextBox))]
        return found[0] if len(found) == 1 else None

    def nearest_positioned(level):
        """Index of the nearest positioned ancestor strictly above `level` (len(ancestors) = the target), or None."""
        for j in range(level - 1, -1, -1):
            if ancestors[j]['pos'] != 'static':
                return j
        return None

    def positioned_case(key, style, level, before, content, fixed, page=0):
        box = the_box(key, page)
        if box is None:
            return (None, f'missing {key} on page {page}', [], key)
        page_box = document.pages[page]._page_box
        j = None if fixed else nearest_positioned(level)
        cb_box = page_box if j is None else the_box(f'a{j}')
        if cb_box is None:
            return (None, f'missing containing block of {key}', [], key)
        if fixed and page > 0:
            # re-laid out from the first page's static position
            parent, first = None, the_box(key, 0)
        if level == 0:
            # child of body: static position = page content box + preceding blocks
            sx0 = fr(page_box.content_box_x())
            sy0 = fr(page_box.content_box_y())
            ltr = True
        else:
            parent = the_box(f'a{level - 1}')
            sx0, sy0 = fr(parent.content_box_x()), fr(parent.content_box_y())
            ltr = not ancestors[level - 1]['rtl']
        sy0 += sum(before, F(0))
        heights = None if j is None else [ancestors[j]['pos'] == 'relative', ancestors[j]['h'],
                                           ancestors[j].get('minh', F(0)), ancestors[j].get('maxh', math.inf)]
        if content.get('html', '') is None:
            line = sx.line('absrepldoc', style_wire(style), cb_wire(cb_box, j is None), ltr, sx0, sy0, heights)
        else:
            line = sx.line('absblock', style_wire(style), cb_wire(cb_box, j is None), ltr, sx0, sy0,
                           content['minc'], content['maxc'], content['hwide'], content['hnarrow'], heights)
        pattern = ''.join('a' if style[k] == 'auto' else 'v' for k in ('left', 'right', 'width', 'ml', 'mr'))
        pattern_v = ''.join('a' if style[k] == 'auto' else 'v' for k in ('top', 'bottom', 'height', 'mt', 'mb'))
        clamped = j is not None and (ancestors[j].get('minh') or ancestors[j].get('maxh', math.inf) != math.inf)
        tags = (['cb-minmax-height-' + ancestors[j]['pos']] if clamped else []) + [
                'h-' + pattern, 'v-' + pattern_v, 'ltr' if ltr else 'rtl',
                'cb-page' if j is None else 'cb-' + ancestors[j]['pos'], 'fixed' if fixed else 'absolute',
                'replaced' if content.get('html', '') is None else 'block']
        return (line, rect_of(box), tags, key)

    empty = {'minc': F(0), 'maxc': F(0), 'hwide': F(0), 'hnarrow': F(0)}
    for level, anc in enumerate(ancestors):
        if anc['pos'] == 'absolute':
            # its content: the in-flow blocks and the next ancestor do not matter (sizes are fixed)
            cases.append(positioned_case(f'a{level}', anc['style'], level, anc['before'], empty, False))
        elif anc['pos'] == 'relative':
            box = the_box(f'a{level}')
            if box is None:
                cases.append((None, f'missing a{level}', [], f'a{level}'))
                continue
            # static position in flow: parent's content box + preceding blocks (margin-left is inside the box);
            # percentages of the offsets refer to the parent's used width / height
            parent = box._parent
            px0, py0 = fr(parent.content_box_x()), fr(parent.content_box_y())
            cb_w, cb_h = fr(parent.width), fr(parent.height)
            py0 += sum(anc['before'], F(0))
            if level > 0 and ancestors[level - 1]['rtl']:
                # over-constrained block in an rtl parent: block_level_width shifts it to the right edge
                outer = anc['ml'] + anc['bl'] + anc['pl'] + anc['w'] + anc['pr'] + anc['br']
                px0 += cb_w - outer
            left, right, top, bottom = anc['off']
            tree = [True, anc['rtl'], False, dim_wire(left), dim_wire(right), dim_wire(top), dim_wire(bottom),
                    px0, py0, []]
            cases.append((sx.line('relpos', cb_w, cb_h, tree),
                          sx.dumps([fr(box.position_x), fr(box.position_y), []]),
                          ['relative-ancestor', 'rtl' if anc['rtl'] else 'ltr'], f'a{level}'))
    # known finding fixed-in-absolute-not-repeated: a fixed box whose outermost positioned ancestor is
    # absolutely positioned is collected after page.fixed_boxes was computed and only appears on its own page
    positioned = [a['pos'] for a in ancestors if a['pos'] != 'static']
    late_fixed = doc['fixed'] and positioned and positioned[0] == 'absolute'
    for page in range(1 if late_fixed else doc['pages']):
        cases.append(positioned_case('t', doc['target'], len(ancestors), doc['before'], doc['content'],
                                     doc['fixed'], page))
    return cases


def sec_abs_docs(run):
    rng = run.rng
    sec = run.section(
        'abs-docs', 'rendered documents: an absolutely / fixed positioned box (every offset, size and margin '
        'independently auto, px or %; paddings, borders, min/max sizes; block or text content) nested in 1..3 static / '
        'relative / absolute ancestors, ltr and rtl; compared: margin box, used size and used margins of every '
        'positioned box against the model run on the padding box of its nearest positioned ancestor (page area when '
        'none; every page for fixed boxes), and the position of every relatively positioned ancestor; '
        'non-trivial = every case')
    for _ in range(run.n(400, 4000)):
        doc = gen_abs_doc(rng)
        cases = guarded(lambda: abs_doc_cases(doc))
        if isinstance(cases, str):      # an exception (or hang) of the renderer is an outcome
            cases = [(sx.line('cbrect', [True] + [0] * 12), cases, ['render-error'], 'doc')]
        for line, out, tags, key in cases:
            if line is None:
                line = sx.line('cbrect', [True] + [0] * 12)
            sec.add(line, out, meta={'kind': 'abs-doc', 'doc': doc, 'key': key, 'signature': None}, tags=tags)


# ---------------------------------------------------------------------------------------------
# fixed boxes on every page

def gen_fixed_doc(rng):
    """2..4 pages; on each, 0..2 fixed boxes (px offsets) under 0..2 static / relative / absolute ancestors."""
    pages = []
    next_id = 1
    for _ in range(rng.randint(2, 4)):
        boxes_ = []
        for _b in range(rng.choice([0, 1, 1, 2])):
            chain = [rng.choice(['static', 'relative', 'absolute']) for _c in range(rng.choice([0, 0, 1, 2]))]
            boxes_.append({'id': next_id, 'left': q(rng, 0, 100), 'top': q(rng, 0, 100), 'chain': chain})
            next_id += 1
        pages.append(boxes_)
    return {'pages': pages}


def late_rule(chain):
    """Model/Positioned.collectedLate, restated: the outermost positioned ancestor is absolutely positioned."""
    positioned = [c for c in chain if c != 'static']
    return bool(positioned) and positioned[0] == 'absolute'


def fixed_doc_html(doc):
    out = ['<style>@page{size:300px 300px;margin:%dpx}html,body{margin:0;padding:0}</style>' % PAGE_MARGIN]
    for n, page in enumerate(doc['pages']):
        out.append(f'<div style="{"break-before:page;" if n else ""}height:20px"></div>')
        for b in page:
            opening = ''.join(
                f'<div style="position:{c};width:150px;height:30px;{"left:7px;top:3px" if c != "static" else ""}">'
                for c in b['chain'])
            out.append(f'{opening}<div id="f{b["id"]}" style="position:fixed;left:{px(b["left"])};'
                       f'top:{px(b["top"])};width:10px;height:10px"></div>' + '</div>' * len(b['chain']))
        out.append('<div style="height:20px"></div>')
    return ''.join(out)


def observe_fixed_doc(doc):
    document = docs.render(fixed_doc_html(doc))
    pages = []
    for page in document.pages:
        found = []
        for box, _parent in walk(page._page_box):
            element = getattr(box, 'element', None)
            key = element.get('id') if element is not None else None
            if key and key.startswith('f') and type(box).__name__ == 'BlockBox':
                found.append(f'({key[1:]} {sx.atom(fr(box.position_x))} {sx.atom(fr(box.position_y))})')
        pages.append('(' + ' '.join(found) + ')')
    return ' '.join(pages), len(document.pages)


def sec_fixed_docs(run):
    rng = run.rng
    sec = run.section(
        'fixed-pages', 'rendered documents of 2..4 pages with fixed boxes declared on any page under static / relative / '
        'absolute ancestors; compared: for every page, the fixed boxes present in tree order and their positions, '
        'against the model of page.fixed_boxes / layout_fixed_boxes; and, for every fixed box, whether it is collected '
        'too late to be repeated; non-trivial = at least one fixed box')
    for _ in range(run.n(80, 800)):
        doc = gen_fixed_doc(rng)
        wire_pages = [[[b['id'], b['left'], b['top'], late_rule(b['chain'])] for b in page] for page in doc['pages']]
        out = guarded(lambda: observe_fixed_doc(doc))
        text, n_pages = out if not isinstance(out, str) else (out, None)
        n_fixed = sum(len(p) for p in doc['pages'])
        sec.add(sx.line('fixedpages', PAGE_MARGIN, PAGE_MARGIN, wire_pages), text,
                meta={'kind': 'fixed-doc', 'doc': doc, 'signature': None}, nontrivial=n_fixed > 0,
                tags=[f'pages{len(doc["pages"])}', f'fixed{min(n_fixed, 5)}'] +
                     (['late'] if any(late_rule(b['chain']) for p in doc['pages'] for b in p) else []))
        if isinstance(out, str):
            continue
        # the late rule against what the implementation did: a box missing from another page was collected late
        observed = sx.loads_line(text)
        for n, page in enumerate(doc['pages']):
            for b in page:
                elsewhere = [m for m in range(len(observed)) if m != n]
                missing = any(str(b['id']) not in [e[0] for e in observed[m]] for m in elsewhere)
                sec.add(sx.line('late', b['chain']), 'true' if missing else 'false',
                        meta={'kind': 'fixed-late', 'doc': doc, 'box': b['id'], 'signature': None},
                        tags=['late-rule', 'chain' + str(len(b['chain']))])


def fixed_doc_violation(doc, text):
    """A fixed box is laid out identically on every page — except the known finding
    fixed-in-absolute-not-repeated (outermost positioned ancestor absolutely positioned)."""
    if text.startswith('err:'):
        return f'rendering raised {text}'
    observed = sx.loads_line(text)
    if len(observed) != len(doc['pages']):
        return f'{len(observed)} pages rendered for {len(doc["pages"])} pages of content'
    for n, page in enumerate(doc['pages']):
        for b in page:
            want = [str(b['id']), sx.atom(F(PAGE_MARGIN) + b['left']), sx.atom(F(PAGE_MARGIN) + b['top'])]
            for m, got in enumerate(observed):
                here = [e for e in got if e[0] == str(b['id'])]
                if m != n and late_rule(b['chain']):
                    continue
                if len(here) != 1:
                    return f'fixed box f{b["id"]} (declared on page {n + 1}) appears {len(here)} times on page {m + 1}'
                if here[0] != want:
                    return (f'fixed box f{b["id"]} is at {here[0][1:]} on page {m + 1}, expected page area + '
                            f'(left, top) = {want[1:]}')
    return None


# ---------------------------------------------------------------------------------------------
# fixed boxes (also nested in fixed boxes) on pages whose page areas differ

PAGE_RULES = {
    'same': '@page{size:240px 320px;margin:16px 24px 32px 40px}',
    'mirrored': ('@page{size:240px 320px;margin:16px}@page :right{margin-left:48px;margin-top:24px}'
                 '@page :left{margin-right:56px;margin-bottom:32px}'),
    'first': '@page{size:320px 240px;margin:24px 16px}@page :first{size:240px 320px;margin:8px 32px 16px}',
    'named': '@page{size:240px 320px;margin:16px}@page wide{size:400px 240px;margin:8px 40px 24px 32px}',
}


def gen_fixed_style(rng):
    """One offset per axis at least (no static position), px or % of the page area, px size and margins."""
    def off():
        r = rng.random()
        return ['px', q(rng, 0, 60)] if r < 0.6 else ['pct', rng.choice([F(0), F(25, 2), F(25), F(50)])]

    def axis():
        r = rng.random()
        return (off(), 'auto') if r < 0.45 else ('auto', off()) if r < 0.9 else (off(), off())
    left, right = axis()
    top, bottom = axis()

    def margin():
        return F(0) if rng.random() < 0.6 else q(rng, 0, 6)
    return {'left': left, 'right': right, 'top': top, 'bottom': bottom, 'w': q(rng, 4, 40), 'h': q(rng, 4, 30),
            'ml': margin(), 'mr': margin(), 'mt': margin(), 'mb': margin()}


def gen_fixed_tree(rng, ids, depth):
    node = {'id': next(ids), 'style': gen_fixed_style(rng),
            'chain': [rng.choice(['static', 'relative', 'absolute']) for _c in range(rng.choice([0, 0, 1, 2]))],
            'kids': []}
    if depth and rng.random() < 0.6:
        node['kids'] = [gen_fixed_tree(rng, ids, depth - 1) for _k in range(rng.choice([1, 1, 2]))]
        # the in-flow wrappers of the nested boxes (10px each) stay inside the box: content that crosses the page
        # bottom is fragmented on the box's own page only (known finding fixed-box-fragmented-on-own-page;
        # fragmentation of out-of-flow boxes is pagination, not placement)
        in_flow = sum(1 for k in node['kids'] if k['chain'] and k['chain'][0] != 'absolute')
        node['style']['h'] = max(node['style']['h'], F(10 * in_flow))
    return node


def gen_fixed_area_doc(rng):
    """2..4 pages whose page areas differ (mirrored margins, another first page, named pages); on each, 0..2 fixed
    boxes under static / relative / absolute ancestors, each holding 0..2 nested fixed boxes (depth <= 2)."""
    import itertools
    ids = itertools.count(1)
    pages = []
    for _ in range(rng.randint(2, 4)):
        pages.append([gen_fixed_tree(rng, ids, 2) for _b in range(rng.choice([0, 1, 1, 2]))])
    if not any(pages):
        pages[rng.randrange(len(pages))].append(gen_fixed_tree(rng, ids, 2))
    return {'rules': rng.choice(['same', 'mirrored', 'mirrored', 'first', 'first', 'named', 'named']), 'pages': pages}


def fixed_tree_html(node, top=True):
    st = node['style']
    css = (f'position:fixed;left:{css_dim(st["left"])};right:{css_dim(st["right"])};top:{css_dim(st["top"])};'
           f'bottom:{css_dim(st["bottom"])};width:{px(st["w"])};height:{px(st["h"])};'
           f'margin:{px(st["mt"])} {px(st["mr"])} {px(st["mb"])} {px(st["ml"])}')
    opening = ''.join(
        f'<div style="position:{c};width:50px;height:10px;{"left:3px;top:2px" if c != "static" else ""}">'
        for c in node['chain'])
    inner = ''.join(fixed_tree_html(k, False) for k in node['kids'])
    return f'{opening}<div id="f{node["id"]}" style="{css}">{inner}</div>' + '</div>' * len(node['chain'])


def fixed_area_doc_html(doc):
    out = [f'<style>{PAGE_RULES[doc["rules"]]}html,body{{margin:0;padding:0}}</style>']
    for n, page in enumerate(doc['pages']):
        named = 'page:wide;' if doc['rules'] == 'named' and n % 2 else ''
        out.append(f'<div style="{"break-before:page;" if n else ""}{named}height:20px">')
        out.extend(fixed_tree_html(t) for t in page)
        out.append('</div>')
    return ''.join(out)


def fixed_tree_wire(node, top=True):
    st = node['style']
    return [node['id'], [dim_wire(st[k]) for k in ('left', 'right', 'top', 'bottom')] +
            [st[k] for k in ('w', 'h', 'ml', 'mr', 'mt', 'mb')],
            late_rule(node['chain']) if top else False, [fixed_tree_wire(k, False) for k in node['kids']]]


def observe_fixed_area_doc(doc):
    """-> (per page text `((id x y) …)`, page areas [x, y, w, h])"""
    document = docs.render(fixed_area_doc_html(doc))
    pages, areas = [], []
    for page in document.pages:
        box = page._page_box
        areas.append([fr(box.content_box_x()), fr(box.content_box_y()), fr(box.width), fr(box.height)])
        found = []
        for b, _parent in walk(box):
            element = getattr(b, 'element', None)
            key = element.get('id') if element is not None else None
            if key and key.startswith('f') and type(b).__name__ == 'BlockBox':
                found.append(f'({key[1:]} {sx.atom(fr(b.position_x))} {sx.atom(fr(b.position_y))})')
        pages.append('(' + ' '.join(found) + ')')
    return ' '.join(pages), areas


def sec_fixed_area_docs(run):
    rng = run.rng
    sec = run.section(
        'fixed-areas', 'rendered documents of 2..4 pages whose page areas differ (mirrored :left / :right margins, a '
        'different :first page, named pages) with fixed boxes (offsets px or % of the page area, from either side) '
        'under static / relative / absolute ancestors, holding nested fixed boxes (depth <= 2); compared: on every '
        'page, every fixed box drawn on it (nested ones included) and its position, against the model of make_page / '
        'layout_fixed_boxes run on the observed page areas; non-trivial = two pages with different areas and a '
        'nested or repeated fixed box')
    for _ in range(run.n(150, 1000)):
        doc = gen_fixed_area_doc(rng)
        out = guarded(lambda: observe_fixed_area_doc(doc))
        if isinstance(out, str):
            sec.add(sx.line('fixedtrees', [], []), out, meta={'kind': 'fixed-area-doc', 'doc': doc, 'signature': None},
                    tags=['render-error'])
            continue
        text, areas = out
        wire_pages = [[fixed_tree_wire(t) for t in page] for page in doc['pages']]
        differing = len({tuple(a) for a in areas}) > 1
        nested = any(t['kids'] for page in doc['pages'] for t in page)
        sec.add(sx.line('fixedtrees', areas, wire_pages), text,
                meta={'kind': 'fixed-area-doc', 'doc': doc, 'areas': areas, 'signature': None},
                nontrivial=differing, tags=['rules-' + doc['rules'], 'areas-differ' if differing else 'areas-same',
                                            'nested' if nested else 'flat', f'pages{len(areas)}'])


def fixed_area_violation(doc, text, areas):
    """A fixed box is laid out identically on every page: on every page it is drawn on, its offsets refer to the
    page area of *that* page (`left` / `top` from the area's top-left corner, `right` / `bottom` from its
    bottom-right corner) — nested fixed boxes included.  A box collected late (known finding
    fixed-in-absolute-not-repeated) is only expected on its own page."""
    if text.startswith('err:'):
        return f'rendering raised {text}'
    observed = sx.loads_line(text)
    if len(observed) != len(doc['pages']) or len(areas) != len(observed):
        return f'{len(observed)} pages rendered for {len(doc["pages"])} pages of content'

    def check(node, m, where):
        st = node['style']
        ax, ay, aw, ah = areas[m]
        here = [e for e in observed[m] if e[0] == str(node['id'])]
        if len(here) != 1:
            return f'fixed box f{node["id"]} ({where}) appears {len(here)} times on page {m + 1}'
        x, y = F(here[0][1]), F(here[0][2])
        mw, mh = st['w'] + st['ml'] + st['mr'], st['h'] + st['mt'] + st['mb']
        left, right = resolve(st['left'], aw), resolve(st['right'], aw)
        top, bottom = resolve(st['top'], ah), resolve(st['bottom'], ah)
        if left is not None and x != ax + left:
            return (f'fixed box f{node["id"]} ({where}) on page {m + 1}: margin box starts at x={x}, but the page '
                    f'area of that page starts at {ax} and left is {left}')
        if left is None and right is not None and x + mw != ax + aw - right:
            return (f'fixed box f{node["id"]} ({where}) on page {m + 1}: margin box ends at x={x + mw}, but the page '
                    f'area of that page ends at {ax + aw} and right is {right}')
        if top is not None and y != ay + top:
            return (f'fixed box f{node["id"]} ({where}) on page {m + 1}: margin box starts at y={y}, but the page '
                    f'area of that page starts at {ay} and top is {top}')
        if top is None and bottom is not None and y + mh != ay + ah - bottom:
            return (f'fixed box f{node["id"]} ({where}) on page {m + 1}: margin box ends at y={y + mh}, but the page '
                    f'area of that page ends at {ay + ah} and bottom is {bottom}')
        for kid in node['kids']:
            what = check(kid, m, f'nested in f{node["id"]}')
            if what:
                return what
        return None
    for n, page in enumerate(doc['pages']):
        for tree in page:
            for m in range(len(observed)):
                if m != n and late_rule(tree['chain']):
                    continue
                what = check(tree, m, f'declared on page {n + 1}')
                if what:
                    return what
    return None


# ---------------------------------------------------------------------------------------------
# the content of a fixed box near the page bottom: its own page against the pages it is repeated on

FRAG_PAGE_H, FRAG_MARGIN = 320, 16


def gen_fixed_fragment_doc(rng):
    """A fixed box (top / bottom / height in every useful auto pattern) holding 1..4 in-flow blocks, declared
    after some in-flow content on the first of two pages."""
    pattern = rng.choice(['top', 'bottom', 'top-bottom', 'top-h', 'bottom-h'])
    return {'pattern': pattern, 'top': q(rng, 0, 280, 2), 'bottom': q(rng, 0, 160, 2), 'h': q(rng, 4, 60, 2),
            'heights': [q(rng, 1, 40, 2) for _ in range(rng.randint(1, 4))],
            'before': rng.choice([F(0), F(20), q(rng, 0, 120, 2)]),
            'mt': rng.choice([F(0), F(0), q(rng, 0, 8, 2)]), 'pt': rng.choice([F(0), F(0), q(rng, 0, 6, 2)])}


def fixed_fragment_html(doc):
    pat = doc['pattern']
    css = ''
    if 'top' in pat:
        css += f'top:{px(doc["top"])};'
    if 'bottom' in pat:
        css += f'bottom:{px(doc["bottom"])};'
    if pat.endswith('-h'):
        css += f'height:{px(doc["h"])};'
    kids = ''.join(f'<div id="k{i}" style="height:{px(h)}"></div>' for i, h in enumerate(doc['heights']))
    return (f'<style>@page{{size:240px {FRAG_PAGE_H}px;margin:{FRAG_MARGIN}px}}html,body{{margin:0}}</style>'
            f'<div style="height:{px(doc["before"])}"></div>'
            f'<div id="o" style="position:fixed;left:0;width:50px;margin-top:{px(doc["mt"])};'
            f'padding-top:{px(doc["pt"])};{css}">{kids}</div>'
            '<div style="height:20px"></div><div style="break-before:page;height:20px"></div>')


def fixed_fragment_wire(doc, own):
    pat = doc['pattern']
    top = doc['top'] if 'top' in pat else 'auto'
    bottom = doc['bottom'] if 'bottom' in pat else 'auto'
    height = doc['h'] if pat.endswith('-h') else 'auto'
    vbox = [top, bottom, height, doc['mt'], F(0), doc['pt'], F(0), F(0), F(0), F(FRAG_MARGIN) + doc['before']]
    return sx.line('fixedkept', own, F(FRAG_PAGE_H - FRAG_MARGIN), vbox, F(FRAG_MARGIN),
                   F(FRAG_PAGE_H - 2 * FRAG_MARGIN), doc['heights'])


def observe_fixed_fragment(doc):
    """-> (number of child blocks in the first box of #o on page 1, on page 2)"""
    by_id = boxes_by_id(docs.render(fixed_fragment_html(doc)))
    out = []
    for page in (0, 1):
        found = [b for b in by_id.get('o', []) if b._page == page and type(b).__name__ == 'BlockBox']
        out.append(sum(1 for c in found[0].children if type(c).__name__ == 'BlockBox') if found else -1)
    return out


def sec_fixed_fragments(run):
    rng = run.rng
    sec = run.section(
        'fixed-fragments', 'rendered two-page documents with a fixed box (top / bottom / height auto patterns, margin '
        'and padding top) holding 1..4 in-flow blocks, declared after in-flow content of random height: the number of '
        'blocks drawn inside the box on its own page (make_page: bottom_space 0 + translation, content cut at the page '
        'bottom) and on the other page (layout_fixed_boxes: never cut) against the model (fixedKept); '
        'non-trivial = the box is cut on its own page')
    for _ in range(run.n(120, 1200)):
        doc = gen_fixed_fragment_doc(rng)
        out = guarded(lambda: observe_fixed_fragment(doc))
        for page, own in ((0, True), (1, False)):
            text = out if isinstance(out, str) else str(out[page])
            cut = not isinstance(out, str) and out[0] != len(doc['heights'])
            sec.add(fixed_fragment_wire(doc, own), text,
                    meta={'kind': 'fixed-fragment', 'doc': doc, 'own': own, 'signature': None}, nontrivial=cut,
                    tags=['own-page' if own else 'other-page', 'pattern-' + doc['pattern'], 'cut' if cut else 'whole'])


def fixed_fragment_violation(doc):
    """A fixed box repeated on another page holds all its content there; on its own page the content may be cut
    at the page bottom (known finding fixed-box-fragmented-on-own-page), but is never duplicated."""
    out = guarded(lambda: observe_fixed_fragment(doc))
    if isinstance(out, str):
        return f'rendering raised {out}'
    total = len(doc['heights'])
    if out[1] != total:
        return f'fixed box repeated on page 2 holds {out[1]} of its {total} blocks'
    if not 1 <= out[0] <= total:
        return f'fixed box holds {out[0]} blocks on its own page, it has {total}'
    return None


# ---------------------------------------------------------------------------------------------
# wide documents checked by the verified trace checker (Model/FloatCheck.lean)

WORDS = ['a', 'bb', 'ccc', 'dddd', 'eeeee', 'ffffff']


def gen_wide_content(rng, depth, fs, width):
    """Nested blocks, floats at any level (with their own content), multi-word paragraphs, BFC roots, tables and
    images; every box has area (zero-height floats are the known finding zero-height-float-at-page-origin)."""
    out = []
    for _ in range(rng.randint(2, 6 if depth else 9)):
        r = rng.random()
        clear = f'clear:{rng.choice(CLEARS)};' if rng.random() < 0.25 else ''
        if r < 0.35:
            side = rng.choice(SIDES)
            kind = rng.random()
            margins = f'margin:{rng.choice([0, 0, 2, 5])}px {rng.choice([0, 0, 3, 8])}px;'
            if kind < 0.5 or depth == 0:
                w = px(F(rng.randint(4, max(5, int(width * 3))), 4))
                out.append(f'<div style="float:{side};{clear}{margins}width:{w};height:{px(q(rng, 1, 40))}"></div>')
            elif kind < 0.75:
                words = ' '.join(rng.choice(WORDS) for _w in range(rng.randint(1, 6)))
                wcss = rng.choice(['', f'width:{rng.choice([25, 50, 75])}%;', f'width:{px(q(rng, 10, 60))};'])
                out.append(f'<div style="float:{side};{clear}{margins}{wcss}padding:{rng.choice([0, 0, 2])}px">{words}</div>')
            else:
                inner_w = F(rng.randint(20, max(21, int(width * 0.7))))
                inner = gen_wide_content(rng, depth - 1, fs, inner_w)
                out.append(f'<div style="float:{side};{clear}{margins}width:{px(inner_w)}">{inner}</div>')
        elif r < 0.65:
            words = ' '.join(rng.choice(WORDS) for _w in range(rng.randint(1, 25)))
            out.append(f'<p style="{clear}margin:{rng.choice([0, 0, 4, 10])}px 0">{words}</p>')
        elif r < 0.75 and depth:
            pad = rng.choice([0, 0, 3, 6])
            inner = gen_wide_content(rng, depth - 1, fs, width - 2 * pad - 10)
            out.append(f'<div style="{clear}padding:{pad}px;margin:{rng.choice([0, 0, 5])}px {rng.choice([0, 5])}px;'
                       f'border:{rng.choice([0, 1])}px solid">{inner}</div>')
        elif r < 0.85:
            wcss = rng.choice(['', f'width:{px(F(rng.randint(8, max(9, int(width * 4))), 4))};'])
            inner = (gen_wide_content(rng, depth - 1, fs, width * F(3, 4)) if depth and rng.random() < 0.4
                     else ' '.join(rng.choice(WORDS) for _w in range(rng.randint(1, 8))))
            out.append(f'<div style="overflow:hidden;{clear}{wcss}margin:0 {rng.choice([0, 4])}px">{inner}</div>')
        elif r < 0.93:
            out.append(f'<img src="{SVG}" style="display:block;{clear}width:{px(F(rng.randint(4, max(5, int(width * 4))), 4))};'
                       f'height:{px(q(rng, 1, 25))}">')
        else:
            out.append(f'<table style="{clear}width:{px(F(rng.randint(8, max(9, int(width * 4))), 4))};border-spacing:0">'
                       f'<tr><td style="padding:0">{rng.choice(WORDS)}</td></tr></table>')
    return ''.join(out)


def gen_wide_doc(rng):
    fs = rng.choice([8, 10, 12])
    width = F(rng.choice([100, 150, 200, 300]))
    return {'fs': fs, 'rtl': rng.random() < 0.3, 'w': width,
            'body': gen_wide_content(rng, rng.choice([1, 2, 2]), fs, width)}


def wide_doc_html(doc):
    return ('<style>@page{size:700px 9000px;margin:%dpx}html,body{margin:0;padding:0}'
            'body{font-family:weasyprint;font-size:%dpx;line-height:%dpx}p{margin:0}</style>'
            '<div style="width:%s;direction:%s">%s</div>' % (
                PAGE_MARGIN, doc['fs'], doc['fs'], px(doc['w']), 'rtl' if doc['rtl'] else 'ltr', doc['body']))


def wide_doc_events(doc):
    """Render; -> one event list per block formatting context, in tree order (the wire of `checkbfc`)."""
    from weasyprint.formatting_structure import boxes
    document = docs.render(wide_doc_html(doc))
    contexts = []

    def visit(box, parent, events):
        """`events`: the list of the formatting context `box` takes part in."""
        floated = isinstance(box, boxes.Box) and box.is_floated()
        if floated:
            if box.border_height() != 0:
                events.append(['F', fr(box.position_x), fr(box.position_y), fr(box.margin_width()),
                               fr(box.margin_height()), box.style['float']])
        elif parent is not None and isinstance(parent, boxes.BlockContainerBox):
            l0, r0 = fr(parent.content_box_x()), fr(parent.content_box_x()) + fr(parent.width)
            if isinstance(box, boxes.LineBox):
                if box.width > 0 and box.height > 0:
                    events.append(['B', l0, r0, fr(box.position_x), fr(box.position_y), fr(box.width), fr(box.height)])
            elif (isinstance(box, boxes.BlockReplacedBox) or getattr(box, 'is_table_wrapper', False) or
                  (isinstance(box, boxes.BlockBox) and box.establishes_formatting_context())):
                if box.border_height() > 0 and box.border_width() > 0:
                    events.append(['B', l0 + fr(box.margin_left), r0 - fr(box.margin_right), fr(box.border_box_x()),
                                   fr(box.border_box_y()), fr(box.border_width()), fr(box.border_height())])
        own = events
        if floated or (isinstance(box, boxes.Box) and not isinstance(box, (boxes.LineBox, boxes.InlineBox, boxes.TextBox))
                       and box.establishes_formatting_context()) or isinstance(box, (boxes.PageBox, boxes.TableCellBox)):
            own = []
            contexts.append(own)
        if isinstance(box, boxes.LineBox):
            return          # nothing inside a line takes part (no floats are generated inside lines)
        for child in getattr(box, 'children', ()):
            child = child.__dict__.get('_box', child) if type(child).__name__ == 'AbsolutePlaceholder' else child
            visit(child, box, own)
    for page in document.pages:
        visit(page._page_box, None, [])
    return [c for c in contexts if c], len(document.pages)


def describe_event(ev):
    if ev[0] == 'F':
        return f'float {ev[5]} margin box (x={ev[1]}, y={ev[2]}, w={ev[3]}, h={ev[4]})'
    return f'box (x={ev[3]}, y={ev[4]}, w={ev[5]}, h={ev[6]}) between {ev[1]} and {ev[2]}'


def python_check_events(events):
    """The clauses of Model/FloatCheck.checkEvents restated (judge / search oracle): index and reason of the
    first failing event."""
    floats = []
    for i, ev in enumerate(events):
        if ev[0] == 'F':
            rect = tuple(ev[1:5])
            for other in floats:
                if overlap(rect, other[:4]):
                    return i, f'{describe_event(ev)} overlaps the earlier float at {other[:4]}'
                if rect[1] < other[1]:
                    return i, f'{describe_event(ev)} is higher than the earlier float at {other[:4]}'
            floats.append(rect + (ev[5],))
        else:
            _k, l0, r0, x, y, w, h = ev
            if w <= r0 - l0:
                for f in floats:
                    if overlap((x, y, w, h), f[:4]):
                        return i, (f'{describe_event(ev)} is not wider than its containing room but overlaps the '
                                   f'float at {f[:4]} instead of being moved below it')
    return None


def wide_doc_violation(doc):
    out = guarded(lambda: wide_doc_events(doc))
    if isinstance(out, str):
        return f'rendering raised {out}'
    for events in out[0]:
        bad = python_check_events(events)
        if bad:
            return bad[1]
    return None


def sec_wide_docs(run):
    rng = run.rng
    sec = run.section(
        'wide-trace', 'rendered wide documents (nested blocks, floats at any depth with text / nested content / '
        'percentage widths, multi-word paragraphs wrapped by the real line breaker, BFC roots, images, tables, '
        'clear, ltr and rtl) checked by the verified trace checker checkEvents: per block formatting context, floats '
        'pairwise disjoint with tops in order, every line box / BFC root / image / table that fits the room beside the '
        'earlier floats overlaps none of them; expected verdict "ok"; non-trivial = a context with >= 2 floats')
    for _ in range(run.n(60, 600)):
        doc = gen_wide_doc(rng)
        out = guarded(lambda: wide_doc_events(doc))
        if isinstance(out, str):
            sec.add(sx.line('checkbfc', []), out, meta={'kind': 'wide-doc', 'doc': doc, 'signature': None},
                    tags=['render-error'])
            continue
        contexts, n_pages = out
        for events in contexts:
            n_floats = sum(1 for e in events if e[0] == 'F')
            sec.add(sx.line('checkbfc', events), 'ok', meta={'kind': 'wide-doc', 'doc': doc, 'signature': None},
                    nontrivial=n_floats >= 2,
                    tags=[f'floats{min(n_floats, 8)}', f'boxes{min(8, (len(events) - n_floats) // 4 * 4)}',
                          'rtl' if doc['rtl'] else 'ltr'])


# ---------------------------------------------------------------------------------------------
# the property clauses stated directly on rendered geometry (judge / search oracles)

def overlap(a, b):
    """Interior intersection of two rectangles (x, y, w, h) with positive area."""
    ax, ay, aw, ah = a
    bx, by, bw, bh = b
    if aw <= 0 or ah <= 0 or bw <= 0 or bh <= 0:
        return False
    return ax < bx + bw and bx < ax + aw and ay < by + bh and by < ay + ah


def collapse(margins):
    """CSS 2.1 §8.3.1: adjoining margins collapse to max(positive) + min(negative)."""
    return max([F(0)] + [m for m in margins if m > 0]) + min([F(0)] + [m for m in margins if m < 0])


def float_doc_violation(doc, impl):
    """C11 on a rendered float document: floats inside the container when they fit, pairwise disjoint,
    tops in document order and not above their static position / the line they were met in, pushed to
    their side, as high as possible; line boxes, BFC roots, images and tables that fit do not overlap
    floats; `clear` puts the top border edge of a box below the floats it names (and exactly there
    when its position without clearance, margins collapsed, would have been higher up)."""
    if impl.startswith('err:'):
        return f'rendering raised {impl}'
    placed = sx.loads_line(impl)
    if len(placed) != len(doc['items']) or 'missing' in impl:
        return f'boxes missing from the rendered page: {impl[:200]}'
    cx = F(PAGE_MARGIN) + doc['ml']
    width = doc['w']
    fs = doc['fs']
    floats = []          # (rect, side, index label)
    ghosts = False       # a float without area was placed: it still takes part in the collision tests
    flow_y = F(PAGE_MARGIN) + doc['spacer'] + CONTAINER_PAD      # bottom border edge of the in-flow content so far
    adj = []             # margins adjoining the next in-flow box
    loose = False        # a zero-height box collapsed through: the next positions are not claimed exactly

    def check_float(label, rect, side, clear, degenerate, lowest, rule8, earlier):
        """The float rules for one float against `earlier` (the floats it has to respect)."""
        nonlocal ghosts
        x, y, mw, mh = rect
        named = [f for f in earlier if clear in (f[1], 'both')]
        if degenerate:
            ghosts = True
            return None
        for other, oside, j in earlier:
            if overlap(rect, other):
                return f'float {label} {rect} overlaps float {j} {other}'
        ordered = earlier
        if ordered and y < max(f[0][1] for f in ordered):
            return f'float {label} top {y} is above the top of an earlier float'
        if y < lowest:
            return f'float {label} top {y} is above its static position / the top of its line {lowest}'
        for other, oside, j in named:
            if y < other[1] + other[3]:
                return f'float {label} (clear:{clear}) top {y} is above the bottom of float {j}'
        if ghosts:
            return None
        if rule8:
            low = max([lowest] + [f[0][1] for f in ordered] + [o[1] + o[3] for o, _s, _j in named])
            for cand in sorted({low} | {f[0][1] + f[0][3] for f in earlier if low < f[0][1] + f[0][3]}):
                if cand >= y:
                    break
                band = [f for f in earlier if f[0][1] < cand + mh and cand < f[0][1] + f[0][3]]
                room = (min([cx + width] + [f[0][0] for f in band if f[1] == 'right']) -
                        max([cx] + [f[0][0] + f[0][2] for f in band if f[1] == 'left']))
                if not band or mw <= room:
                    return (f'float {label} placed at y={y} although it fits at y={cand} '
                            f'(room {room}, margin width {mw}): not as high as possible')
        beside = [f for f in earlier if f[0][1] < y + mh and y < f[0][1] + f[0][3] and f[0][3] > 0]
        if mw <= width and not beside and not (cx <= x and x + mw <= cx + width):
            return f'float {label} {rect} fits its container [{cx}, {cx + width}] but lies outside it'
        if not beside and mw <= width:
            want = cx if side == 'left' else cx + width - mw
            if x != want:
                return f'float {label} is alone on its band but not at its side: x={x}, expected {want}'
        if beside and cx <= x and x + mw <= cx + width:
            if side == 'left':
                edges = [cx] + [f[0][0] + f[0][2] for f in beside if f[1] == 'left']
                if x != max(edges):
                    return f'left float {label} at x={x} is not against the container edge / left floats ({max(edges)})'
            else:
                edges = [cx + width] + [f[0][0] for f in beside if f[1] == 'right']
                if x + mw != min(edges):
                    return f'right float {label} ends at {x + mw}, not against the edge / right floats ({min(edges)})'
        return None

    def cleared_top(it, top, what):
        """`clear` on an in-flow box whose top border edge is at `top`."""
        named = [f for f in floats if it['clear'] in (f[1], 'both')]
        for other, side, j in named:
            if top < other[1] + other[3]:
                return (f'{what} (clear:{it["clear"]}) has its top border edge at {top}, above the bottom '
                        f'{other[1] + other[3]} of float {j}: it overlaps the float it clears'), None
        uncleared = flow_y + collapse(adj + [it.get('mt', F(0))])
        expected = max([uncleared] + [o[1] + o[3] for o, _s, _j in named])
        return None, expected

    for i, (it, p) in enumerate(zip(doc['items'], placed)):
        kind = it['kind']
        if kind == 'float':
            rect = tuple(F(v) for v in p[1:5])
            degenerate = rect[3] <= 0 or rect[2] < 0      # a margin box without area
            what = check_float(f'#{i}', rect, it['side'], it['clear'], degenerate,
                               F(-10 ** 9) if loose else flow_y + collapse(adj), not loose, floats)
            if what:
                return what
            if not degenerate:
                floats.append((rect, it['side'], f'#{i}'))
            continue
        if kind == 'para':
            lines = p[1:]
            if len(lines) != len(it['words']):
                return f'paragraph #{i}: {len(lines)} line boxes for {len(it["words"])} forced lines'
            what, expected = cleared_top(it, F(lines[0][1]), f'paragraph #{i}')
            if what:
                return what
            y_prev = None
            for k, (ln, n) in enumerate(zip(lines, it['words'])):
                y = F(ln[1])
                if y_prev is None:
                    if not loose and y < expected:
                        return f'paragraph #{i}: first line at {y}, above its position {expected}'
                elif y < y_prev:
                    return f'paragraph #{i}: line at {y} above the previous bottom {y_prev}'
                line_floats = ln[4:]
                lh = F(fs)
                if not line_floats:
                    x, w, lh = F(ln[0]), F(ln[2]), F(ln[3])
                    want = (n[1], n[2]) if isinstance(n, list) else (n * fs, F(fs))
                    if (w, lh) != want:
                        return f'paragraph #{i}: line box {w}x{lh}, content is {want[0]}x{want[1]}'
                    beside = [f for f in floats if f[0][1] < y + lh and y < f[0][1] + f[0][3]]
                    left = max([cx] + [f[0][0] + f[0][2] for f in beside if f[1] == 'left'])
                    right = min([cx + width] + [f[0][0] for f in beside if f[1] == 'right'])
                    # known finding tall-line-aligned-in-strut-band: the width that text-align distributes is
                    # measured on a band as high as the strut only; a taller line that is shifted (alignment
                    # other than start, or rtl) can end over a float that begins below the strut band
                    shifted = lh > fs and (doc['rtl'] or it['align'] not in ('start', 'left'))
                    # a line that is not wider than its container is moved below the floats it does not fit beside
                    if w <= (right - left if ghosts else width) and not shifted:
                        for other, side, j in floats:
                            if overlap((x, y, w, lh), other):
                                return f'line of paragraph #{i} {(x, y, w, lh)} overlaps float {j} {other}'
                same_line = []
                if line_floats:
                    beside = [f for f in floats if f[0][1] < y + lh and y < f[0][1] + f[0][3]]
                    room = (min([cx + width] + [f[0][0] for f in beside if f[1] == 'right']) -
                            max([cx] + [f[0][0] + f[0][2] for f in beside if f[1] == 'left']) - n * fs)
                for m, (fl, spec) in enumerate(zip(line_floats, it['inline'][k])):
                    rect = tuple(F(v) for v in fl[1:5])
                    label = f'#{i}/line{k}/{m}'
                    if rect[1] == y and not ghosts:
                        # kept on its line: it must fit in what the line's content and the floats kept before it leave
                        if spec['w'] > room:
                            return (f'float {label} ({spec["w"]} wide) is kept on its line although only {room} is '
                                    f'left beside the line\'s content: it covers the text instead of going below the line')
                        room -= rect[2]
                    # laid out on its line or sent below it: all the float rules apply, from the line's top
                    # (former finding inline-float-snapped-to-line-top: a float kept on its line used to be moved
                    # to the line's top whatever find_float_position had decided)
                    what = check_float(label, rect, spec['side'], spec['clear'], rect[3] <= 0, y, False, floats)
                    if what:
                        return what
                    floats.append((rect, spec['side'], label))
                    same_line.append((rect, spec['side'], label))
                y_prev = y + lh
            flow_y, adj, loose = y_prev, [it['mb']], False
        elif kind in ('bfc', 'img', 'table'):
            x, y, w, h = (F(v) for v in p[1:5])
            what, expected = cleared_top(it, y, f'box #{i}')
            if what:
                return what
            if not loose and y < expected:
                return f'box #{i} at {y}, above its position {expected}'
            beside = [f for f in floats if f[0][1] < y + h and y < f[0][1] + f[0][3]]
            left = max([cx + it['ml']] + [f[0][0] + f[0][2] for f in beside if f[1] == 'left'])
            right = min([cx + width - it['mr']] + [f[0][0] for f in beside if f[1] == 'right'])
            if h > 0 and w <= (right - left if ghosts else width - it['ml'] - it['mr']):
                for other, side, j in floats:
                    if overlap((x, y, w, h), other):
                        return (f'box #{i} {(x, y, w, h)} overlaps float {j} {other} instead of being narrowed or moved '
                                f'below it')
            if h > 0 or kind != 'bfc':
                flow_y, adj, loose = y + h, [it.get('mb', F(0))], False
            else:
                loose = True      # a BFC root without area collapses through
        else:
            y = F(p[1])
            what, expected = cleared_top(it, y, f'block #{i}')
            if what:
                return what
            if not loose and y != expected:
                return (f'block #{i} has its top border edge at {y}, expected {expected} (position without '
                        f'clearance, or the bottom of the lowest float it clears)')
            if it['h'] > 0:
                flow_y, adj, loose = y + it['h'], [it['mb']], False
            else:
                loose = True
    return None


def resolve(d, ref):
    return None if d == 'auto' else d[1] if d[0] == 'px' else ref * d[1] / 100


def abs_doc_violation(line, impl):
    """The constraint equations of CSS 2.1 §10.3.7 / §10.6.4 stated directly on the rendered box:
    `line` is the protocol line (style, containing block box, direction, static position)."""
    if impl.startswith('err:') or impl.startswith('missing'):
        return f'positioned box: {impl}'
    args = sx.loads_line(line)
    if args[0] == 'relpos':
        cb_w, cb_h, tree = F(args[1]), F(args[2]), args[3]
        rtl = tree[1] == 'true'

        def dim(a):
            return None if a == 'auto' else (F(a[1]) if a[0] == 'px' else None, a)
        vals = []
        for a, ref in zip(tree[3:7], (cb_w, cb_w, cb_h, cb_h)):
            vals.append(None if a == 'auto' else F(a[1]) if a[0] == 'px' else ref * F(a[1]) / 100)
        l, r, t, b = vals
        dx = (l if (r is None or not rtl) else -r) if l is not None else (-r if r is not None else F(0))
        dy = t if t is not None else (-b if b is not None else F(0))
        got = sx.loads_line(impl)[0]
        want = (F(tree[7]) + dx, F(tree[8]) + dy)
        if (F(got[0]), F(got[1])) != want:
            return f'relatively positioned box at {(got[0], got[1])}, expected static position + offset = {want}'
        return None
    if args[0] == 'cbowner':
        chain = args[2]
        positioned = [k for k, c in enumerate(chain) if c != 'static']
        nearest = 'page' if args[1] == 'fixed' or not positioned else str(positioned[-1])
        if impl != nearest:
            return (f'positioned box laid out against {impl!r}, but its nearest positioned ancestor '
                    f'(else the page area) is {nearest!r} (ancestors {chain})')
        return None
    if args[0] not in ('absblock', 'absrepldoc'):
        return None
    st, cb, ltr = args[1], args[2], args[3] == 'true'
    sx0, sy0 = F(args[4]), F(args[5])
    is_page = cb[0] == 'true'
    pos_x, pos_y, ml0, mt0, bl0, bt0, pl0, pt0, pr0, pb0, w0, h0 = (F(v) for v in cb[1:])
    if is_page:
        cb_x, cb_y, cb_w, cb_h = pos_x + ml0 + bl0 + pl0, pos_y + mt0 + bt0 + pt0, w0, h0
    else:
        cb_x, cb_y, cb_w, cb_h = pos_x + ml0 + bl0, pos_y + mt0 + bt0, w0 + pl0 + pr0, h0 + pt0 + pb0

    def dim(a, ref):
        return None if a == 'auto' else F(a[1]) if a[0] == 'px' else ref * F(a[1]) / 100
    left, right, width = dim(st[0], cb_w), dim(st[1], cb_w), dim(st[4], cb_w)
    top, bottom, height = dim(st[2], cb_h), dim(st[3], cb_h), dim(st[5], cb_h)
    ml, mr, mt, mb = (dim(st[k], cb_w) for k in (6, 7, 8, 9))
    x, y, mw, mh, uw, uh, uml, umr, umt, umb = (F(v) for v in sx.loads_line(impl))
    # min-width / max-width re-run absolute_width with the clamped width: the horizontal equation holds for the
    # used values whatever they are (theorem abs_block_equation_h); min-height / max-height are applied after
    # absolute_height and nothing is solved again (known finding abs-height-min-max-not-resolved)
    has_minmax_w = any(st[k] != 'auto' for k in (18, 19))
    has_minmax = any(st[k] != 'auto' for k in (20, 21))
    # a negative solved size is clamped to 0 and the equation is solved again with that size
    clamped_w = width is None and uw == 0
    clamped_h = height is None and uh == 0
    # a replaced box whose offsets and margins are all specified ignores right (ltr) / left (rtl) / bottom, as
    # CSS 2.1 §10.3.8 / §10.6.5 say; a block re-solves its end margin, so its equation always holds
    repl = args[0] == 'absrepldoc'
    # horizontal
    if True:
        over = None not in (left, right, width, ml, mr)
        if left is not None and not (repl and over and not ltr) and x != cb_x + left:
            return f'left: margin box starts at {x}, containing block starts at {cb_x}, left is {left}'
        if right is not None and not (repl and over and ltr) and x + mw != cb_x + cb_w - right:
            return (f'right: margin box ends at {x + mw}, containing block ends at {cb_x + cb_w}, right is {right}: '
                    f'left + margins + borders + paddings + width + right != width of the containing block')
        if left is None and right is None and ltr and x != sx0:
            return f'left and right auto: box at {x}, static position {sx0}'
        if (ml is not None and not over and None in (left, right, width) and not has_minmax_w and not clamped_w
                and uml != ml):
            return f'specified margin-left {ml} became {uml}'
    # vertical
    over_v = None not in (top, bottom, height, mt, mb)
    # known finding abs-cb-height-before-min-max: a relative containing block whose height is changed by
    # min-height / max-height hands its absolute children the height from before the clamp
    hs = args[-1] if isinstance(args[-1], list) and len(args[-1]) == 4 else None
    early_cb = False
    if hs and hs[0] == 'true':
        content_h, min_h = F(hs[1]), F(hs[2])
        max_h = math.inf if hs[3] == 'inf' else F(hs[3])
        early_cb = max(min(content_h, max_h), min_h) != content_h
    if not has_minmax and not clamped_h and not early_cb:
        if top is not None and y != cb_y + top:
            return f'top: margin box starts at {y}, containing block starts at {cb_y}, top is {top}'
        if bottom is not None and not (repl and over_v) and y + mh != cb_y + cb_h - bottom:
            return (f'bottom: margin box ends at {y + mh}, containing block ends at {cb_y + cb_h}, bottom is {bottom}: '
                    f'top + margins + borders + paddings + height + bottom != height of the containing block')
        if top is None and bottom is None and y != sy0:
            return f'top and bottom auto: box at {y}, static position {sy0}'
    return None


def judge(meta, impl, line=None):
    if meta.get('kind') == 'float-doc':
        return float_doc_violation(meta['doc'], impl)
    if meta.get('kind') == 'abs-doc' and line:
        return abs_doc_violation(line, impl)
    if meta.get('kind') == 'fixed-doc':
        return fixed_doc_violation(meta['doc'], impl)
    if meta.get('kind') == 'wide-doc':
        return wide_doc_violation(meta['doc'])
    if meta.get('kind') == 'regression':
        return regression_violation(meta['id'])
    if meta.get('kind') == 'fixed-fragment':
        return fixed_fragment_violation(meta['doc'])
    if meta.get('kind') == 'fixed-area-doc':
        out = guarded(lambda: observe_fixed_area_doc(meta['doc']))
        return fixed_area_violation(meta['doc'], *(out if not isinstance(out, str) else (out, [])))
    return None


# ---------------------------------------------------------------------------------------------
# known findings replayed on the implementation (True = the listed input still fails)

BASE = ('<style>@page{size:300px 400px;margin:20px}html,body{margin:0}'
        'body{font-family:weasyprint;font-size:10px;line-height:10px}</style>')


def _box(html, key, page=0):
    by_id = boxes_by_id(docs.render(BASE + html))
    found = [b for b in by_id.get(key, []) if b._page == page and type(b).__name__ == 'BlockBox']
    return found[0] if found else None


def finding_abs_auto_margin():
    """left:0; right:0; width:50px; margin-left:auto; margin-right:10px in a 100-px containing block:
    the border box must end 10 px before the containing block's right edge."""
    box = _box('<div style="position:relative;width:100px;height:100px">'
               '<div id="a" style="position:absolute;left:0;right:0;width:50px;height:10px;margin-left:auto;'
               'margin-right:10px"></div></div>', 'a')
    return box is None or box.border_box_x() + box.border_width() != 20 + 100 - 10


def finding_zero_height_float():
    """A height:0 float with overflowing text must stay at its static position, not at the page origin."""
    box = _box('<div style="width:100px;margin-left:30px;margin-top:50px">'
               '<div id="f" style="float:left;height:0">text</div></div>', 'f')
    return box is None or (box.position_x, box.position_y) != (50, 70)


def finding_cb_height_before_min_max():
    """bottom:0 in a relative container whose height comes from min-height: the box must sit on the
    container's bottom edge."""
    box = _box('<div style="position:relative;width:100px;min-height:100px">'
               '<div id="a" style="position:absolute;bottom:0;width:50px;height:10px"></div></div>', 'a')
    return box is None or box.position_y + box.margin_height() != 20 + 100


def finding_fixed_in_absolute():
    """A fixed box nested in an absolutely positioned box must be repeated on the second page."""
    html = ('<div style="position:absolute;top:0;left:0"><div id="x" style="position:fixed;top:5px;left:5px;'
            'width:10px;height:10px"></div></div><div>a</div><div style="break-before:page">b</div>')
    return _box(html, 'x', 0) is not None and _box(html, 'x', 1) is None


def finding_rtl_inline_float():
    """rtl: a left float met in a line (and fitting on it) must stay inside its 100-px container."""
    box = _box('<div style="width:100px;direction:rtl"><p style="margin:0">aa<span id="f" style="float:left;'
               'width:20px;height:10px"></span> bb</p></div>', 'f')
    return box is None or not (20 <= box.position_x and box.position_x + box.margin_width() <= 120)


def finding_inline_float_snapped():
    """A `clear:left` float met in a line next to an earlier left float must go below that float
    (and not overlap it)."""
    box = _box('<div style="width:100px"><div style="float:left;width:80px;height:30px"></div>'
               '<p style="margin:0">a<span id="f" style="float:left;clear:left;width:5px;height:10px"></span> b</p>'
               '</div>', 'f')
    return box is None or box.position_y < 20 + 30


def finding_tall_line():
    """A right-aligned line holding a 30x12 inline-block (strut 8) next to a right float that starts 9px
    below the line's top must not overlap that float."""
    html = ('<div style="width:100px;font-size:8px;line-height:8px"><div style="float:left;width:10px;height:9px"></div>'
            '<div id="b" style="float:right;clear:left;width:60px;height:30px"></div><p id="p" style="margin:0;'
            'text-align:right"><span style="display:inline-block;vertical-align:top;width:30px;height:12px"></span></p>'
            '</div>')
    by_id = boxes_by_id(docs.render(BASE + html))
    para = [b for b in by_id.get('p', []) if type(b).__name__ == 'BlockBox']
    flt = [b for b in by_id.get('b', []) if type(b).__name__ == 'BlockBox']
    if not para or not flt or not para[0].children:
        return True
    line, b = para[0].children[0], flt[0]
    return overlap((line.position_x, line.position_y, line.width, line.height),
                   (b.position_x, b.position_y, b.margin_width(), b.margin_height()))


def finding_float_stf():
    """An auto-width float with 10px horizontal paddings and a 5px margin in a 100-px container must
    shrink to the space its own margins and paddings leave (75px), not take the whole 100px."""
    box = _box('<div style="width:100px"><div id="f" style="float:left;padding:0 10px;margin-left:5px">'
               'aaaa bbbb cccc dddd eeee</div></div>', 'f')
    return box is None or box.margin_width() > 100


def finding_float_minmax():
    """max-width applies to a float with a specified width."""
    box = _box('<div style="width:100px"><div id="f" style="float:left;height:10px;width:200px;max-width:100px">'
               '</div></div>', 'f')
    return box is None or box.width != 100


def finding_zero_height_float_overlap():
    """A float with an empty border box but vertical margins (margin box 20x10) next to a 20x20 left float must
    not be laid over it."""
    by_id = boxes_by_id(docs.render(BASE + (
        '<div style="width:100px"><div id="a" style="float:left;width:20px;height:20px"></div>'
        '<div id="f" style="float:left;width:10px;height:0;margin:5px"></div></div>')))
    a = [b for b in by_id.get('a', []) if type(b).__name__ == 'BlockBox']
    f = [b for b in by_id.get('f', []) if type(b).__name__ == 'BlockBox']
    if not a or not f:
        return True
    return overlap((f[0].position_x, f[0].position_y, f[0].margin_width(), f[0].margin_height()),
                   (a[0].position_x, a[0].position_y, a[0].margin_width(), a[0].margin_height()))


def regression_abs_replaced_floor_div():
    """left:0; right:0; margin:auto on a 95-px image in a 100-px containing block: both margins 2.5px."""
    by_id = boxes_by_id(docs.render(BASE + (
        '<div style="position:relative;width:100px;height:100px">'
        f'<img id="a" src="{SVG}" style="position:absolute;left:0;right:0;width:95px;height:10px;margin:auto"></div>')))
    found = [b for b in by_id.get('a', []) if type(b).__name__ == 'BlockReplacedBox']
    return not found or (found[0].margin_left, found[0].margin_right) != (2.5, 2.5)


def regression_zero_height_blocks_descent():
    """Floats 10x0, 80x50, 50x10 in a 100-px container: the third goes below the second (x = 20, y = 70)."""
    box = _box('<div style="width:100px"><div style="float:left;width:10px;height:0"></div>'
               '<div style="float:left;width:80px;height:50px"></div>'
               '<div id="c" style="float:left;width:50px;height:10px"></div></div>', 'c')
    return box is None or (box.position_x, box.position_y) != (20, 70)


def finding_inline_float_twice():
    """rtl, no earlier float: a 20x10 left float met in a line after a word must be against the left edge of
    its 100-px container (x = 20), not beside a stale copy of itself (x = 40)."""
    box = _box('<div style="width:100px;direction:rtl"><p style="margin:0">aa<span id="f" style="float:left;'
               'width:20px;height:10px"></span></p></div>', 'f')
    return box is None or box.position_x != 20


def finding_fixed_fragmented():
    """position:fixed;bottom:0;height:10px holding two 10px blocks: the second block must be drawn with its box on
    the first page, as it is on the second page."""
    by_id = boxes_by_id(docs.render(
        '<style>@page{size:240px 320px;margin:16px}html,body{margin:0}</style>'
        '<div style="position:fixed;left:0;bottom:0;width:50px;height:10px"><div style="height:10px"></div>'
        '<div id="b" style="height:10px"></div></div><div style="height:20px"></div>'
        '<div style="break-before:page;height:20px"></div>'))
    found = [(b._page, b.position_y) for b in by_id.get('b', []) if type(b).__name__ == 'BlockBox']
    return sorted(found) != [(0, 304), (1, 304)]


def finding_abs_height_minmax():
    """top:0; bottom:0; height:200px; max-height:100px; margin:auto 0 in a 300px-high relative container: the 100px
    box must be centred (border box 100..200 below the container's top), as it is with height:100px."""
    box = _box('<div style="position:relative;width:100px;height:300px">'
               '<div id="a" style="position:absolute;top:0;bottom:0;width:50px;height:200px;max-height:100px;'
               'margin:auto 0"></div></div>', 'a')
    return box is None or (box.border_box_y(), box.border_height()) != (20 + 100, 100)


FINDING_REPLAYS = {
    'abs-height-min-max-not-resolved': finding_abs_height_minmax,
    'fixed-box-fragmented-on-own-page': finding_fixed_fragmented,
    'tall-line-aligned-in-strut-band': finding_tall_line,
    'abs-cb-height-before-min-max': finding_cb_height_before_min_max,
    'fixed-in-absolute-not-repeated': finding_fixed_in_absolute,
}

# Findings repaired in /repo (`fixed:` lines of known_findings.txt): their committed inputs stay as regression
# cases of the first correspondence section (True = the defect is back).
REGRESSION_REPLAYS = {
    'abs-auto-margin-ignores-opposite-margin': finding_abs_auto_margin,
    'zero-height-float-at-page-origin': finding_zero_height_float,
    'float-shrink-to-fit-ignores-margins-paddings': finding_float_stf,
    'float-width-ignores-min-max': finding_float_minmax,
    'rtl-inline-float-displaced': finding_rtl_inline_float,
    'inline-float-snapped-to-line-top': finding_inline_float_snapped,
    'abs-replaced-floor-div': regression_abs_replaced_floor_div,
    'zero-height-float-blocks-descent': regression_zero_height_blocks_descent,
    'zero-height-float-ignores-other-floats': finding_zero_height_float_overlap,
    'inline-float-laid-out-twice': finding_inline_float_twice,
}


def sec_regressions(run):
    """Corpus first: the committed inputs of repaired findings, on the implementation (rendered document) and on
    the model (`regression <id>`: the same clause evaluated by the Lean driver)."""
    sec = run.section(
        'regressions', 'the committed input of every repaired finding (fixed: lines): the clause its replay function '
        'checks on the rendered document, against the same clause evaluated on the model; both must say ok; '
        'non-trivial = every case')
    for key, fn in REGRESSION_REPLAYS.items():
        out = guarded(fn)
        text = out if isinstance(out, str) else ('still-failing' if out else 'ok')
        sec.add(sx.line('regression', key), text, meta={'kind': 'regression', 'id': key, 'signature': None},
                tags=['regression'])


def regression_violation(key):
    fn = REGRESSION_REPLAYS.get(key)
    if fn is None:
        return None
    out = guarded(fn)
    if isinstance(out, str):
        return f'regression input of repaired finding {key}: rendering raised {out}'
    if out:
        return f'repaired finding {key} is back: {(fn.__doc__ or "").strip()}'
    return None


# ---------------------------------------------------------------------------------------------
# failing-input search (only after something broke)

def search(run, failures):
    """Fresh documents judged by the oracles above; the documents of failing cases first."""
    import random
    import time
    rng = random.Random(f'C11-search:{run.seed}')
    found = []
    start = time.time()
    budget = 60 if not run.thorough else 300

    def try_float(doc):
        run.search_stats['evaluations'] += 1
        impl = guarded(lambda: observe_float_doc(doc))
        what = float_doc_violation(doc, impl)
        if what:
            found.append({'what': what, 'input': {'html': float_doc_html(doc), 'kind': 'float-doc', 'doc': doc},
                          'signature': 'float-doc:' + what[:60]})

    def try_abs(doc):
        run.search_stats['evaluations'] += 1
        cases = guarded(lambda: abs_doc_cases(doc))
        if isinstance(cases, str):
            cases = [(None, cases, [], 'doc')]
        for line, out, tags, key in cases:
            what = abs_doc_violation(line, out) if line else f'positioned box {key}: {out}'
            if what:
                found.append({'what': what, 'input': {'html': abs_doc_html(doc), 'kind': 'abs-doc', 'doc': doc,
                                                       'key': key},
                              'signature': 'abs-doc:' + what[:60]})
                return
    for failure in failures:
        detail = failure.get('detail')
        meta = detail.get('meta') if isinstance(detail, dict) else None
        if isinstance(meta, dict) and meta.get('kind') == 'float-doc':
            try_float(meta['doc'])
        elif isinstance(meta, dict) and meta.get('kind') == 'abs-doc':
            try_abs(meta['doc'])
        if len(found) >= 3:
            return found
    def try_fixed(doc):
        run.search_stats['evaluations'] += 1
        out = guarded(lambda: observe_fixed_doc(doc))
        what = fixed_doc_violation(doc, out if isinstance(out, str) else out[0])
        if what:
            found.append({'what': what, 'input': {'html': fixed_doc_html(doc), 'kind': 'fixed-doc', 'doc': doc},
                          'signature': 'fixed-doc:' + what[:60]})
    for failure in failures:
        detail = failure.get('detail')
        meta = detail.get('meta') if isinstance(detail, dict) else None
        if isinstance(meta, dict) and meta.get('kind') in ('fixed-doc', 'fixed-late'):
            try_fixed(meta['doc'])
    def try_fixed_area(doc):
        run.search_stats['evaluations'] += 1
        out = guarded(lambda: observe_fixed_area_doc(doc))
        what = fixed_area_violation(doc, *(out if not isinstance(out, str) else (out, [])))
        if what:
            found.append({'what': what, 'input': {'html': fixed_area_doc_html(doc), 'kind': 'fixed-area-doc',
                                                   'doc': doc}, 'signature': 'fixed-area-doc:' + what[:60]})
    for failure in failures:
        detail = failure.get('detail')
        meta = detail.get('meta') if isinstance(detail, dict) else None
        if isinstance(meta, dict) and meta.get('kind') == 'fixed-area-doc':
            try_fixed_area(meta['doc'])
        if len(found) >= 3:
            return found
    while time.time() - start < budget and len(found) < 3:
        try_float(gen_float_doc(rng, adversarial=rng.random() < 0.2))
        try_abs(gen_abs_doc(rng))
        try_fixed(gen_fixed_doc(rng))
        try_fixed_area(gen_fixed_area_doc(rng))
        doc = gen_fixed_fragment_doc(rng)
        run.search_stats['evaluations'] += 1
        what = fixed_fragment_violation(doc)
        if what:
            found.append({'what': what, 'input': {'html': fixed_fragment_html(doc), 'kind': 'fixed-fragment',
                                                   'doc': doc}, 'signature': 'fixed-fragment:' + what[:60]})
    return found


def replay_html(inp):
    doc = unjson(inp.get('doc'))
    if inp.get('kind') == 'float-doc':
        return float_doc_violation(doc, guarded(lambda: observe_float_doc(doc)))
    if inp.get('kind') in ('fixed-doc', 'fixed-late'):
        out = guarded(lambda: observe_fixed_doc(doc))
        return fixed_doc_violation(doc, out if isinstance(out, str) else out[0])
    if inp.get('kind') == 'wide-doc':
        return wide_doc_violation(doc)
    if inp.get('kind') == 'fixed-fragment':
        return fixed_fragment_violation(doc)
    if inp.get('kind') == 'fixed-area-doc':
        out = guarded(lambda: observe_fixed_area_doc(doc))
        return fixed_area_violation(doc, *(out if not isinstance(out, str) else (out, [])))
    if inp.get('kind') == 'abs-doc':
        for line, out, tags, key in abs_doc_cases(doc):
            what = abs_doc_violation(line, out) if line else f'positioned box {key}: {out}'
            if what:
                return what
    return None


def unjson(x):
    """Replay files store Fractions as strings."""
    if isinstance(x, dict):
        return {k: unjson(v) for k, v in x.items()}
    if isinstance(x, list):
        return [unjson(v) for v in x]
    if isinstance(x, str):
        try:
            return F(x)
        except (ValueError, ZeroDivisionError):
            return x
    return x
