"""The PM document-level correspondence, shared by C01, C02, C03 (and the pagination clauses of C04)."""
from harness import docs, pm
from vlib import sx


def real_line(doc):
    import traceback
    try:
        with docs.time_limit(20):
            return pm.run_real(doc)
    except docs.Hang:
        return 'err:Hang@layout'
    except Exception as exc:  # noqa: BLE001
        frames = [f for f in traceback.extract_tb(exc.__traceback__) if '/weasyprint/' in f.filename]
        where = f'{frames[-1].filename.split("/")[-1]}:{frames[-1].name}' if frames else 'harness'
        if isinstance(exc, AssertionError) and where == 'page.py:make_page':
            return 'err:pagination'
        return f'err:{type(exc).__name__}@{where}'


def model_line(prop, doc):
    """The model's pagination of `doc` (one driver call)."""
    from vlib import lean
    return lean.run_driver(prop.driver, [pm.doc_line(doc)])[0]


def add_cases(run, sec, count, gen=None, skip_errors=True):
    """`skip_errors`: an exception of the implementation is C02's business; C01/C03/C04 only count it."""
    docs.quiet()
    gen = gen or pm.gen_doc
    for _ in range(count):
        doc = gen(run.rng)
        out = real_line(doc)
        if skip_errors and out.startswith('err:') and out != 'err:pagination':
            sec.tags['implementation raised (left to C02)'] += 1
            continue
        pages = out.count('(page ')
        tags = pm.features(doc) + [f'pages{min(pages, 10)}']
        sec.add(pm.doc_line(doc), out, meta={'doc': doc_json(doc)}, nontrivial=pages >= 2, tags=tags)


def add_docs(run, sec, named_docs, skip_errors=True):
    """The same comparison for given documents: `named_docs` yields (id, document)."""
    docs.quiet()
    for doc_id, doc in named_docs:
        out = real_line(doc)
        if skip_errors and out.startswith('err:') and out != 'err:pagination':
            sec.tags['implementation raised (left to C02)'] += 1
            continue
        pages = out.count('(page ')
        sec.add(pm.doc_line(doc), out, meta={'doc': doc_json(doc), 'doc_id': doc_id}, nontrivial=pages >= 2,
                tags=[doc_id.split('-')[0], f'pages{min(pages, 10)}'])


def doc_json(doc):
    """JSON-able copy (Fractions -> strings)."""
    def conv(x):
        if isinstance(x, dict):
            return {k: conv(v) for k, v in x.items()}
        if isinstance(x, list):
            return [conv(v) for v in x]
        if hasattr(x, 'numerator') and not isinstance(x, (int, bool)):
            return f'{x.numerator}/{x.denominator}'
        return x
    return conv(doc)


def doc_from_json(data):
    from fractions import Fraction

    def conv(x, key=None):
        if isinstance(x, dict):
            return {k: conv(v, k) for k, v in x.items()}
        if isinstance(x, list):
            return [conv(v) for v in x]
        if isinstance(x, str) and key in ('mt', 'mb', 'pt', 'pb', 'bt', 'bb', 'height', 'minH', 'maxH', 'lineH',
                                          'pageH') and x not in ('auto', 'inf'):
            return Fraction(x)
        if isinstance(x, int) and not isinstance(x, bool) and key in (
                'mt', 'mb', 'pt', 'pb', 'bt', 'bb', 'height', 'minH', 'maxH', 'lineH', 'pageH'):
            return Fraction(x)
        return x
    return conv(data)


# ---------------------------------------------------------------------------------------------
# oracles on the implementation's canonical output (used only to judge a disagreement)

def parse_pages(line):
    return sx.loads_line(line)


def frag_lines(frag, out):
    """Collect (para id, line number, y, frag) in tree order."""
    if frag[0] == 'p':
        for i, y in frag[-1]:
            out.append((int(frag[1]), int(i)))
    else:
        for kid in frag[-1]:
            frag_lines(kid, out)
    return out


def expected_lines(box, out):
    if box['kind'] == 'para':
        out.extend((box['id'], i) for i in range(box['n']))
    else:
        for kid in box['kids']:
            expected_lines(kid, out)
    return out


def has_lossy_path(box):
    """Fixed heights make the code 'forget overflowing children' (known finding F11)."""
    if box['st']['height'] != 'auto':
        return True
    return any(has_lossy_path(k) for k in box['kids'])


def conservation_violation(doc, impl_out):
    if impl_out.startswith('err:'):
        return f'pagination raised {impl_out}'
    pages = parse_pages(impl_out)
    got = []
    for page in pages:
        frag_lines(page[-1], got)
    want = expected_lines(doc['root'], [])
    if got != want and not has_lossy_path(doc['root']):
        missing = [w for w in want if w not in got]
        dup = sorted({g for g in got if got.count(g) > 1})
        return f'lines lost {missing[:5]} duplicated {dup[:5]} or reordered (got {len(got)} of {len(want)})'
    return None


def progress_violation(doc, impl_out):
    if impl_out.startswith('err:'):
        return f'pagination raised {impl_out}'
    pages = parse_pages(impl_out)
    n_lines = len(expected_lines(doc['root'], []))

    def count_boxes(b):
        return 1 + sum(count_boxes(k) for k in b['kids'])
    bound = 2 * (n_lines + count_boxes(doc['root'])) + 8
    if len(pages) > bound:
        return f'{len(pages)} pages for {n_lines} lines'
    seen = set()
    previous_blank = False
    previous = None
    for page in pages:
        blank = page[3] == 'true'
        lines = frag_lines(page[-1], [])
        ids = box_ids(page[-1], set())
        new = (set(lines) | ids) - seen
        if not blank and not new:
            return f'page {page[1]} shows nothing new'
        # boxes without any extent (no line, height 0, no padding or border: margins collapse through them) are not
        # content: a last page that only adds such boxes shows nothing new - unless a forced break or a change of
        # named page before one of them asked for this page (in the middle of a document an avoided break can
        # rightly move such a box to the top of the page of what follows it)
        requested = previous is None or (
            previous[6] != 'any' or previous[7] not in ('none', previous[4]))
        if (page is pages[-1] and not blank and not requested and plain_heights(doc)
                and not ((set(lines) | visible_ids(page[-1], set())) - seen)):
            return f'the last page ({page[1]}) shows nothing new (only boxes without extent) and no break asks for it'
        if blank and previous_blank:
            return f'two consecutive blank pages at {page[1]}'
        seen |= set(lines) | ids | visible_ids(page[-1], set())
        previous_blank = blank
        if not blank:
            previous = page
    return None


def plain_heights(doc):
    """No height other than auto / 0, no min-height, and a page at least as tall as a line (a taller box than the
    page, cut into fragments, legitimately ends with fragments that hold no line)."""
    def ok(box):
        st = box['st']
        if st['height'] not in ('auto', 0) or st['minH']:
            return False
        if box['kind'] == 'para' and box['lineH'] > doc['pageH']:
            return False
        return all(ok(k) for k in box['kids'])
    return ok(doc['root'])


def visible_ids(frag, out):
    """Fragments with an extent of their own: lines, or a non-zero height / padding / border."""
    from fractions import Fraction
    y, mt, mb, pt, pb, bt, bb, h = [Fraction(x) for x in frag[3:11]]
    if h or pt or pb or bt or bb or (frag[0] == 'p' and frag[-1]):
        out.add(('visible', int(frag[1]), tuple(sorted(int(i) for i, _ in frag[-1])) if frag[0] == 'p' else None))
    if frag[0] == 'b':
        for kid in frag[-1]:
            visible_ids(kid, out)
    return out


def box_ids(frag, out):
    out.add(('box', int(frag[1]), tuple(sorted(int(i) for i, _ in frag[-1])) if frag[0] == 'p' else None)
            if frag[0] == 'p' else ('box', int(frag[1])))
    if frag[0] == 'b':
        for kid in frag[-1]:
            box_ids(kid, out)
    return out
