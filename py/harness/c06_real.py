"""C06: sections built on *real* style objects of rendered documents.

* `real_chain(style)`: the bridge from a real `ComputedStyle` / `AnonymousStyle` (with its real parent chain, its real
  cascaded dict, its real `Pending` values solved by the real `resolve_var` / `Pending.solve`, its real Pango character
  ratios measured on an empty cache) to the `Elem` chain of `lean/WpModel/Model/Style.lean`.
* `regression_section`: corpus first — the inputs of the repaired findings (`corpus/C06/*.json` with a `case`), compared
  with the model *and* with the recorded expected value (a repaired defect that comes back is a VIOLATION).
* `ratio_cache_section`: sequences of `character_ratio` calls on real styles sharing the per-document cache vs
  `Model/RatioCache.lean` (theorem `C06.ratio_cache_transparent`).
* `var_document_section`: generated documents with custom properties and `var()` in declarations (defined on the element,
  on an ancestor, undefined with / without fallback, `inherit` / `initial` through a variable, values invalid for the
  property, cycles), `ex` / `ch` lengths and several fonts: `box.style[key]` vs the model fed with the real chain.
"""
import json
from fractions import Fraction

from harness import docs
from harness.cssval import canon, enc, frac, opt, outcome
from harness.snap import SnapSection
from vlib import sx
from vlib.paths import CORPUS

FONT_KEYS = ('font_family', 'font_style', 'font_stretch', 'font_weight', 'font_variant_ligatures',
             'font_variant_position', 'font_variant_caps', 'font_variant_numeric', 'font_variant_alternates',
             'font_variant_east_asian', 'font_feature_settings', 'font_variation_settings',
             'font_language_override', 'lang')
INVALID = object()


# ---------------------------------------------------------------------------------------------
# Pango's part, measured on an empty cache

def empty_cache():
    """A new per-document cache, of whatever layout the code under test uses."""
    from weasyprint.css import ComputedStyle
    return ComputedStyle(None, {}, None, None, None, None).cache


def fresh_ratio(style, character):
    """`character_ratio(style, character)` as a document that asks nothing else would get it: same computed values
    (a copy of the style), empty cache."""
    from weasyprint.css.computed_values import character_ratio
    probe = style.copy()
    probe.cache = empty_cache()
    return character_ratio(probe, character)


def own_font_key(style):
    """The font properties of the style, canonical text (the harness' own key, not `_font_style_cache_key`)."""
    return '|'.join(canon(style[k]) for k in FONT_KEYS)


class Ratios:
    """(ex, ch) of a style, measured once per font key and per document."""

    def __init__(self):
        self.by_key = {}

    def of(self, style):
        key = own_font_key(style)
        if key not in self.by_key:
            self.by_key[key] = (Fraction(fresh_ratio(style, 'x')), Fraction(fresh_ratio(style, '0')))
        return self.by_key[key]


# ---------------------------------------------------------------------------------------------
# real style -> model chain

def solve_pending(style, key, value):
    """The lines of `ComputedStyle.__missing__` that solve a `Pending` value, with the real functions."""
    from weasyprint.css import resolve_var
    from weasyprint.css.utils import InvalidValues
    solved = []
    for token in value.tokens:
        tokens = resolve_var(style, token, style.parent_style)
        if tokens is None:
            solved.append(token)
        else:
            solved.extend(tokens)
    try:
        return value.solve(solved, key.replace('_', '-'))
    except InvalidValues:
        return INVALID


def w_real_elem(style, ratios=None):
    """One real style as the `Elem` S-expression: (pseudo (@ attr…) [(% ex ch)] (key casc)…)."""
    from weasyprint.css.utils import Pending
    element = getattr(style, 'element', None)
    attrib = getattr(element, 'attrib', None) or {}
    attrs = [[k, enc(v)] for k, v in attrib.items() if k in ('id', 'lang', 'title', 'name')]
    items = []
    for key, (value, _) in getattr(style, 'cascaded', {}).items():
        if isinstance(value, Pending):
            solved = solve_pending(style, key, value)
            items.append([key, ['pending', 'none' if solved is INVALID else enc(solved)]])
        else:
            items.append([key, ['val', enc(value)]])
    head = [opt(getattr(style, 'pseudo_type', None)), ['@'] + attrs]
    if ratios is not None:
        ex, ch = ratios.of(style)
        head.append(['%', ex, ch])
    return head + items


def real_chain(style, ratios=None):
    """The element's style followed by its ancestors' (parent_style links), as the model's chain."""
    chain = []
    while style is not None:
        chain.append(w_real_elem(style, ratios))
        style = style.parent_style
    return chain


EX_CH = __import__('re').compile(r'[0-9.](ex|ch)\b')


def uses_font_relative(text):
    """Does the document text mention an ex / ch length?  (Only then are the ratios measured.)"""
    return bool(EX_CH.search(text))


def styles_of(document):
    """[(label, style)] of the element boxes of a rendered document (one per distinct style object)."""
    seen, out = set(), []
    for page in document.pages:
        for box in page._page_box.descendants():
            style = box.style
            if id(style) in seen or box.element is None or not hasattr(box.element, 'get'):
                continue
            seen.add(id(style))
            label = f'{box.element_tag}#{box.element.get("id")}'
            out.append((label, style))
    return out


def style_line(style, keys, ratios=None):
    return sx.line('style', Fraction(1, 2), Fraction(1, 2), real_chain(style, ratios), list(keys))


def read_keys(style, keys):
    return ' '.join(f'{k}=' + outcome(lambda: style[k]) for k in keys)


# ---------------------------------------------------------------------------------------------
# corpus first: the inputs of repaired findings

def corpus_cases():
    out = []
    for path in sorted((CORPUS / 'C06').glob('*.json')):
        data = json.loads(path.read_text())
        if 'case' in data:
            out.append((path.name, data))
    return out


def find_style(document, where):
    tag, _, eid = where.partition('#')
    for label, style in styles_of(document):
        ltag, _, lid = label.partition('#')
        if ltag == tag and (not eid or lid == eid) and hasattr(style, 'cascaded'):
            return style
    return None


def run_case(case):
    """-> (protocol line, implementation output) of one corpus case."""
    keys = case['keys']
    if case['kind'] == 'html':
        fallback = sx.line('style', Fraction(1, 2), Fraction(1, 2), [['none', ['@']]], list(keys))
        try:
            document = docs.render(case['html'])
        except Exception as exc:  # noqa: BLE001
            return fallback, f'err:{type(exc).__name__}'
        style = find_style(document, case['element'])
        if style is None:
            return fallback, 'no-such-element'
        ratios = Ratios()
        return style_line(style, keys, ratios), read_keys(style, keys)
    if case['kind'] == 'doc':
        from harness import cascade_docs
        doc = json.loads(json.dumps(case['doc']))
        try:
            html, style_for, pages, _, _ = cascade_docs.run_pipeline(doc)
        except Exception as exc:  # noqa: BLE001
            return 'bad-case', f'err:{type(exc).__name__}'
        doc_w, elems_w = cascade_docs.model_input(doc, html)
        observed = cascade_docs.observed_styles(doc, html, style_for, pages)
        style, _ = observed[(case['element'], None)]
        path = cascade_docs.path_of(doc, case['element'])
        line = sx.line('docstyle', doc_w, Fraction(1, 2), Fraction(1, 2), [elems_w[p] for p in path], 'none', list(keys))
        return line, read_keys(style, keys)
    raise ValueError(case['kind'])


def regression_section(run):
    sec = SnapSection(
        run, 'regressions',
        'corpus first: the committed inputs of the repaired findings (corpus/C06/*.json with a `case`): a rendered '
        'document, box.style[key] of the named element vs the model fed with the real chain (html cases) or with the '
        'document (doc cases); the judge also compares with the recorded expected value; non-trivial = all')
    for name, data in corpus_cases():
        line, out = run_case(data['case'])
        sec.add(line, out, meta={'corpus': name, 'finding': data.get('finding'), 'expected': data['case']['expected'],
                                 'html': data.get('html'),
                                 'case': data['case'], 'signature': f'regression:{name}'}, tags=[data['case']['kind']])
    sec.flush()


def judge_regression(meta, impl):
    if impl != meta['expected']:
        return (f'regression of the repaired finding {meta.get("finding")} (corpus/C06/{meta.get("corpus")}): '
                f'{(meta["case"].get("html") or meta.get("html") or "")[:300]} gives {impl}, expected {meta["expected"]}')
    return None


def replay_case(name):
    """True when the recorded case fails again (used by --replay and by the search)."""
    for fname, data in corpus_cases():
        if fname == name:
            _, out = run_case(data['case'])
            return out != data['case']['expected']
    return False


# ---------------------------------------------------------------------------------------------
# character_ratio and its per-document cache

FAMILIES = [('DejaVu Sans',), ('DejaVu Serif',), ('DejaVu Sans Mono',), ('serif',), ('monospace',)]


def ratio_family_spec(rng):
    """A root style and 2..5 descendants (ComputedStyle / AnonymousStyle / pseudo) with a few fonts, as JSON-able
    specs: [{parent, cascaded {key: value}, touched, pseudo}]."""
    def font_decls():
        casc = {}
        if rng.random() < 0.5:
            casc['font_family'] = list(rng.choice(FAMILIES))
        if rng.random() < 0.4:
            casc['font_weight'] = rng.choice([400, 700, 'bold', 'bolder'])
        if rng.random() < 0.3:
            casc['font_style'] = rng.choice(['normal', 'italic'])
        if rng.random() < 0.3:
            casc['font_size'] = rng.choice(['small', 'x-large'])        # not part of the font key
        if rng.random() < 0.2:
            casc['letter_spacing'] = 'normal'
        return casc
    specs = [{'parent': None, 'cascaded': font_decls() or {'font_family': list(FAMILIES[0])},
              'touched': rng.random() < 0.85, 'pseudo': None}]
    for _ in range(rng.randint(2, 5)):
        casc = {} if rng.random() < 0.25 else font_decls()
        specs.append({'parent': rng.randrange(len(specs)), 'cascaded': casc, 'touched': rng.random() < 0.85,
                      'pseudo': 'before' if casc and rng.random() < 0.2 else None})
    return specs


def build_family(specs):
    """The real styles of a family spec, created parents first."""
    import xml.etree.ElementTree as ET
    from weasyprint.css import computed_from_cascaded
    element = ET.Element('p', {})
    weight = (3, (0, 0, 0, 1))
    styles = []
    for spec in specs:
        casc = {k: (tuple(v) if isinstance(v, list) else v, weight) for k, v in spec['cascaded'].items()}
        if spec['parent'] is None:
            style = computed_from_cascaded(element, casc, None, None, {'font_size': 16}, None)
        else:
            style = computed_from_cascaded(element, casc, styles[spec['parent']], spec['pseudo'], styles[0], None)
        if spec['touched']:
            style['font_size']      # `if parent_style:` shares the cache only with a parent that already holds a value
        styles.append(style)
    return styles


def run_calls(styles, calls):
    from weasyprint.css.computed_values import character_ratio
    return [outcome(lambda: character_ratio(styles[sid], ch), render=lambda r: frac(Fraction(r))) for sid, ch in calls]


def ratio_cache_section(run):
    sec = run.section(
        'character-ratio-cache',
        'real computed_values.character_ratio on 3..6 real ComputedStyle / AnonymousStyle objects of one parent chain '
        '(fonts: DejaVu Sans / Serif / Mono, generic families, weights, italic) in a random sequence of 4..14 calls with '
        "the characters 'x' (ex) and '0' (ch) (rarely another one: AssertionError): every returned ratio vs "
        'Model/RatioCache.lean given, per style, the ratio measured on an empty cache; calls are grouped by the '
        'identity of style.cache; non-trivial = a font key is asked twice in the group')
    for _ in range(run.n(90, 1500)):
        specs = ratio_family_spec(run.rng)
        styles = build_family(specs)
        keys, key_ids = [], {}
        for style in styles:
            key = own_font_key(style)
            key_ids.setdefault(key, f'k{len(key_ids)}')
            keys.append(key_ids[key])
        fresh = [(Fraction(fresh_ratio(s, 'x')), Fraction(fresh_ratio(s, '0'))) for s in styles]
        calls = []
        for _ in range(run.rng.randint(4, 14)):
            sid = run.rng.randrange(len(styles))
            if calls and run.rng.random() < 0.35:
                sid = calls[-1][0]                     # the other unit on the same style: the seeded class of defect
            calls.append((sid, 'y' if run.rng.random() < 0.03 else run.rng.choice('x0')))
        outs = run_calls(styles, calls)
        groups = {}
        for index, (sid, ch) in enumerate(calls):
            groups.setdefault(id(styles[sid].cache), []).append(index)
        table = [[sid, ex, ch] for sid, (ex, ch) in enumerate(fresh)]
        for members in groups.values():
            reqs = [[calls[i][0], keys[calls[i][0]], calls[i][1]] for i in members]
            asked = [(r[1]) for r in reqs]
            sec.add(sx.line('ratioseq', table, reqs), ' '.join(outs[i] for i in members),
                    meta={'styles': specs, 'calls': [list(calls[i]) for i in members],
                          'fresh': [[frac(a), frac(b)] for a, b in fresh], 'font_keys': keys,
                          'signature': f'ratio:{[calls[i] for i in members]}:{keys}'},
                    nontrivial=len(asked) != len(set(asked)),
                    tags=[f'styles{len(styles)}', f'keys{len(key_ids)}', f'caches{len(groups)}'] +
                    (['both-units-one-key'] if any(
                        {c for s, c in [(calls[i][0], calls[i][1]) for i in members] if keys[s] == k} >= {'x', '0'}
                        for k in set(asked)) else []))


def judge_ratio(meta, impl):
    """Every answer must be the ratio of the style's own font for the asked character."""
    outs = impl.split(' ')
    for (sid, ch), out in zip(meta['calls'], outs):
        if ch not in 'x0':
            continue
        want = meta['fresh'][sid][0 if ch == 'x' else 1]
        if out != want:
            unit = 'ex' if ch == 'x' else 'ch'
            return (f"character_ratio(style {sid}, {ch!r}) = {float(Fraction(out)) if '/' in out or out.isdigit() else out} "
                    f'after the calls {meta["calls"]} on styles {meta["styles"]}; the {unit} ratio of that style measured in '
                    f'a document of its own is {float(Fraction(want))} (1{unit} is computed against the wrong reference)')
    return None


def replay_ratio(meta):
    """Re-run the recorded family and calls on the implementation."""
    styles = build_family(meta['styles'])
    fresh = [[frac(Fraction(fresh_ratio(s, 'x'))), frac(Fraction(fresh_ratio(s, '0')))] for s in styles]
    calls = [tuple(c) for c in meta['calls']]
    # the calls of the other cache groups are not needed: groups do not share entries
    return judge_ratio(dict(meta, fresh=fresh), ' '.join(run_calls(styles, calls)))


# ---------------------------------------------------------------------------------------------
# documents with var(), ex / ch and several fonts

VAR_TAGS = ['div', 'p', 'span', 'section']
VAR_DECLS = {
    'width': ['auto', '10px', '2em', '50%', '1rem', 'inherit', 'initial', '3ex', '2ch', '1.5ch', '0.5ex', '1in'],
    'margin-left': ['auto', '4px', '1.5em', '2ex', '1ch', 'inherit'],
    'padding-left': ['0', '2ch', '1ex', '1em'],
    'text-indent': ['8px', '2em', '1ex', '3ch', '50%', 'inherit', 'initial'],
    'font-size': ['10px', '20px', '1.5em', '2rem', '150%', 'larger', 'smaller', 'small', 'x-large', 'inherit', 'initial',
                  '2ex', '1.5ch'],
    'font-weight': ['normal', 'bold', 'bolder', 'lighter', '100', '900', 'inherit', 'initial'],
    'font-family': ['DejaVu Sans', 'DejaVu Serif', 'DejaVu Sans Mono', 'serif', 'monospace', 'inherit'],
    'font-style': ['normal', 'italic'],
    'line-height': ['normal', '1.5', '150%', '20px', '2em', '3ex', 'inherit'],
    'letter-spacing': ['normal', '2px', '0.25em', '0.5ch'],
    'word-spacing': ['normal', '4px', '1ex'],
    'border-top-width': ['thin', 'thick', '2px', '0.5em', '1ex', 'inherit'],
    'border-top-style': ['none', 'solid', 'dotted'],
    'color': ['red', 'blue', 'inherit', 'initial', 'currentcolor'],
    'display': ['block', 'inline', 'inline-block', 'inherit'],
    'float': ['none', 'left'],
    'position': ['static', 'relative', 'absolute'],
    'visibility': ['visible', 'hidden', 'inherit'],
    'break-before': ['auto', 'always', 'page'],
    'orphans': ['1', '3', 'inherit'],
    'vertical-align': ['baseline', 'super', '2px', '1ex'],
    'tab-size': ['8', '2ch', '1em'],
    'column-gap': ['normal', '1ch', '1em'],
    'text-decoration-line': ['none', 'underline', 'overline underline'],
    'page': ['auto', 'chapter'],
    'border-spacing': ['2px', '1ex 1ch', '1em'],
    'border-image-width': ['1', 'auto', '2 10% auto', '2em', '1ex 2ch', '3pt 1rem'],
    'border-image-outset': ['0', '1 2px', '0.5em', '1ch'],
    'background-position': ['left top', 'left 1ex top 10%', '50% 2ch'],
    'transform-origin': ['1em 2ex', 'left top'],
    'min-height': ['auto', '1ex', '0'],
    'top': ['auto', '1ch', '10%'],
}
BAD_FOR = {'width': 'red', 'font-size': 'solid', 'color': '12px', 'display': '3', 'orphans': 'auto', 'float': '2em',
           'font-weight': 'x', 'line-height': 'red', 'border-top-width': 'block'}


def var_document(rng):
    """-> (html text, [element ids])"""
    n = rng.randint(1, 5)
    parents, tags = [], []
    for k in range(n):
        parent = None if k == 0 or rng.random() < 0.25 else rng.randrange(k)
        tag = rng.choice(VAR_TAGS)
        if parent is not None and tags[parent] in ('p', 'span'):
            tag = 'span'
        parents.append(parent)
        tags.append(tag)
    custom = [[] for _ in range(n)]        # custom property declarations per element
    decls = [[] for _ in range(n)]
    counter = 0
    for k in range(n):
        for _ in range(rng.choice([0, 1, 2, 3, 4])):
            name = rng.choice(list(VAR_DECLS))
            value = rng.choice(VAR_DECLS[name])
            imp = ' !important' if rng.random() < 0.1 else ''
            r = rng.random()
            if r < 0.4:
                decls[k].append(f'{name}:{value}{imp}')
                continue
            counter += 1
            var = f'--v{counter}'
            if r < 0.6:         # defined on the element itself
                custom[k].append(f'{var}:{value}')
                decls[k].append(f'{name}:var({var}){imp}')
            elif r < 0.75:      # defined on an ancestor (custom properties inherit), or nowhere when there is none
                anc = parents[k]
                while anc is not None and rng.random() < 0.4 and parents[anc] is not None:
                    anc = parents[anc]
                if anc is not None:
                    custom[anc].append(f'{var}:{value}')
                decls[k].append(f'{name}:var({var}){imp}')
            elif r < 0.83:      # undefined, with fallback
                decls[k].append(f'{name}:var({var}, {value}){imp}')
            elif r < 0.88:      # undefined, no fallback: invalid at computed-value time
                decls[k].append(f'{name}:var({var}){imp}')
            elif r < 0.93:      # a value that is invalid for the property
                custom[k].append(f'{var}:{BAD_FOR.get(name, "bogus(")}')
                decls[k].append(f'{name}:var({var}){imp}')
            elif r < 0.97:      # through two variables
                custom[k].append(f'{var}:{value}')
                custom[k].append(f'{var}b:var({var})')
                decls[k].append(f'{name}:var({var}b){imp}')
            else:               # cycle
                custom[k].append(f'{var}:var({var}c)')
                custom[k].append(f'{var}c:var({var})')
                decls[k].append(f'{name}:var({var}, {value}){imp}' if rng.random() < 0.5 else f'{name}:var({var}){imp}')
    root_style = ''
    if rng.random() < 0.4:
        name = rng.choice(['width', 'font-size', 'color', 'text-indent', 'page', 'text-decoration-line', 'font-weight'])
        root_style = f' style="--r:{rng.choice(["inherit", "initial", rng.choice(VAR_DECLS[name])])};{name}:var(--r)"'

    def html_of(k):
        style = ';'.join(custom[k] + decls[k])
        attr = f' style="{style}"' if style else ''
        kids = ''.join(html_of(j) for j in range(n) if parents[j] == k)
        return f'<{tags[k]} id=e{k}{attr}>t{k}{kids}</{tags[k]}>'
    body = ''.join(html_of(k) for k in range(n) if parents[k] is None)
    return f'<html{root_style}><body>{body}</body></html>'


VAR_ALWAYS = ['width', 'font_size', 'font_weight', 'color', 'text_indent', 'display', 'margin_left', 'line_height']


def var_keys(html_text):
    keys = set(VAR_ALWAYS)
    for name in VAR_DECLS:
        if name + ':' in html_text:
            keys.add(name.replace('-', '_'))
    return sorted(keys)


def var_document_section(run):
    sec = SnapSection(
        run, 'var-documents',
        'generated documents (1..5 nested elements) whose style attributes declare custom properties and use var() '
        '(defined on the element / an ancestor / nowhere, with and without fallback, inherit / initial through a '
        'variable also on the root element, values invalid for the property, chains, cycles), lengths in ex / ch and '
        'five font families x weights x italic; rendered; box.style[key] of every element box vs the model fed with '
        'the real parent chain (real cascaded dicts, Pending values solved by the real resolve_var / solve, character '
        'ratios measured on an empty cache); non-trivial = the chain holds a pending value or an ex / ch length')
    done = 0
    for _ in range(run.n(85, 1500)):
        text = var_document(run.rng)
        keys = var_keys(text)
        try:
            document = docs.render(text)
        except Exception as exc:  # noqa: BLE001
            if not css_related(exc):
                # a layout crash on the generated document belongs to C02 (e.g. the float_layout assertion of the
                # known finding inherit-skips-computed-value), not to this property
                run.notes.append(f'var document: layout raised {type(exc).__name__}: {str(exc)[:80]}')
                continue
            # computing the styles failed: compared with the model's outcome on an empty root (never an error)
            sec.add(sx.line('style', Fraction(1, 2), Fraction(1, 2), [['none', ['@']]], ['width']),
                    f'err:{type(exc).__name__}',
                    meta={'html': text, 'crash': f'{type(exc).__name__}: {exc}', 'css_related': True,
                          'signature': f'var-crash:{type(exc).__name__}'}, tags=['render-raised'])
            continue
        done += 1
        doc_ratios = Ratios() if uses_font_relative(text) else None
        for label, style in styles_of(document):
            if label.split('#')[0] in ('html', 'body') and not hasattr(style, 'cascaded'):
                continue
            ratios = doc_ratios
            line = style_line(style, keys, ratios)
            sec.add(line, read_keys(style, keys),
                    meta={'html': text, 'element': label, 'keys': keys, 'signature': f'var:{label}:{hash(line) % 10 ** 8}'},
                    nontrivial='pending' in line or ratios is not None,
                    tags=[type(style).__name__, 'pending' if '(pending' in line else 'no-pending',
                          'ex-ch' if ratios is not None else 'no-ex-ch'])
    run.extra['var_documents_rendered'] = done
    sec.flush()


def css_related(exc):
    import traceback
    return any('/weasyprint/css/' in f.filename for f in traceback.extract_tb(exc.__traceback__))


# ---------------------------------------------------------------------------------------------
# oracle for the var-documents: the property statement on the rendered document, without the Lean model

SPEC_LENGTHS = {'px': 1, 'in': 96, 'pt': 96 / 72, 'pc': 16, 'cm': 96 / 2.54, 'mm': 96 / 25.4, 'q': 96 / 101.6}


def ex_ch_violation(html_text):
    """Render; every cascaded plain length `N ex` / `N ch` of width / margin-left / padding-left / text-indent on an
    element must compute to N x (the element's font size) x (the ratio of its own font measured on an empty cache).
    -> text | None"""
    from weasyprint.css.properties import Dimension
    try:
        document = docs.render(html_text)
    except Exception as exc:  # noqa: BLE001
        if css_related(exc):
            return f'computing the styles of the document raised {type(exc).__name__}: {exc}'
        return None
    from harness.cascade_docs import leftover_unit
    for label, style in styles_of(document):
        hit = leftover_unit(style, var_keys(html_text))
        if hit:
            return (f'{label}: style[{hit[0]!r}] is {hit[1]}: a length in a relative or non-px unit is left in the '
                    f'computed value (the computed value of a <length> is in px)')
    for label, style in styles_of(document):
        for key, (value, _) in getattr(style, 'cascaded', {}).items():
            if key not in ('width', 'margin_left', 'padding_left', 'text_indent', 'top', 'min_height'):
                continue
            if not isinstance(value, Dimension) or value.unit not in ('ex', 'ch') or value.value == 0:
                continue
            ratio = fresh_ratio(style, 'x' if value.unit == 'ex' else '0')
            want = value.value * style['font_size'] * ratio
            got = style[key]
            got_px = getattr(got, 'value', got)
            if getattr(got, 'unit', 'px') != 'px' or abs(got_px - want) > 1e-9 * max(1, abs(want)):
                return (f'{label}: {key}: {value.value}{value.unit} computes to {got!r}; font-size {style["font_size"]}px x '
                        f'{value.unit} ratio {ratio} of its own font gives {want}px (the ratio used is '
                        f'{got_px / value.value / style["font_size"] if style["font_size"] else "?"})')
    return None


# ---------------------------------------------------------------------------------------------
# the property tables against the CSS definition (lean/WpModel/Model/CssSpec.lean)

PROPAGATED = ('page', 'text_decoration_line', 'text_decoration_color', 'text_decoration_style', 'text_decoration_thickness')
SENTINEL = 'parent-sentinel'


class SentinelParent(dict):
    """A parent style that answers every key with a sentinel (what it holds is never computed again)."""

    def __init__(self):
        super().__init__({'__touched': True})       # `if parent_style:` needs a non-empty dict
        self.cache = empty_cache()
        self.parent_style = None

    def __missing__(self, key):
        return SENTINEL


def inheritance_behaviour(key, anonymous):
    """'inherits' | 'initial' | err:…: what an element without a declaration for `key` gets below a parent."""
    import xml.etree.ElementTree as ET
    from weasyprint.css import computed_from_cascaded
    from weasyprint.css.properties import INITIAL_VALUES
    element = ET.Element('p', {})
    cascaded = {} if anonymous else {'nonexistent_key': ('x', (3, (0, 0, 0, 1)))}
    style = computed_from_cascaded(element, cascaded, SentinelParent(), None, {'font_size': 16}, None)
    try:
        value = style[key]
    except Exception as exc:  # noqa: BLE001
        return f'err:{type(exc).__name__}'
    return 'inherits' if value == SENTINEL else 'initial'


def sample_document(key):
    """A document in which a <div> declares `key` and its <p id=x> child does not; -> (html, declared value) | None."""
    from harness import cascade_docs
    name = key.replace('_', '-')
    for value in cascade_docs.DECLS.get(name, []) + VAR_DECLS.get(name, []):
        if value in ('inherit', 'initial'):
            continue
        decls = cascade_docs.declarations_of(f'{name}:{value}')
        if len(decls) == 1 and decls[0][0] == key:
            from weasyprint.css.properties import INITIAL_VALUES
            if canon(decls[0][1]) != canon(INITIAL_VALUES[key]):
                return f'<div style="{name}:{value}"><p id=x>t</p></div>', value
    return None


def spec_tables_section(run):
    from vlib import lean
    from weasyprint.css.properties import INITIAL_VALUES
    sec = run.section(
        'spec-tables',
        'every key of INITIAL_VALUES: what a real ComputedStyle and a real AnonymousStyle without a declaration for it '
        'get below a parent that answers every key with a sentinel (inherits | initial), vs the CSS definition held in '
        'Model/CssSpec.lean (written from the specifications, not generated); text-decoration-* and page are propagated '
        'and left out; and INITIAL_VALUES[key] vs the initial value of CSS for the pinned properties; non-trivial = all')
    pinned = set(lean.run_driver(run.prop.driver, ['universe specinitial'])[0].split(' '))
    for key in INITIAL_VALUES:
        if key not in PROPAGATED:
            for anonymous in (False, True):
                if anonymous and key in ('border_top_width', 'border_bottom_width', 'border_left_width',
                                         'border_right_width', 'outline_width'):
                    continue        # preset to 0 by AnonymousStyle.__init__
                out = inheritance_behaviour(key, anonymous)
                sec.add(sx.line('specinherits', key), out,
                        meta={'key': key, 'anonymous': anonymous, 'kind': 'inheritance',
                              'signature': f'spec-inherit:{key}'},
                        tags=['anonymous' if anonymous else 'computed', out])
        if key in pinned:
            sec.add(sx.line('specinitial', key), canon(INITIAL_VALUES[key]),
                    meta={'key': key, 'kind': 'initial', 'signature': f'spec-initial:{key}'}, tags=['initial-value'])
    run.extra['spec_pinned_initial_values'] = len(pinned)


def judge_spec(meta, impl, model):
    key = meta['key']
    name = key.replace('_', '-')
    if meta['kind'] == 'initial':
        return f'INITIAL_VALUES[{key!r}] is {impl}; the initial value of {name} in CSS is {model}'
    who = 'an element without any declaration (AnonymousStyle)' if meta['anonymous'] else 'an element without a declaration for it'
    text = (f'{name}: {who} {"takes the value of its parent" if impl == "inherits" else "takes the initial value" if impl == "initial" else "raises " + impl}; '
            f'CSS defines {name} as {"inherited" if model == "inherits" else "not inherited"}')
    sample = sample_document(key)
    if sample:
        html, value = sample
        try:
            document = docs.render(html)
            got = {label: canon(style[key]) for label, style in styles_of(document) if label in ('div#None', 'p#x')}
            text += f'; {html}: box.style[{key!r}] of the <div> is {got.get("div#None")}, of the <p> {got.get("p#x")}'
        except Exception as exc:  # noqa: BLE001
            text += f'; {html} raises {type(exc).__name__}'
    return text


def replay_spec(meta):
    from vlib import lean
    from props.c06 import PROP
    from weasyprint.css.properties import INITIAL_VALUES
    if meta['kind'] == 'initial':
        impl = canon(INITIAL_VALUES[meta['key']])
        model = lean.run_driver(PROP.driver, [sx.line('specinitial', meta['key'])])[0]
    else:
        impl = inheritance_behaviour(meta['key'], meta['anonymous'])
        model = lean.run_driver(PROP.driver, [sx.line('specinherits', meta['key'])])[0]
    return judge_spec(meta, impl, model) if impl != model else None


# ---------------------------------------------------------------------------------------------
# presentational hints (find_style_attributes) vs lean/WpModel/Model/PresHints.lean

HINT_TAGS = ['body', 'center', 'div', 'font', 'table', 'tr', 'td', 'th', 'thead', 'tbody', 'tfoot', 'caption', 'col', 'hr',
             'iframe', 'applet', 'embed', 'img', 'input', 'object', 'ol', 'li', 'p', 'span']
HINT_ATTRS = {
    'body': ['marginheight', 'topmargin', 'bottommargin', 'marginwidth', 'leftmargin', 'rightmargin', 'background',
             'bgcolor', 'text'],
    'div': ['align'], 'font': ['color', 'face', 'size'],
    'table': ['cellspacing', 'cellpadding', 'hspace', 'vspace', 'width', 'height', 'background', 'bgcolor', 'bordercolor',
              'border', 'align'],
    'hr': ['size', 'color', 'noshade', 'width'], 'col': ['width'], 'caption': ['align'], 'ol': ['start'], 'li': ['value'],
}
for _tag in ('tr', 'td', 'th', 'thead', 'tbody', 'tfoot'):
    HINT_ATTRS[_tag] = ['align', 'background', 'bgcolor', 'height', 'width']
for _tag in ('iframe', 'applet', 'embed', 'img', 'input', 'object'):
    HINT_ATTRS[_tag] = ['align', 'hspace', 'vspace', 'width', 'height', 'border', 'type']
HINT_VALUES = ['3', ' 3 ', '+2', '-1', '+ 4', '- 2', '--2', '+-1', '12', '0', '1', '2', '7', '8', '-9', 'abc', '', ' ', '50%',
               '1.5', '10px', '007', 'red', '#fff', 'x.png', 'Middle', 'CENTER', 'left', 'Right', 'justify', 'top', 'image',
               'IMAGE', 'text', '4 ', '+', '-']


def w_text(text):
    return ['s'] + [ord(c) for c in text]


class recorded_hint_texts:
    """Inside the block `tinycss2.parse_blocks_contents(text)` returns the text itself, so that
    find_style_attributes yields the declaration block texts it builds."""

    def __enter__(self):
        import tinycss2
        self.mod, self.real = tinycss2, tinycss2.parse_blocks_contents
        tinycss2.parse_blocks_contents = lambda text, *a, **k: text

    def __exit__(self, *exc):
        self.mod.parse_blocks_contents = self.real


def hint_texts(tag, attrs, children=()):
    """-> ({element: [texts]} for the element and its children) by the real find_style_attributes."""
    import xml.etree.ElementTree as ET
    from weasyprint.css import find_style_attributes
    root = ET.Element('html')
    element = ET.SubElement(root, tag, dict(attrs))
    kids = [ET.SubElement(element if i % 2 == 0 else kids_parent, child) for i, child in enumerate(children)
            for kids_parent in [element]]
    out = {id(element): []}
    for kid in kids:
        out[id(kid)] = []
    with recorded_hint_texts():
        for specificity, (el, text, _) in find_style_attributes(root, True, None):
            if specificity != (0, 0, 0, 0):
                out.setdefault(id(el), []).append(f'<specificity {specificity}> {text}')
            else:
                out.setdefault(id(el), []).append(text)
    return out[id(element)], [out[id(kid)] for kid in kids]


def pres_hints_section(run):
    sec = run.section(
        'presentational-hints',
        'real find_style_attributes(tree, presentational_hints=True) on one generated element (24 tags x the HTML '
        'attributes the function reads, values: digits, signed / padded / malformed numbers, percentages, keywords in '
        'mixed case, empty strings): the declaration block texts it yields for the element, in order (and, for '
        '<table cellpadding>, for its td / th children) vs Model/PresHints.lean; non-trivial = at least one attribute '
        'the function reads is present')
    rng = run.rng
    cases = []
    # exhaustive: every <font size>, <hr size> x shading, align value x tag, digit / non-digit dimension
    for sign in ('', '+', '-', '+ ', ' -'):
        for n in range(0, 10):
            cases.append(('font', {'size': f'{sign}{n}'}))
    for size in ('0', '1', '2', '3', '4', '7', '-1', 'x'):
        for extra in ({}, {'noshade': ''}, {'color': 'red'}, {'color': ''}, {'width': '50'}):
            cases.append(('hr', dict({'size': size}, **extra)))
    for tag in ('div', 'td', 'th', 'tr', 'thead', 'tbody', 'tfoot', 'caption', 'img', 'input', 'object', 'p'):
        for align in ('left', 'Right', 'CENTER', 'middle', 'justify', 'top', ''):
            cases.append((tag, {'align': align}))
            if tag == 'input':
                cases.append((tag, {'align': align, 'type': 'Image'}))
    for tag in ('table', 'td', 'col', 'img', 'hr'):
        for value in ('40', '40%', '4em', ' 40', '0'):
            cases.append((tag, {'width': value, 'height': value}))
    while len(cases) < run.n(800, 25000):
        tag = rng.choice(HINT_TAGS)
        names = HINT_ATTRS.get(tag, ['align', 'width'])
        attrs = {}
        for name in rng.sample(names, rng.randint(0, min(4, len(names)))):
            attrs[name] = rng.choice(HINT_VALUES)
        if rng.random() < 0.1:
            attrs[rng.choice(['align', 'width', 'size', 'color'])] = rng.choice(HINT_VALUES)
        cases.append((tag, attrs))
    for tag, attrs in cases:
        children = [rng.choice(['td', 'th', 'tr', 'p']) for _ in range(rng.randint(0, 3))] if tag == 'table' else []
        try:
            own, kids = hint_texts(tag, attrs, children)
            out = '[' + ' | '.join(own) + ']'
        except Exception as exc:  # noqa: BLE001
            out, kids = f'err:{type(exc).__name__}', []
        w_attrs = [[k, w_text(v)] for k, v in attrs.items()]
        sec.add(sx.line('hints', tag, w_attrs), out,
                meta={'tag': tag, 'attrs': attrs, 'signature': f'hints:{tag}:{sorted(attrs)}'},
                nontrivial=bool(attrs), tags=[tag, f'attrs{len(attrs)}'])
        for child, texts in zip(children, kids):
            if child in ('td', 'th'):
                own_child = [t for t in texts if t.startswith('padding-left')]
                sec.add(sx.line('cellpadding', w_attrs), own_child[0] if own_child else 'none',
                        meta={'tag': 'table', 'attrs': attrs, 'child': child, 'signature': f'cellpadding:{sorted(attrs)}'},
                        nontrivial='cellpadding' in attrs, tags=['cellpadding'])


def judge_hints(meta, impl):
    """HTML 15.3 (rendering: presentational hints) clauses stated directly."""
    attrs, tag = meta['attrs'], meta['tag']
    if tag == 'font' and 'size' in attrs and 'child' not in meta:
        import re
        m = re.fullmatch(r'\s*([+-]?)\s*(\d+)\s*', attrs['size'])
        if m:
            n = int(m.group(2))
            n = n + 3 if m.group(1) == '+' else 3 - n if m.group(1) == '-' else n
            want = ['x-small', 'small', 'medium', 'large', 'x-large', 'xx-large', '48px'][max(1, min(7, n)) - 1]
            if f'font-size:{want}' not in impl:
                return (f'<font size="{attrs["size"]}"> gives {impl}; HTML maps it to font-size:{want} '
                        f'(sizes 1..7 = x-small .. xxx-large, +n / -n relative to 3, clamped)')
    if tag in ('div', 'td', 'th', 'tr', 'caption', 'thead', 'tbody', 'tfoot') and 'child' not in meta:
        align = attrs.get('align', '').lower()
        want = {'middle': 'center', 'center': 'center', 'left': 'left', 'right': 'right', 'justify': 'justify'}.get(align)
        if want and f'text-align:{want}' not in impl:
            return f'<{tag} align="{attrs["align"]}"> gives {impl}; HTML maps it to text-align:{want}'
        if not want and 'text-align' in impl:
            return f'<{tag} align="{attrs.get("align")}"> gives {impl}; no text-align hint is defined for that value'
    return None


# ---------------------------------------------------------------------------------------------
# CSS-wide keywords at the entrance of the cascade vs lean/WpModel/Model/CssWide.lean

SPELLINGS = {'inherit': ['inherit', 'INHERIT', 'Inherit', 'iNhErIt'], 'initial': ['initial', 'INITIAL', 'Initial', 'inItial']}
NOT_CSS_WIDE = ['inherits', 'initia', 'unset-x']


def preprocessed(text):
    import tinycss2
    from weasyprint.css.validation import preprocess_declarations
    return list(preprocess_declarations('http://mem/', tinycss2.parse_blocks_contents(text)))


def css_wide_out(result):
    values = {str(v) for _, v, _ in result}
    if result and len(values) == 1 and values <= {'inherit', 'initial'}:
        return ';'.join(f'{n}={v}' for n, v, _ in result)
    return 'not-css-wide'


def css_wide_names():
    """Every shorthand of the real registry and every longhand the validators know, as written in CSS."""
    from weasyprint.css.properties import INITIAL_VALUES
    from weasyprint.css.validation.expanders import EXPANDERS
    return sorted(EXPANDERS) + [k.replace('_', '-') for k in INITIAL_VALUES]


def css_wide_section(run):
    sec = run.section(
        'css-wide-keywords',
        'fixed family, run first: every shorthand of EXPANDERS and every longhand of INITIAL_VALUES x {inherit, initial} x '
        'four spellings (lower, UPPER, Capitalised, mIxEd; CSS keywords are ASCII case-insensitive) x with / without '
        '!important, and three idents that are not CSS-wide keywords: the (longhand, value) pairs the real '
        'preprocess_declarations yields vs Model/CssWide.lean given the longhand names of the lower-case spelling; '
        'non-trivial = the spelling is not the lower-case one')
    for name in css_wide_names():
        for kw, spellings in SPELLINGS.items():
            base = preprocessed(f'{name}: {kw}')
            longhands = [n for n, _, _ in base]
            if not longhands:
                continue                    # not a property name of the validators (internal keys)
            for spelling in spellings + (NOT_CSS_WIDE if kw == 'inherit' else []):
                for important in ('', ' !important'):
                    if important and spelling not in (kw, kw.upper()):
                        continue
                    out = css_wide_out(preprocessed(f'{name}: {spelling}{important}'))
                    sec.add(sx.line('csswide', longhands, w_text(spelling)), out,
                            meta={'name': name, 'spelling': spelling, 'important': bool(important), 'keyword': kw,
                                  'signature': f'csswide:{name}:{spelling}'},
                            nontrivial=spelling != kw,
                            tags=['shorthand' if len(longhands) > 1 else 'longhand', spelling])


def css_wide_demo(name, spelling, kw):
    """A document showing the effect on box.style, when the harness has a sample value for the property."""
    from harness import cascade_docs
    samples = [v for v in cascade_docs.DECLS.get(name, []) + VAR_DECLS.get(name, []) if v not in ('inherit', 'initial')]
    if not samples:
        return ''
    def styles(text):
        html = f'<div style="{name}:{samples[-1]}"><p id=x style="{name}:{text}">t</p></div>'
        document = docs.render(html)
        keys = [n for n, _, _ in preprocessed(f'{name}: {kw}')]
        for label, style in styles_of(document):
            if label == 'p#x':
                return html, ' '.join(f'{k}={canon(style[k])}' for k in keys)
        return html, '?'
    try:
        html, got = styles(spelling)
        _, want = styles(kw)
    except Exception as exc:  # noqa: BLE001
        return f'; rendering the demonstration raised {type(exc).__name__}'
    return f'; {html}: box.style of the <p> is {got}, with "{kw}" it is {want}' if got != want else ''


def judge_css_wide(meta, impl, model):
    name, spelling, kw = meta['name'], meta['spelling'], meta['keyword']
    if impl == model:
        return None
    if model == 'not-css-wide':
        return f'"{name}: {spelling}" is preprocessed to {impl}: {spelling!r} is not a CSS-wide keyword'
    return (f'"{name}: {spelling}{" !important" if meta["important"] else ""}" is preprocessed to {impl}; CSS keywords are ASCII '
            f'case-insensitive, the declaration is "{name}: {kw}": {model}' + css_wide_demo(name, spelling, kw))


def replay_css_wide(meta):
    name, spelling, kw = meta['name'], meta['spelling'], meta['keyword']
    impl = css_wide_out(preprocessed(f'{name}: {spelling}{" !important" if meta["important"] else ""}'))
    if spelling.lower() == kw:
        model = css_wide_out(preprocessed(f'{name}: {kw}'))
    else:
        model = 'not-css-wide'
    return judge_css_wide(meta, impl, model)
