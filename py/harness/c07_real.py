"""C07: calling the real WeasyPrint declaration code and canonicalising what it returns.

Shared by the correspondence, judge, search and replay code of py/props/c07.py.
"""
import traceback

from vlib import sx

from . import c07_gen as G

BASE_URL = G.BASE_URL


# ------------------------------------------------------------------------------------------------ wire

def enc(s):
    """A string as one wire atom: printable ASCII except `(`, `)`, `%` stays, the rest is `%HEX;`."""
    if s == '':
        return '%;'
    return ''.join(c if 32 < ord(c) < 127 and c not in '()%' else f'%{ord(c):x};' for c in s)


class Interner:
    """Opaque atoms `vN` for the values returned by the real validators (equal values, equal atoms)."""

    def __init__(self):
        self.ids = {}

    def __call__(self, value):
        key = canon(value)
        if key in ('kw:initial', 'kw:inherit', 'pending'):
            return key
        if key not in self.ids:
            self.ids[key] = f'v{len(self.ids)}'
        return self.ids[key]


def canon(value):
    """A canonical text of a validated value (structure and numbers, no object identities)."""
    from weasyprint.css.utils import Pending
    if isinstance(value, Pending):
        return 'pending'
    if isinstance(value, str):
        if value in ('initial', 'inherit'):
            return f'kw:{value}'
        return repr(value)
    if value is None or isinstance(value, (bool, int, float)):
        return repr(value)
    if isinstance(value, (tuple, list)):
        name = type(value).__name__ if type(value) not in (tuple, list) else 'seq'
        return name + '(' + ','.join(canon(v) for v in value) + ')'
    if isinstance(value, dict):
        return 'dict(' + ','.join(f'{canon(k)}:{canon(v)}' for k, v in sorted(value.items(), key=repr)) + ')'
    if isinstance(value, (set, frozenset)):
        return 'set(' + ','.join(sorted(canon(v) for v in value)) + ')'
    if hasattr(value, 'serialize') and hasattr(value, 'type'):
        return 'tok:' + tok_text(value)
    if hasattr(value, '__dict__'):
        return type(value).__name__ + '{' + ','.join(
            f'{k}={canon(v)}' for k, v in sorted(vars(value).items())) + '}'
    return repr(value)


def tok_text(tok):
    if not hasattr(tok, 'serialize') and hasattr(tok, 'lower_value'):
        return tok.lower_value        # NormalFakeToken / NoneFakeToken of descriptors.py
    try:
        return tok.serialize()
    except Exception:  # noqa: BLE001 - some error tokens do not serialise
        return f'<{tok.type}>'


def tk_wire(tok):
    """A tinycss2 component value as the `Wp.Var.Tk` tree of the model."""
    kind = tok.type
    if kind in ('whitespace', 'comment'):
        return 'ws'
    if kind == 'literal' and tok.value == ',':
        return 'comma'
    if kind == 'ident':
        return ['id', enc(tok.value)]
    if kind == 'function':
        return ['fn', enc(tok.name), enc(tok.lower_name), [tk_wire(a) for a in tok.arguments]]
    return ['leaf', enc(tok_text(tok))]


def toks_out(tokens):
    return sx.dumps([tk_wire(t) for t in tokens])


# ----------------------------------------------------------------------------------------- outcomes

def fail_atom(exc):
    from weasyprint.css.utils import InvalidValues
    if isinstance(exc, InvalidValues):
        return 'invalid'
    return f'err:{type(exc).__name__}'


def innermost(exc):
    """(exception class, function, file) of the innermost weasyprint frame: the signature of a crash."""
    frames = traceback.extract_tb(exc.__traceback__)
    for frame in reversed(frames):
        if 'weasyprint' in frame.filename:
            return type(exc).__name__, frame.name
    return type(exc).__name__, frames[-1].name if frames else '?'


def run_generator(make):
    """Iterate a generator function call; -> (items, end) with end None | 'invalid' | 'err:Class'."""
    items = []
    try:
        for item in make():
            items.append(item)
    except RecursionError:
        return items, 'err:RecursionError'
    except Exception as exc:  # noqa: BLE001 - outcome kinds
        return items, fail_atom(exc)
    return items, None


def outcome_list(make):
    """-> ('ok', list) | ('fail', atom, exc)"""
    try:
        return 'ok', list(make()), None
    except RecursionError as exc:
        return 'fail', 'err:RecursionError', exc
    except Exception as exc:  # noqa: BLE001
        return 'fail', fail_atom(exc), exc


# -------------------------------------------------------------------------------- the real functions

def mods():
    import tinycss2
    from weasyprint.css import utils, validation
    from weasyprint.css.validation import expanders, properties
    return tinycss2, utils, validation, expanders, properties


def head_of(tokens):
    """What generic_expander_wrapper tests first (recomputed with the real helper functions)."""
    _, utils, _, _, _ = mods()
    keyword = utils.get_single_keyword(tokens)
    if keyword in ('inherit', 'initial'):
        return keyword
    if any(utils.check_var_function(t) for t in tokens):
        return 'var'
    return 'plain'


def has_var(tokens):
    _, utils, _, _, _ = mods()
    return any(bool(utils.check_var_function(t)) for t in tokens)


def closure_of(fn):
    if fn.__closure__ and 'expanded_names' in fn.__code__.co_freevars:
        cells = dict(zip(fn.__code__.co_freevars, (c.cell_contents for c in fn.__closure__)))
        return tuple(cells['expanded_names']), bool(cells['wants_base_url'])
    return None, None


def actual_name(name, new):
    return f'{name}{new}' if new.startswith('-') else new


def validate_required(value, name, intern):
    """`validate_non_shorthand(value, name, base_url, required=True)` -> '(ok vN)' | 'invalid' | 'err:X' (wire)."""
    _, _, _, _, properties = mods()
    try:
        (_, result), = properties.validate_non_shorthand(value, name, BASE_URL, required=True)
    except Exception as exc:  # noqa: BLE001
        return fail_atom(exc)
    return ['ok', intern(result)]


def longhands_out(pairs, intern, value_atom=None):
    """[(name, value)] -> the `ok (name atom) …` line the driver prints."""
    value_atom = value_atom or intern
    return 'ok' + ''.join(f' ({enc(n)} {value_atom(v)})' for n, v in pairs)


def expander_out(key, tokens, intern, value_atom=None):
    """The registered expander of `key` on `tokens`, canonicalised."""
    _, _, _, expanders, _ = mods()
    kind, result, exc = outcome_list(lambda: expanders.EXPANDERS[key](tuple(tokens), key, BASE_URL))
    if kind == 'ok':
        return longhands_out(result, intern, value_atom)
    return result


def tok_ids(tokens):
    return {id(t): f't{i}' for i, t in enumerate(tokens)}


def value_id(value, ids):
    """Identity of a raw expander value in terms of the input tokens (`t0+t2`), synthesised tokens by text."""
    if isinstance(value, (list, tuple)):
        return '+'.join(value_id(v, ids) for v in value) or 'e'
    return ids.get(id(value)) or enc(tok_text(value))


def raw_of(key, tokens):
    """The wrapped generator of a generic expander, iterated by hand."""
    _, _, _, expanders, _ = mods()
    fn = expanders.EXPANDERS[key]
    names, wants = closure_of(fn)
    wrapped = fn.__wrapped__
    if wants:
        items, end = run_generator(lambda: wrapped(tuple(tokens), key, BASE_URL))
    else:
        items, end = run_generator(lambda: wrapped(tuple(tokens), key))
    return names, items, end


def table_for_raw(key, names, items, ids, intern, vid=None):
    """Validation table for the raw items actually yielded: ((actual_name value_id) result)."""
    vid = vid or value_id
    table, seen = [], set()
    for new_name, value in items:
        if not isinstance(new_name, str) or new_name not in names:
            continue
        actual = actual_name(key, new_name)
        vid_ = vid(value, ids)
        if (actual, vid_) in seen:
            continue
        seen.add((actual, vid_))
        table.append([[enc(actual), vid_], validate_required(value, actual, intern)])
    return table


def funnel_out(decls, intern, prelude=None):
    """`list(preprocess_declarations(...))` canonicalised -> (line, exc)."""
    _, _, validation, _, _ = mods()
    kind, result, exc = outcome_list(lambda: validation.preprocess_declarations(BASE_URL, decls, prelude))
    if kind != 'ok':
        return result, exc
    if prelude is not None:
        result = [d for _, d in result]
    return 'ok' + ''.join(f' ({enc(n)} {intern(v)} {"true" if imp else "false"})' for n, v, imp in result), None


def validator_table_entry(name, tokens, intern):
    """The funnelled validator called directly: '(ok (ln v) …)' | 'invalid' | 'err:AssumptionBroken'."""
    _, utils, _, expanders, properties = mods()
    validator = expanders.EXPANDERS.get(name, properties.validate_non_shorthand)
    try:
        if not tokens:
            raise utils.InvalidValues('no value')
        result = list(validator(tokens, name, BASE_URL))
    except utils.InvalidValues:
        return 'invalid', None
    except RecursionError as exc:
        return 'err:AssumptionBroken', exc
    except Exception as exc:  # noqa: BLE001 - the model assumes this never happens
        return 'err:AssumptionBroken', exc
    return ['ok'] + [[enc(ln), intern(v)] for ln, v in result], None


def candidate_names(decl):
    """Names under which the funnel may validate this declaration (the model picks one or skips)."""
    _, _, _, _, properties = mods()
    name = decl.name if decl.name.startswith('--') else decl.lower_name
    out = [name]
    if name.startswith(properties.PREFIX):
        out.append(name[len(properties.PREFIX):])
    return out


# --------------------------------------------------------------------------------------- fingerprints

STYLE_KEYS = (
    'color', 'background_color', 'font_size', 'font_family', 'font_weight', 'font_style', 'line_height',
    'border_top_style', 'border_top_color', 'border_left_style', 'border_left_color', 'border_bottom_style',
    'border_right_style', 'outline_width', 'outline_style', 'outline_color', 'list_style_type',
    'list_style_position', 'list_style_image', 'text_decoration_line', 'text_decoration_color',
    'text_decoration_style', 'text_align_all', 'text_align_last', 'column_count', 'column_width', 'column_gap',
    'row_gap', 'flex_direction', 'flex_wrap', 'flex_grow', 'flex_shrink', 'flex_basis', 'overflow_wrap',
    'break_before', 'break_after', 'break_inside', 'border_top_left_radius', 'border_bottom_right_radius',
    'column_rule_style', 'column_rule_color', 'max_lines', 'block_ellipsis',
    'border_spacing', 'display', 'float', 'position', 'opacity', 'visibility', 'text_indent', 'letter_spacing', 'word_spacing',
)
GEOMETRY = ('position_x', 'position_y', 'width', 'height', 'margin_top', 'margin_right', 'margin_bottom',
            'margin_left', 'padding_top', 'padding_right', 'padding_bottom', 'padding_left', 'border_top_width',
            'border_right_width', 'border_bottom_width', 'border_left_width')


def fingerprint(document):
    """Geometry and selected computed styles of every box of every page."""
    out = []
    for page in document.pages:
        page_box = page._page_box
        out.append(('page', page_box.width, page_box.height, page_box.margin_top, page_box.margin_left))
        for box in page_box.descendants():
            entry = [type(box).__name__, box.element_tag, getattr(box, 'text', None)]
            entry += [getattr(box, attr, None) for attr in GEOMETRY]
            style = box.style
            entry += [canon(style[key]) for key in STYLE_KEYS]
            out.append(tuple(entry))
    return out


def digest(obj):
    import hashlib
    return hashlib.sha256(repr(obj).encode()).hexdigest()[:20]
