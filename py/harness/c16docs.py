"""Seeded generator of small HTML documents that exercise the drawing code (stacking contexts with opacity, regular and
singular transforms, overflow, clip, backgrounds, gradients, images, borders, tables, links, forms) and of
`write_pdf` option sets.  Every choice comes from the `rng` argument."""
import base64
import struct
import zlib

VARIANTS = [None, 'pdf/a-1b', 'pdf/a-2b', 'pdf/a-3b', 'pdf/a-4b', 'pdf/a-2u', 'pdf/a-3u', 'pdf/a-4u', 'pdf/ua-1',
            'debug']


def _png(width, height, rgba):
    def chunk(kind, data):
        body = kind + data
        return struct.pack('>I', len(data)) + body + struct.pack('>I', zlib.crc32(body))
    raw = b''.join(b'\x00' + bytes(rgba) * width for _ in range(height))
    return (b'\x89PNG\r\n\x1a\n' + chunk(b'IHDR', struct.pack('>IIBBBBB', width, height, 8, 6, 0, 0, 0)) +
            chunk(b'IDAT', zlib.compress(raw)) + chunk(b'IEND', b''))


PNG_URI = 'data:image/png;base64,' + base64.b64encode(_png(4, 4, (255, 0, 0, 128))).decode()
PNG2_URI = 'data:image/png;base64,' + base64.b64encode(_png(2, 3, (0, 0, 255, 255))).decode()
SVG_URI = 'data:image/svg+xml;base64,' + base64.b64encode(
    b'<svg xmlns="http://www.w3.org/2000/svg" width="10" height="10"><rect width="6" height="6" fill="green" '
    b'opacity="0.5"/><circle cx="5" cy="5" r="3" fill="none" stroke="blue"/><text x="1" y="8" font-size="4">s</text>'
    b'</svg>').decode()

OPACITY = [None, None, None, '0.5', '0.25', '1', '0']
TRANSFORM = [None, None, None, 'rotate(10deg)', 'scale(2)', 'scale(0)', 'translate(5px, 5px)', 'matrix(1,0,0,0,0,0)',
             'scale(0.5) rotate(45deg)', 'scale(1, 0)']
BACKGROUND = [None, None, 'repeating-linear-gradient(red 5px, rgba(0,0,255,0.5) 5px)', 'red', 'rgba(0,0,255,0.5)', 'rgba(0,0,0,0)', 'linear-gradient(red, blue)',
              'linear-gradient(rgba(255,0,0,0.5), blue)', 'radial-gradient(red, rgba(0,0,255,0))',
              f'url({PNG_URI})', f'url({PNG_URI}) no-repeat', f'url({PNG2_URI}) space', f'url({SVG_URI}) repeat-x',
              f'url({SVG_URI}) no-repeat, linear-gradient(red, blue)', f'url({PNG2_URI}) round']
BORDER = [None, None, None, '2px solid green', '3px dashed rgba(0,0,0,0.5)', '2px dotted blue', '4px double red',
          '4px groove gray', '4px ridge gray', '3px inset gray', '3px outset gray', '1px solid transparent']
# Every CSS Color 4 syntax tinycss2 accepts: legacy and modern rgb(), hex, named, hsl, hwb, lab, lch, oklab, oklch,
# color() in every predefined space, with alpha, and with `none` components (painted as 0), also in the colour spaces
# WeasyPrint does not support and writes as sRGB (display-p3, a98-rgb, prophoto-rgb, rec2020, srgb-linear: fixed finding
# none-component-unsupported-space).
COLOURS = [
    'blue', 'rgba(255,0,0,0.5)', 'rgba(0,0,0,0.25)', '#0f0', 'rgb(0 128 0)', 'rgb(10% 20% 30% / 50%)',
    'rgb(none 128 0)', 'rgb(255 none none / 0.5)', 'rgb(none none none)', 'rgba(none 0 255 / 0.25)',
    'color(srgb none 0 1)', 'color(srgb 1 none 0.5 / 0.25)', 'color(srgb 0.25 0.5 0.75)',
    'hsl(120 50% 50%)', 'hsl(none 50% 50%)', 'hsl(200 none 50% / 0.5)', 'hwb(120 10% 20%)', 'hwb(90 none 20%)',
    'lab(50 20 30)', 'lab(none 20 30)', 'lch(50 30 120)', 'lch(50 none 30 / 0.25)',
    'oklab(0.5 0.1 -0.1)', 'oklab(0.5 none 0.1)', 'oklch(0.5 0.2 30 / 0.5)', 'oklch(0.5 0.2 none)',
    'color(xyz-d50 0.2 0.3 0.4)', 'color(xyz-d50 none 0.3 0.4)', 'color(xyz 0.2 none 0.4)', 'color(xyz-d65 0.2 0.3 0.4)',
    'color(display-p3 1 0 0)', 'color(srgb-linear 0.5 0.25 0.125)', 'color(a98-rgb 0 1 0 / 0.5)',
    'color(prophoto-rgb 0.5 0.5 0)', 'color(rec2020 0 0 1)', 'color(display-p3 none 0 1)',
    'color(rec2020 0 none 1 / 0.5)', 'color(srgb-linear none none 0.5)', 'transparent', 'currentcolor',
]
COLOR = [None, None] + COLOURS
# colours `Color.to('srgb')` can convert: the only ones given to gradients and 3D border styles (anything else is the
# listed finding colour-to-srgb-not-implemented)
SRGB_FAMILY = [c for c in COLOURS if c.split('(')[0] in ('rgb', 'rgba', 'hsl', 'hwb', 'blue', '#0f0', 'transparent')
               or c.startswith('color(srgb ')]
BLOCK_TAGS = ['div', 'div', 'div', 'p', 'section', 'article', 'blockquote', 'h1', 'h3']
INLINE_TAGS = ['span', 'span', 'em', 'a', 'b']
# the two Hebrew words are drawn with a fallback font (and right to left): several Pango fonts in one line of text
WORDS = ['aa', 'bb cc', 'd', 'ee ff gg', '&#x20;', 'hh', 'a \u05d0\u05d1 b', '\u05d0\u05d1']
# characters without a glyph (default ignorable: PANGO_GLYPH_EMPTY) and text mixing them with visible glyphs: a run made
# only of them selects its font (`Tf`) without adding anything to the font's cmap / widths
GLYPHLESS = ['&#x200b;', '&#x2060;', '&#x200b;&#x200b;', '&#xfeff;', '&#x200d;', 'a&#x200b;b', '&#x200b; &#x200b;', '&shy;']
FONT = [None] * 18 + ['font-family:monospace', 'font-family:serif', 'font-family:DejaVu Sans',
        'font-weight:bold', 'font-style:italic', 'font-family:monospace;font-weight:bold', 'font-size:14px',
        'font-family:serif;font-style:italic', 'font-variant:small-caps']


ANCHOR_NAMES = ['b', 'a', 'Z', 'ab', 'a-1', 'z9', 'a\u00e9', '\u00fc1', '\u4e2d', 'b\u00e9', '\U0001f600', '\uffee']


# file names of attachments: prefixes of one another, characters below `)` and characters pydyf escapes, so that the
# order of the /EmbeddedFiles name tree is exercised; equal names too
ATTACHMENT_NAMES = ['a', 'a b', 'b.txt', 'a.txt', 'a(1)', 'aA', 'notes', 'notes (1)', '\u00e9.txt', 'a', 'z', 'a\\b', 'a!']


# gradients for the places that paint an image on the stream they are called with (not in a fresh group): several of
# them, with non-opaque stops, on one content stream
GRADIENTS = ['linear-gradient(red, blue)', 'linear-gradient(rgba(255,0,0,0.5), blue)', 'radial-gradient(red, transparent)',
             'linear-gradient(to right, rgba(0,0,0,0), rgba(0,0,255,0.25) 50%, red)', 'radial-gradient(blue, blue)',
             'repeating-linear-gradient(red, rgba(0,128,0,0.5) 5px)', 'linear-gradient(transparent, transparent)',
             # laid out as one solid colour (zero-length repeating gradient): rectangle / set_color / fill
             'repeating-linear-gradient(red 5px, blue 5px)', 'repeating-radial-gradient(red 0, rgba(0,0,255,0.5) 0)',
             # stop positions that need the computed value (unitless 0, font-relative, absolute units): fixed finding
             # gradient-stop-length-not-computed
             'linear-gradient(red 0, blue 1em)', 'radial-gradient(rgba(255,0,0,0.5) 0, blue 2pt, green 1ex)']


def svg_uri(rng):
    """An SVG image whose fill / stroke colours are drawn from the same colour syntaxes."""
    fill, stroke = rng.choice(COLOURS[:-2]), rng.choice(COLOURS[:-2])
    return 'data:image/svg+xml;base64,' + base64.b64encode((
        f'<svg xmlns="http://www.w3.org/2000/svg" width="10" height="10"><rect width="6" height="6" fill="{fill}" '
        f'opacity="0.5"/><circle cx="5" cy="5" r="3" fill="none" stroke="{stroke}"/>'
        f'<text x="1" y="8" font-size="4" fill="{stroke}">s</text></svg>').encode()).decode()


def style_for(rng, inline=False):
    parts = []
    def maybe(prop, options, p=1.0):
        value = rng.choice(options)
        if value is not None and rng.random() < p:
            parts.append(f'{prop}:{value}')
    colour = lambda: rng.choice(COLOURS)  # noqa: E731
    maybe('opacity', OPACITY)
    maybe('transform', TRANSFORM)
    srgb = lambda: rng.choice(SRGB_FAMILY)  # noqa: E731
    maybe('background', BACKGROUND + [colour(), colour(), f'linear-gradient({srgb()}, {srgb()})',
                                      f'radial-gradient({srgb()}, {srgb()})', f'url({svg_uri(rng)}) no-repeat'])
    maybe('border', BORDER + [f'{rng.choice(["2px solid", "3px dashed", "2px dotted", "4px double"])} {colour()}'
                              for _ in range(3)] + [f'{rng.choice(["4px groove", "3px inset", "4px ridge"])} {srgb()}'])
    maybe('color', COLOR)
    font = rng.choice(FONT)
    if font:
        parts.append(font)
    maybe('outline', [None, None, None, f'2px solid {colour()}'])
    maybe('text-decoration', [None, None, None, f'underline {colour()}'])
    maybe('overflow', [None, None, 'hidden', 'hidden', 'scroll'])
    maybe('border-radius', [None, None, '3px', '50%'])
    maybe('outline', [None, None, None, '2px solid red', '1px dashed blue'])
    maybe('text-decoration', [None, None, None, 'underline', 'line-through overline'])
    maybe('mix-blend-mode', [None, None, None, None, 'multiply'])
    if inline:
        maybe('display', [None, None, 'inline-block'])
    else:
        position = rng.choice([None, None, None, 'relative', 'absolute', 'fixed'])
        if position:
            parts.append(f'position:{position}')
            maybe('z-index', [None, '-1', '1', '0'])
            if position != 'relative':
                maybe('clip', [None, 'rect(1px, 20px, 20px, 1px)', 'rect(auto, auto, 10px, auto)'])
                maybe('top', [None, '5px'])
        maybe('float', [None, None, None, 'left', 'right'])
        maybe('column-count', [None, None, None, None, '2'])
        if 'column-count:2' in parts:
            parts.append(f'column-rule:1px solid {colour()}')
        maybe('width', [None, None, '50px', '30px'])
        maybe('height', [None, None, None, '20px'])
        maybe('mask-border', [None] * 7 + [f'url({PNG_URI}) 1', f'{rng.choice(GRADIENTS)} 1'])
        if rng.random() < 0.08:
            parts.append(f'border:{rng.choice([3, 5])}px solid;border-image:{rng.choice(GRADIENTS)} '
                         f'{rng.choice(["1", "1 fill", "30%", "2 / 3px"])}')
    if rng.random() < 0.04:
        parts.append(f'list-style-image:{rng.choice(GRADIENTS)}')
    return ';'.join(parts)


def inline_content(rng, depth):
    out = []
    for _ in range(rng.choice([1, 1, 2, 3])):
        kind = rng.random()
        if kind < 0.08:
            out.append(rng.choice(GLYPHLESS))
        elif kind < 0.55 or depth <= 0:
            out.append(rng.choice(WORDS))
        elif kind < 0.8:
            tag = rng.choice(INLINE_TAGS)
            attrs = ' href="#t1"' if tag == 'a' and rng.random() < 0.7 else (
                ' href="https://example.org/"' if tag == 'a' else '')
            out.append(f'<{tag}{attrs} style="{style_for(rng, inline=True)}">{inline_content(rng, depth - 1)}</{tag}>')
        elif kind < 0.9:
            src = rng.choice([PNG_URI, PNG2_URI, SVG_URI])
            out.append(f'<img src="{src}" alt="i" style="{style_for(rng, inline=True)}">')
        else:
            out.append(rng.choice(['<input type="checkbox" checked>', '<input value="v">', '<br>',
                                   '<input type="radio" name="r" checked>', '<textarea>t</textarea>']))
    return ' '.join(out)


def block(rng, depth):
    roll = rng.random()
    if roll < 0.12 and depth > 0:
        rows = ''.join(
            '<tr>' + ''.join(
                f'<td style="{style_for(rng, inline=True)}">{rng.choice(WORDS)}</td>' for _ in range(rng.choice([1, 2])))
            + '</tr>' for _ in range(rng.choice([1, 2])))
        collapse = rng.choice(['', 'border-collapse:collapse;'])
        head = '<thead><tr><th>h</th></tr></thead>' if rng.random() < 0.3 else ''
        return f'<table style="{collapse}{style_for(rng)}">{head}{rows}</table>'
    if roll < 0.2 and depth > 0:
        tag = rng.choice(['ul', 'ol', 'dl'])
        item = 'dt' if tag == 'dl' else 'li'
        items = ''.join(f'<{item} style="{style_for(rng, inline=True)}">{inline_content(rng, 0)}</{item}>'
                        for _ in range(rng.choice([1, 2])))
        return f'<{tag}>{items}</{tag}>'
    tag = rng.choice(BLOCK_TAGS)
    ident = ' id="t1"' if rng.random() < 0.15 else ''
    if depth > 0 and rng.random() < 0.6:
        inner = ''.join(block(rng, depth - 1) for _ in range(rng.choice([1, 2, 2, 3])))
        if rng.random() < 0.5:
            inner = inline_content(rng, 1) + inner
    else:
        inner = inline_content(rng, 2)
    return f'<{tag}{ident} style="{style_for(rng)}">{inner}</{tag}>'


def page_geometry(rng):
    """Dyadic page geometry (px): width, height, margin, bleed, second page size for `:first`."""
    width, height = rng.choice([100, 120, 200, 64]), rng.choice([80, 100, 150])
    bleed = rng.choice([0, 0, 0, 5, 8, 20])
    return {'width': width, 'height': height, 'margin': rng.choice([0, 5, 10]), 'bleed': bleed,
            'first': rng.choice([None, None, (width + 20, height + 10)]),
            'marks': rng.choice(['none', 'none', 'crop', 'crop cross']) if bleed else 'none'}


def document(rng, depth=3):
    geo = page_geometry(rng)
    css = (f'@page{{size:{geo["width"]}px {geo["height"]}px;margin:{geo["margin"]}px;bleed:{geo["bleed"]}px;'
           f'marks:{geo["marks"]}')
    if rng.random() < 0.25:
        css += ';background:' + rng.choice(['yellow', 'linear-gradient(white, silver)', f'url({PNG_URI})'])
    if rng.random() < 0.2:
        css += ';@top-center{content:"t " counter(page);' + style_for(rng, inline=True) + '}'
    css += '}'
    if geo['first']:
        css += f'@page :first{{size:{geo["first"][0]}px {geo["first"][1]}px}}'
    css += 'body{font-size:10px;margin:0}'
    html_style = rng.choice(['', '', 'overflow:hidden', 'background:silver', 'opacity:0.5', 'transform:scale(0)'])
    body_style = rng.choice(['', '', 'background:rgba(0,255,0,0.25)', 'overflow:hidden'])
    body = ''.join(block(rng, depth) for _ in range(rng.choice([1, 2, 3, 4])))
    if rng.random() < 0.45:      # a second page with its own marked content, link target and stacking context
        body += f'<p id="t2" style="break-before:page;{style_for(rng, inline=True)}">next <a href="#t1">back</a></p>'
    if rng.random() < 0.5:       # internal links to anchors with ASCII and non-ASCII names (the /Dests name array)
        for name in rng.sample(ANCHOR_NAMES, rng.choice([1, 2, 3, 4])):
            body += f'<a href="#{name}">k</a><i id="{name}">v</i> '
    links = ''
    if rng.random() < 0.2:       # attachments of the document (<link>) and of an element (<a rel=attachment>)
        for i in range(rng.choice([1, 2, 3])):
            links += f'<link rel="attachment" href="data:text/plain,f{i}" title="d{i}">'
        if rng.random() < 0.5:
            body += '<a rel="attachment" href="data:text/plain,el">att</a>'
    html = (f'<html lang="en" style="{html_style}"><head><title>t</title>{links}<meta name="author" content="a">'
            f'<style>{css}</style></head><body style="{body_style}">{body}</body></html>')
    return html, geo


def options(rng, variant=None):
    opts = {
        'pdf_variant': variant,
        'uncompressed_pdf': rng.random() < 0.5,
        'zoom': rng.choice([1, 1, 2, 0.5, 1.5, 0.25]),
        'pdf_forms': rng.random() < 0.4,
        'srgb': rng.random() < 0.3,
        'full_fonts': rng.random() < 0.2,
        'hinting': rng.random() < 0.2,
        'custom_metadata': rng.random() < 0.3,
        'pdf_identifier': rng.choice([None, None, b'abc']),
        'pdf_version': rng.choice([None, None, '1.4', '1.7', '2.0']),
    }
    if rng.random() < 0.25:
        opts['attachments'] = [[name, 'x' + name] for name in rng.sample(ATTACHMENT_NAMES, rng.choice([1, 2, 3, 4]))]
    return opts
