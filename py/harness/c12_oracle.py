"""C12 oracles: the clauses of the property stated directly (css-flexbox-1 §9 for definite sizes,
css-grid §8 placement, §12 track sizing for px / % / fr), used ONLY to judge a model/implementation
disagreement and to search for a failing input after something broke.  Never the check itself.

Every oracle returns `None` when the input is outside the domain it can judge, in particular on
the configurations of the listed known findings (so that those are not re-reported).
"""
from fractions import Fraction
from math import inf

from harness.c12_flex import computed_factor, main_cross_gaps

F = Fraction
TOL = F(1, 10**6)

JUDGED_JUSTIFY = {'normal', 'flex-start', 'flex-end', 'center', 'space-between', 'space-around', 'space-evenly'}


def _v(x):
    return 0 if x is None else F(x)


def flex_reference(case):
    """css-flexbox-1 §9.2-9.5 on the main axis.  -> None | dict(order=[ids], main={id: (pos, size)})."""
    row = case['dir'].startswith('row')
    rev = case['dir'].endswith('reverse')
    gap, _ = main_cross_gaps(case)
    gap = F(gap)
    justify0 = case['justify']
    if justify0 not in JUDGED_JUSTIFY:
        # physical / writing-mode keywords, judged where their meaning is unambiguous (ltr)
        table = {}
        if row and not rev:
            table = {'left': 'flex-start', 'right': 'flex-end', 'start': 'flex-start', 'end': 'flex-end'}
        elif row and rev:
            table = {'left': 'flex-end', 'right': 'flex-start'}
        elif not rev:
            table = {'start': 'flex-start', 'end': 'flex-end'}
        if justify0 not in table:
            return None
        justify0 = table[justify0]
    if row:
        main = F(case['width'])
    elif case['height'] is not None:
        main = F(case['height'])
    else:
        main = None                      # content-sized column: single line only
        if case['wrap'] != 'nowrap':
            return None
    keys = ('width', 'minw', 'maxw', 'ml', 'mr', 'pl', 'pr', 'bl', 'br') if row else \
        ('height', 'minh', 'maxh', 'mt', 'mb', 'pt', 'pb', 'bt', 'bb')
    size_k, min_k, max_k, m1, m2, p1, p2, b1, b2 = keys
    # negative flex-grow / flex-shrink are invalid: the declarations are ignored (initial values 0 / 1)
    items = sorted((dict(it, grow=computed_factor(it['grow'], 0), shrink=computed_factor(it['shrink'], 1))
                    for it in case['items']), key=lambda it: it['order'])
    st = []
    for it in items:
        if not row and (it['mt'] is None or it['mb'] is None):
            return None                  # known finding flex-vertical-auto-margins-zeroed
        if it['basis'] == 'content' or (it['basis'] == 'auto' and it[size_k] is None):
            if it[size_k] is not None:
                return None
            if it[min_k] is not None or it[max_k] is not None:
                return None              # known finding flex-content-base-clamped
            base = F(0)
        elif it['basis'] == 'auto':
            base = _v(it[size_k])
        else:
            base = F(it['basis'])
        mn = _v(it[min_k])
        mx = inf if it[max_k] is None else F(it[max_k])
        hyp = max(mn, min(base, mx))
        extra = _v(it[m1]) + _v(it[m2]) + it[b1] + it[b2] + it[p1] + it[p2]
        st.append({'it': it, 'base': base, 'min': mn, 'max': mx, 'hyp': hyp, 'extra': F(extra),
                   'autos': (it[m1] is None) + (it[m2] is None)})
    if main is None:
        main = sum((s['hyp'] + s['extra'] for s in st), F(0)) + gap * max(0, len(st) - 1)
        main = max(main, 0)
    # 9.3 lines
    lines, cur, size = [], [], F(0)
    for s in st:
        outer = s['hyp'] + s['extra']
        if case['wrap'] != 'nowrap' and cur and size + gap + outer > main:
            lines.append(cur)
            cur, size = [s], outer
        else:
            size += outer + (gap if cur else 0)
            cur.append(s)
    if cur:
        lines.append(cur)
    if case['wrap'] == 'wrap-reverse':
        lines.reverse()
    result = {'order': [], 'main': {}, 'clamped': False, 'fractional': False, 'lines': []}
    for line in lines:
        n = len(line)
        gaps = gap * (n - 1)
        grow = sum(s['hyp'] + s['extra'] for s in line) + gaps < main
        for s in line:
            factor = s['it']['grow'] if grow else s['it']['shrink']
            s['factor'] = F(factor)
            s['frozen'] = factor == 0 or (s['base'] > s['hyp'] if grow else s['base'] < s['hyp'])
            s['target'] = s['hyp']
        def free():
            return main - gaps - sum((s['target'] if s['frozen'] else s['base']) + s['extra'] for s in line)
        initial = free()
        for _ in range(n + 1):
            unfrozen = [s for s in line if not s['frozen']]
            if not unfrozen:
                break
            remaining = free()
            fsum = sum(s['factor'] for s in unfrozen)
            if fsum < 1:
                if abs(initial * fsum) < abs(remaining):
                    remaining = initial * fsum
                result['fractional'] = True   # configuration of known finding flex-fractional-factor-sum
            if remaining != 0:
                if grow:
                    for s in unfrozen:
                        s['target'] = s['base'] + remaining * s['factor'] / fsum
                else:
                    scaled = sum(s['factor'] * s['base'] for s in unfrozen)
                    for s in unfrozen:
                        s['target'] = s['base'] + (remaining * s['factor'] * s['base'] / scaled if scaled else 0)
            else:
                for s in unfrozen:
                    s['target'] = s['base']
            total = F(0)
            for s in unfrozen:
                clamped = max(s['min'], min(s['target'], s['max']))
                clamped = max(clamped, 0)
                s['violation'] = clamped - s['target']
                s['target'] = clamped
                total += s['violation']
            if any(s['violation'] for s in unfrozen):
                result['clamped'] = True   # a min / max violation froze an item (9.7.5.d-e): judged like the rest
            for s in unfrozen:
                if total == 0 or (total > 0 and s['violation'] > 0) or (total < 0 and s['violation'] < 0):
                    s['frozen'] = True
        # 9.5 main-axis alignment
        free_space = main - gaps - sum(s['target'] + s['extra'] for s in line)
        autos = sum(s['autos'] for s in line)
        # auto margins absorb positive free space only; the overflow is left to justify-content
        each = free_space / autos if autos and free_space > 0 else F(0)
        if autos:
            free_space = min(F(0), free_space)
        justify = justify0
        if justify == 'normal':
            justify = 'flex-start'
        if free_space < 0 and justify.startswith('space'):
            return None                  # fallback alignment: not judged
        if rev and n == 1 and justify == 'space-between':
            return None                  # single item on a reversed line: not judged
        start, between = F(0), F(0)
        if justify == 'flex-end':
            start = free_space
        elif justify == 'center':
            start = free_space / 2
        elif justify == 'space-between':
            between = free_space / (n - 1) if n > 1 else F(0)
        elif justify == 'space-around':
            between = free_space / n
            start = between / 2
        elif justify == 'space-evenly':
            between = free_space / (n + 1)
            start = between
        pos = start
        m1k, m2k = (m1, m2)
        seq = line
        for i, s in enumerate(seq):
            it = s['it']
            before = each if it[m1k] is None else F(it[m1k])
            after = each if it[m2k] is None else F(it[m2k])
            if rev:
                before, after = after, before
            border = s['target'] + it[b1] + it[b2] + it[p1] + it[p2]
            edge = pos + before
            result['main'][it['id']] = (main - edge - border if rev else edge, border)
            pos = edge + border + after + between + gap
        order = [s['it']['id'] for s in line]
        result['lines'].append(list(reversed(order)) if rev else order)
        result['order'].extend(reversed(order) if rev else order)
    return result


def flex_violation(case, parsed):
    """Compare the implementation's rectangles with the reference on the main axis.
    parsed = (container height, [(id, x, y, w, h)]) -> str | None."""
    if parsed is None:
        return None
    ref = flex_reference(case)
    if ref is None:
        return None
    row = case['dir'].startswith('row')
    _, rects = parsed
    ids = [r[0] for r in rects]
    if sorted(ids) != sorted(ref['order']):
        return f'children laid out {ids}, expected the items {sorted(ref["order"])}'
    problems = []
    if ids != ref['order']:
        problems.append(f'order of the laid-out items is {ids}, order-modified document order gives {ref["order"]}')
    for ident, x, y, w, h in rects:
        pos, size = (x, w) if row else (y, h)
        want_pos, want_size = ref['main'][ident]
        if abs(size - want_size) > TOL or abs(pos - want_pos) > TOL:
            problems.append(f'item {ident}: main-axis position/size {float(pos)}/{float(size)}, '
                            f'css-flexbox gives {float(want_pos)}/{float(want_size)}')
    if not problems:
        return None
    if ref['fractional']:
        return None                      # may be the listed known finding flex-fractional-factor-sum
    return '; '.join(problems[:3])


def flex_cross_violation(case, parsed):
    """css-flexbox-1 §9.4/9.6 on the cross axis of a single-line container with a definite cross size:
    align-self flex-start / flex-end / center / stretch inside the line."""
    if parsed is None or case['wrap'] != 'nowrap':
        return None
    row = case['dir'].startswith('row')
    cross = case['height'] if row else case['width']
    if cross is None:
        return None
    cross = F(cross)
    _, rects = parsed
    items = {it['id']: it for it in case['items']}
    for ident, x, y, w, h in rects:
        it = items[ident]
        m1, m2 = (it['mt'], it['mb']) if row else (it['ml'], it['mr'])
        if (m1 is None or m2 is None) and row:
            continue                     # known finding flex-vertical-auto-margins-zeroed
        if row and (it['minh'] is not None or it['maxh'] is not None):
            continue
        if not row and (it['minw'] is not None or it['maxw'] is not None):
            continue
        pb = (it['pt'] + it['pb'] + it['bt'] + it['bb']) if row else (it['pl'] + it['pr'] + it['bl'] + it['br'])
        size_prop = it['height'] if row else it['width']
        align = it['align']
        if align == 'auto':
            align = case['align_items']
        if align == 'normal':
            align = 'stretch'
        pos, size = (y, h) if row else (x, w)
        if m1 is None or m2 is None:
            # css-flexbox 9.6 step 13: auto cross margins share the positive free cross space; otherwise the start
            # margin is zero (the item is not stretched: 9.4 step 11 requires non-auto margins)
            want_size = F(size_prop or 0) + pb
            free = cross - want_size - _v(m1) - _v(m2)
            autos = (m1 is None) + (m2 is None)
            want_pos = (free / autos if free > 0 else F(0)) if m1 is None else F(m1)
            if abs(size - want_size) > TOL or abs(pos - want_pos) > TOL:
                return (f'item {ident} (auto cross margins): cross-axis position/size {float(pos)}/{float(size)} in a '
                        f'line of {float(cross)}, css-flexbox gives {float(want_pos)}/{float(want_size)}')
            continue
        if align == 'stretch' and size_prop is None:
            want_size = max(cross - F(m1) - F(m2) - pb, 0) + pb
            want_pos = F(m1)
        else:
            want_size = F(size_prop or 0) + pb
            outer = want_size + F(m1) + F(m2)
            if align in ('flex-end', 'end', 'self-end'):
                want_pos = cross - outer + F(m1)
            elif align == 'center':
                want_pos = (cross - outer) / 2 + F(m1)
            else:
                want_pos = F(m1)
        if abs(size - want_size) > TOL or abs(pos - want_pos) > TOL:
            return (f'item {ident} (align {align}): cross-axis position/size {float(pos)}/{float(size)} in a line of '
                    f'{float(cross)}, css-flexbox gives {float(want_pos)}/{float(want_size)}')
    return None


def flex_lines_violation(case, parsed):
    """css-flexbox-1 §9.4 / 9.6 for a wrapping row container with a definite height: the lines are stacked per
    align-content; judged on the last item of each line when it is aligned to the line start."""
    if parsed is None or case['wrap'] != 'wrap' or not case['dir'].startswith('row') or case['height'] is None:
        return None
    ref = flex_reference(case)
    if ref is None or ref['fractional'] or len(ref['lines']) < 2:
        return None
    items = {it['id']: it for it in case['items']}
    for it in case['items']:
        if None in (it['mt'], it['mb']) or it['minh'] is not None or it['maxh'] is not None:
            return None
    _, rects = parsed
    ys = {r[0]: r[2] for r in rects}
    hs = {r[0]: r[4] for r in rects}
    gap = F(case['rowgap'])
    crosses = []
    for line in ref['lines']:
        crosses.append(max([F(0)] + [F(items[i]['height'] or 0) + F(items[i]['mt']) + F(items[i]['mb']) +
                                     items[i]['pt'] + items[i]['pb'] + items[i]['bt'] + items[i]['bb'] for i in line]))
    n = len(crosses)
    free = F(case['height']) - sum(crosses) - gap * (n - 1)
    if free < 0:
        return None
    kind = case['align_content']
    start, between = F(0), F(0)
    if kind in ('normal', 'stretch'):
        crosses = [c + free / n for c in crosses]
    elif kind in ('flex-end', 'end'):
        start = free
    elif kind == 'center':
        start = free / 2
    elif kind == 'space-between':
        between = free / (n - 1)
    elif kind == 'space-around':
        between = free / n
        start = between / 2
    elif kind == 'space-evenly':
        between = free / (n + 1)
        start = between
    pos = start
    for line, cross in zip(ref['lines'], crosses):
        for ident in line:
            it = items[ident]
            align = it['align'] if it['align'] != 'auto' else case['align_items']
            if align in ('normal', 'stretch', 'flex-start', 'start', 'self-start'):
                want = pos + F(it['mt'])
            elif align in ('flex-end', 'end', 'self-end'):
                want = pos + cross - F(it['mb']) - hs[ident]
            elif align == 'center':
                want = pos + (cross - F(it['mt']) - F(it['mb']) - hs[ident]) / 2 + F(it['mt'])
            else:
                continue
            if abs(ys[ident] - want) > TOL:
                return (f'item {ident} (align {align}) is at y = {float(ys[ident])}; align-content {kind} puts its '
                        f'line at {float(pos)} (cross size {float(cross)}): expected {float(want)}')
        pos += cross + gap + between
    return None


def second_violation(meta, impl):
    """Sparse `_get_second_placement` with an automatic (unnamed) second axis: the item goes right after the
    tracks occupied on its rows, in the first track when none is."""
    if meta['dense'] or not impl.startswith('('):
        return None
    ss, se = meta['ss'], meta['se']
    if ss != 'auto' or (se != 'auto' and se[2] is not None):
        return None
    fp = tuple(meta['fp'])
    occupied = set()
    for x, y, w, h in meta['areas']:
        if meta['flow'] == 'row' and intersect_reference(y, h, *fp):
            occupied.update(range(x, x + w))
        if meta['flow'] == 'column' and intersect_reference(x, w, *fp):
            occupied.update(range(y, y + h))
    span = 1 if se == 'auto' else (se[1] or 1)
    want = f'({max(occupied) + 1 if occupied else 0} {span})'
    if impl != want:
        return (f'_get_second_placement(first={fp}, end={se}, occupied tracks {sorted(occupied)}) = {impl}: the next '
                f'free position after the occupied tracks is {want}')
    return None


# ------------------------------------------------------------------------------------------- grid

def intersect_reference(p1, s1, p2, s2):
    """Half-open intervals [p, p+s) overlap."""
    return max(p1, p2) < min(p1 + s1, p2 + s2) if s1 > 0 and s2 > 0 else (p1 < p2 + s2 and p2 < p1 + s1)


def placement_reference(start, end, n_lines):
    """css-grid §8.3 for numeric lines and spans without names, positive numbers only.
    -> None (not judged) | 'auto' | (coord, size)."""
    def kind(p):
        if p == 'auto':
            return 'auto'
        span, number, ident = p
        if ident is not None:
            return None
        if span:
            return ('span', number or 1)
        if number is None or number <= 0:
            return None
        return ('line', number)
    s, e = kind(start), kind(end)
    if s is None or e is None:
        return None
    if (s == 'auto' or s[0] == 'span') and (e == 'auto' or e[0] == 'span'):
        return 'auto'
    if s != 'auto' and s[0] == 'line' and e != 'auto' and e[0] == 'line':
        a, b = s[1], e[1]
        if a == b:
            return (a - 1, 1)
        return (min(a, b) - 1, abs(b - a))
    if s != 'auto' and s[0] == 'line':
        return (s[1] - 1, e[1] if e != 'auto' else 1)
    size = s[1] if s != 'auto' else 1
    return (e[1] - 1 - size, size)


def named_line_reference(place, lines, side):
    """css-grid 8.3 <integer>? <custom-ident>? for a non-span grid line with a positive integer: 0-based index of
    the line.  `lines` = names of the explicit lines.  -> None (not judged) | int."""
    span, number, ident = place
    if span is not None or (number is not None and number <= 0):
        return None
    if ident is None:
        return number - 1
    if number is None:
        for i, names in enumerate(lines):
            if f'{ident}-{side}' in names:
                return i
        number = 1
    occ = [i for i, names in enumerate(lines) if ident in names]
    if len(occ) >= number:
        return occ[number - 1]
    # not enough lines with that name: the implicit lines after the explicit grid are assumed to have it
    return len(lines) - 1 + (number - len(occ))


def placement_reference_named(start, end, lines):
    """css-grid 8.3 / 8.3.1 with line names: numbers (positive), `n name`, `name`, `span n`, `span n name` against the
    names of the explicit lines.  -> None (not judged) | 'auto' | (coord, size)."""
    def is_span(p):
        return p != 'auto' and p[0] == 'span'
    if (start == 'auto' or is_span(start)) and (end == 'auto' or is_span(end)):
        return 'auto'
    n_lines = len(lines)
    if start != 'auto' and not is_span(start):
        s = named_line_reference(start, lines, 'start')
        if s is None or s < 0:
            return None
        if end == 'auto':
            return (s, 1)
        if is_span(end):
            k, name = end[1] or 1, end[2]
            if name is None:
                return (s, k)
            occ = [i for i in range(s + 1, n_lines) if name in lines[i]]
            e = occ[k - 1] if len(occ) >= k else max(n_lines - 1, s) + (k - len(occ))
            return (s, e - s)
        e = named_line_reference(end, lines, 'end')
        if e is None:
            return None
        if s == e:
            return (s, 1)
        return (min(s, e), abs(e - s))
    # start is auto or a span, end is a line
    e = named_line_reference(end, lines, 'end')
    if e is None or e <= 0:
        return None
    if start == 'auto':
        return (e - 1, 1)
    k, name = start[1] or 1, start[2]
    if name is None:
        return (e - k, k)
    # the k-th line called `name` strictly before the end line, searching backwards; not enough of them: the
    # implicit lines before the explicit grid are assumed to have the name
    occ = [i for i in range(min(e, n_lines) - 1, -1, -1) if name in lines[i]]
    if e > n_lines:
        return None                      # end line after the explicit grid: implicit lines in between, not judged
    s = occ[k - 1] if len(occ) >= k else -(k - len(occ))
    return (s, e - s)


def template_line_names(template, areas_tracks=0):
    """Names of the explicit lines of a `grid-template-rows/columns` value of the generators (repeat() expanded);
    an explicit grid has at least `max(1, areas_tracks)` tracks (tracks added from grid-auto-*)."""
    names = [[]]
    for e in template or []:
        if e[0] == 'names':
            names[-1].extend(e[1])
        elif e[0] == 'size':
            names.append([])
        else:
            for _ in range(e[1]):
                for x in e[2]:
                    if x[0] == 'names':
                        names[-1].extend(x[1])
                    else:
                        names.append([])
    while len(names) - 1 < max(1, areas_tracks):
        names.append([])
    return names


def areas_overlap(a, b):
    return (intersect_reference(a[0], a[2], b[0], b[2]) and intersect_reference(a[1], a[3], b[1], b[3]))


def grid_doc_violation(doc, out):
    """Clauses on a rendered grid: explicitly placed items are where their (positive, unnamed) lines
    say; auto-placed items overlap nothing placed before them; px / % / fr tracks and gaps partition
    the container when an fr track can absorb the free space; the item is inside its area."""
    from vlib import sx
    if out.startswith('err:'):
        return f'grid_layout raised {out[4:]}' if not grid_known_crash(doc) else None
    if not out.startswith('ok '):
        return None
    toks = sx.loads_line(out)
    fields = {}
    rects = []
    i = 1
    while i < len(toks):
        t = toks[i]
        if isinstance(t, str) and t.endswith('='):
            fields[t[:-1]] = toks[i + 1]
            i += 2
        elif isinstance(t, str) and '=' in t:
            k, v = t.split('=', 1)
            fields[k] = v
            i += 1
        else:
            rects.append(t)
            i += 1
    positions = {int(p[0]): tuple(int(v) for v in p[1:]) for p in fields.get('pos', [])}
    items = {it['id']: it for it in doc['items']}
    # explicit placement (with the names of the template lines when there are no template areas)
    names = None
    if doc['areas'] is None:
        names = {'column': template_line_names(doc['cols']), 'row': template_line_names(doc['rows'])}
    for ident, (x, y, w, h) in positions.items():
        it = items[ident]
        for axis, start, end, got in (('column', it['cs'], it['ce'], (x, w)), ('row', it['rs'], it['re'], (y, h))):
            want = placement_reference(start, end, None)
            if want is None and names is not None:
                want = placement_reference_named(start, end, names[axis])
            if want not in (None, 'auto') and want != got:
                return (f'item {ident}: grid-{axis} {show_place(start)} / {show_place(end)} '
                        + (f'(line names {names[axis]}) ' if names is not None else '') +
                        f'placed at (line index, span) {got}, css-grid gives {want}')
    # placement by template area: the item occupies the rectangle of the named area
    if doc['areas'] is not None:
        rect = {}
        for y, row in enumerate(doc['areas']):
            for x, name in enumerate(row):
                if name:
                    x0, y0, x1, y1 = rect.get(name, (x, y, x, y))
                    rect[name] = (min(x0, x), min(y0, y), max(x1, x), max(y1, y))
        for ident, (x, y, w, h) in positions.items():
            it = items[ident]
            for axis, start, end, got, pick in (('column', it['cs'], it['ce'], (x, w), (0, 2)),
                                                ('row', it['rs'], it['re'], (y, h), (1, 3))):
                if start != 'auto' and start == end and start[0] is None and start[1] is None and start[2] in rect:
                    r = rect[start[2]]
                    want = (r[pick[0]], r[pick[1]] - r[pick[0]] + 1)
                    if got != want:
                        return (f'item {ident}: grid-{axis}: {start[2]} (template area {start[2]!r} covers '
                                f'{axis}s {want[0]}..{want[0] + want[1] - 1}) placed at (line index, span) {got}')
    # auto-placed items do not overlap earlier ones
    order = list(positions)
    for k, ident in enumerate(order):
        it = items[ident]
        auto = any(placement_reference(s, e, None) == 'auto' for s, e in ((it['cs'], it['ce']), (it['rs'], it['re'])))
        if not auto:
            continue
        for other in order[:k]:
            if areas_overlap(positions[ident], positions[other]):
                return f'auto-placed item {ident} at {positions[ident]} overlaps item {other} at {positions[other]}'
    return None


def show_place(p):
    return 'auto' if p == 'auto' else ' '.join(str(x) for x in p if x is not None)


def grid_known_crash(doc):
    """Configurations of the known findings grid-named-span-hang / grid-negative-line-numbers /
    grid-leading-implicit-tracks-misindexed: a crash or hang there is already listed."""
    for it in doc['items']:
        for p in (it['rs'], it['re'], it['cs'], it['ce']):
            if p != 'auto' and ((p[1] or 1) < 0 or (p[0] == 'span' and p[2] is not None)):
                return True              # negative line number / span to a line name
        for start, end in ((it['rs'], it['re']), (it['cs'], it['ce'])):
            if (start == 'auto' or start[0] == 'span') and end != 'auto' and end[0] != 'span':
                return True              # a line given as end only: tracks before the explicit grid
    return False


def _align_tracks(kind, size, tracks, gap):
    """css-align distribution of the tracks in a container of `size` (None = no free space)."""
    n = len(tracks)
    used = sum(tracks, F(0)) + gap * (n - 1)
    free = max(F(0), F(size) - used) if size is not None else F(0)
    start, between = F(0), F(0)
    if kind == 'center':
        start = free / 2
    elif kind in ('end', 'flex-end', 'right'):
        start = free
    elif kind == 'space-between' and n > 1:
        between = free / (n - 1)
    elif kind == 'space-around':
        between = free / n
        start = between / 2
    elif kind == 'space-evenly':
        between = free / (n + 1)
        start = between
    out, pos = [], start
    for t in tracks:
        out.append(pos)
        pos += t + gap + between
    return out


def grid_geometry_violation(doc, out):
    """Tracks aligned per justify-content / align-content (gaps included), every item's margin box inside its area:
    equal to it for stretch / normal, aligned per justify-self / align-self otherwise (non-auto margins)."""
    from vlib import sx
    if not out.startswith('ok '):
        return None
    toks = sx.loads_line(out)
    fields, rects = {}, []
    i = 1
    while i < len(toks):
        t = toks[i]
        if isinstance(t, str) and t.endswith('='):
            fields[t[:-1]] = toks[i + 1]
            i += 2
        elif isinstance(t, str):
            i += 1
        else:
            rects.append(t)
            i += 1
    positions = {int(p[0]): tuple(int(v) for v in p[1:]) for p in fields.get('pos', [])}
    if any(a[0] < 0 or a[1] < 0 for a in positions.values()):
        return None                      # known finding grid-leading-implicit-tracks-misindexed
    cols = [F(v) for v in fields.get('cols', [])]
    rows = [F(v) for v in fields.get('rows', [])]
    spaced = ('space-between', 'space-around', 'space-evenly')
    col_pos = _align_tracks(doc['jc'], doc['width'], cols, F(doc['colgap']))
    row_pos = _align_tracks(doc['ac'], doc['height'], rows, F(doc['rowgap']))
    items = {it['id']: it for it in doc['items']}
    for r in rects:
        ident = int(r[0])
        x, y, w, h = (F(v) for v in r[1:])
        it = items[ident]
        ax, ay, aw, ah = positions[ident]
        if ax + aw > len(cols) or ay + ah > len(rows):
            continue
        for axis, pos, size, start, span, tracks, tpos, gap, kind, self_kind, items_kind, prop, m1, m2, pb in (
                ('column', x, w, ax, aw, cols, col_pos, F(doc['colgap']), doc['jc'], it['js'], doc['ji'], it['width'],
                 it['ml'], it['mr'], it['pl'] + it['pr'] + it['bl'] + it['br']),
                ('row', y, h, ay, ah, rows, row_pos, F(doc['rowgap']), doc['ac'], it['as'], doc['ai'], it['height'],
                 it['mt'], it['mb'], it['pt'] + it['pb'] + it['bt'] + it['bb'])):
            if span > 1 and kind in spaced:
                continue
            if m1 is None or m2 is None:
                continue                 # auto margins of grid items: not judged (not implemented, a TODO in the code)
            m1, m2, pb = F(m1), F(m2), F(pb)
            area_start = tpos[start]
            area_size = sum(tracks[start:start + span], F(0)) + gap * (span - 1)
            # the margin box is the area (stretch) or is aligned inside it; sizes are border-box sizes
            room = area_size - m1 - m2 - pb
            if room < 0:
                continue                 # the area cannot hold the margins, paddings and borders: overflow, not judged
            align = items_kind if self_kind == 'auto' else self_kind
            if align in ('normal', 'stretch'):
                want_size = max(F(prop or 0), room) + pb
                want_pos = area_start + m1
            else:
                want_size = F(prop or 0) + pb
                if align == 'center':
                    want_pos = area_start + m1 + (room - F(prop or 0)) / 2
                elif align in ('end', 'flex-end', 'self-end') or (axis == 'column' and align == 'right'):
                    want_pos = area_start + area_size - m2 - want_size
                else:
                    want_pos = area_start + m1
            if abs(pos - want_pos) > TOL or abs(size - want_size) > TOL:
                return (f'item {ident} in area {positions[ident]}: {axis}-axis position/size {float(pos)}/{float(size)} '
                        f'(align {align}), its area is at {float(area_start)} with size {float(area_size)}: '
                        f'expected {float(want_pos)}/{float(want_size)}')
    return None


def _template_track_count(template):
    if template is None:
        return 0
    n = 0
    for e in template:
        if e[0] == 'size':
            n += 1
        elif e[0] == 'repeat':
            n += e[1] * sum(1 for x in e[2] if x[0] == 'size')
    return n


def dense_violation(doc, out):
    """css-grid 8.5 with `dense` packing: every item that is auto-placed in step 4 (automatic position on the
    auto-flow axis) takes the first position, searching from the start of the grid in auto-flow order, where it
    overlaps nothing placed before it.  Judged on grids whose items use positive unnamed lines, numeric spans or
    auto, with no track before the explicit grid."""
    from vlib import sx
    if not doc['dense'] or not out.startswith('ok ') or doc['areas'] is not None:
        return None
    toks = sx.loads_line(out)
    pos = None
    for k, t in enumerate(toks):
        if t == 'pos=':
            pos = toks[k + 1]
    if pos is None:
        return None
    order = [int(p[0]) for p in pos]
    positions = {int(p[0]): tuple(int(v) for v in p[1:]) for p in pos}
    if any(a[0] < 0 or a[1] < 0 for a in positions.values()):
        return None
    column_flow = doc['flow'] == 'column'
    items = {it['id']: it for it in doc['items']}

    def axes(it):
        rows, cols = (it['rs'], it['re']), (it['cs'], it['ce'])
        return (cols, rows) if column_flow else (rows, cols)     # (auto-flow "first" axis, second axis)

    def split(area):
        x, y, w, h = area
        return (x, w, y, h) if column_flow else (y, h, x, w)      # first coord, first size, second coord, size

    first_ref, second_ref = {}, {}
    for ident, it in items.items():
        f, s = axes(it)
        first_ref[ident], second_ref[ident] = placement_reference(*f, None), placement_reference(*s, None)
        if first_ref[ident] is None or second_ref[ident] is None:
            return None
    # start of the implicit grid on both axes, as known when step 4 starts
    placed_before = [i for i in order if first_ref[i] != 'auto']
    first_start = min([0] + [split(positions[i])[0] for i in placed_before])
    explicit_second = max(1, _template_track_count(doc['rows'] if column_flow else doc['cols']))
    lo, hi = 0, explicit_second
    for ident in items:
        if ident in placed_before:
            _, _, c, n = split(positions[ident])
        elif second_ref[ident] != 'auto':
            c, n = second_ref[ident]
        else:
            continue
        lo, hi = min(lo, c), max(hi, c + n)
    for ident, it in items.items():
        if ident in placed_before:
            continue
        span = 1
        for p in axes(it)[1]:
            if p != 'auto' and p[0] == 'span':
                span = p[1] or 1
                break
        hi = max(hi, lo + span)
    for k, ident in enumerate(order):
        if first_ref[ident] != 'auto':
            continue
        earlier = [positions[o] for o in order[:k]]
        f, fsize, s, ssize = split(positions[ident])

        def free(fc, sc):
            area = (fc, sc, fsize, ssize) if column_flow else (sc, fc, ssize, fsize)
            return not any(areas_overlap(area, other) for other in earlier)
        want = None
        if second_ref[ident] != 'auto':
            for fc in range(first_start, first_start + 200):
                if free(fc, s):
                    want = (fc, s)
                    break
        else:
            for fc in range(first_start, first_start + 200):
                for sc in range(lo, hi):
                    if sc + ssize <= hi and free(fc, sc):
                        want = (fc, sc)
                        break
                if want:
                    break
        if want is not None and want != (f, s):
            axis = 'column, row' if column_flow else 'row, column'
            return (f'dense packing: item {ident} is placed at ({axis}) = ({f}, {s}) although ({want[0]}, {want[1]}) '
                    f'comes first from the start of the grid and is free (areas placed before: {earlier})')
    return None
