"""C14: percentages of page boxes and margin boxes — the real `layout.percent.resolve_percentages` (and the
`make_page` prefix `resolve_percentages; page_width; page_height`) on real PageBox / MarginBox / BlockBox objects
with dict styles holding `Dimension`s of Fractions, compared exactly with `Model/PagePercent.lean`, and the
css-page-3 / CSS 2.1 rule of which dimension of the containing block each property refers to, stated directly
(judge).  Every random choice comes from the `rng` passed in."""
from fractions import Fraction as F
import math

from harness import c14_gen as g
from harness import docs
from vlib import sx

AUTO = 'auto'
DIMS = ('margin_left', 'margin_right', 'margin_top', 'margin_bottom', 'padding_left', 'padding_right', 'padding_top',
        'padding_bottom', 'width', 'height', 'min_width', 'min_height')
MAXS = ('max_width', 'max_height')
BORDERS = ('border_top_width', 'border_right_width', 'border_bottom_width', 'border_left_width')
PCTS = [F(0), F(1), F(5), F(10), F(25, 2), F(25), F(100, 3), F(50), F(100), F(150), F(25, 16)]
KINDS = ('page', 'margin', 'block')
SIZINGS = {'content': 'content-box', 'padding': 'padding-box', 'border': 'border-box'}


def _mods():
    from weasyprint.css.properties import Dimension
    from weasyprint.formatting_structure import boxes
    from weasyprint.layout import page, percent
    return Dimension, boxes, page, percent


def to_dimension(v):
    Dimension, *_ = _mods()
    if v == AUTO:
        return 'auto'
    if v == 'inf':
        return Dimension(math.inf, 'px')
    if isinstance(v, (tuple, list)) and v[0] == 'pct':
        return Dimension(F(v[1]), '%')
    return Dimension(F(v), 'px')


def make_box(kind, sizing, dims, maxs, borders):
    _, boxes, page, _ = _mods()
    style = {name: to_dimension(v) for name, v in zip(DIMS + MAXS, list(dims) + list(maxs))}
    style.update({name: F(v) for name, v in zip(BORDERS, borders)})
    style['border_collapse'] = 'separate'
    style['box_sizing'] = SIZINGS[sizing]
    if kind == 'page':
        return boxes.PageBox(page.PageType('right', False, '', 0, ()), style)
    if kind == 'margin':
        return boxes.MarginBox('@top-left', style)
    return boxes.BlockBox('div', style, None, [])


def containing_block(as_box, cbw, cbh):
    _, boxes, _, _ = _mods()
    if not as_box:
        return (cbw, cbh)
    cb = boxes.BlockBox('div', {}, None, [])
    cb.width, cb.height = cbw, cbh
    return cb


def show_used(box):
    def group(names):
        return '(' + ' '.join(sx.atom(getattr(box, n)) for n in names) + ')'
    return ' '.join([group(DIMS[:4]), group(DIMS[4:8]), group(DIMS[8:10]),
                     group(('min_width', 'min_height', 'max_width', 'max_height')), group(BORDERS)])


def impl_respct(kind, sizing, as_box, cbw, cbh, dims, maxs, borders):
    *_, percent = _mods()
    box = make_box(kind, sizing, dims, maxs, borders)
    percent.resolve_percentages(box, containing_block(as_box, cbw, cbh))
    return show_used(box)


def impl_pagepct(sizing, cbw, cbh, dims, maxs, borders):
    """The prefix of `make_page`: resolve_percentages(page, device_size); page_width; page_height."""
    _, _, page, percent = _mods()
    box = make_box('page', sizing, dims, maxs, borders)
    percent.resolve_percentages(box, (cbw, cbh))
    page.page_width(box, None, cbw)
    page.page_height(box, None, cbh)

    def group(*vals):
        return '(' + ' '.join(sx.atom(v) for v in vals) + ')'
    return ' '.join([group(box.margin_width(), box.margin_height()), group(box.width, box.height),
                     group(box.margin_top, box.margin_right, box.margin_bottom, box.margin_left),
                     group(box.padding_top, box.padding_right, box.padding_bottom, box.padding_left)])


# ---- generators ------------------------------------------------------------------------------------------

def dim(rng, top, auto, pct):
    r = rng.random()
    if r < auto:
        return AUTO
    if r < auto + pct:
        return ('pct', rng.choice(PCTS))
    den = rng.choice([1, 1, 2, 4, 3])
    return F(rng.randrange(0, top * den + 1), den)


def random_style(rng, page_like):
    pct = rng.choice([0.2, 0.5, 0.9])
    margins = [dim(rng, 60, 0.2, pct) for _ in range(4)]
    if rng.random() < 0.15:
        margins = [(-m if isinstance(m, F) else m) for m in margins]          # negative margins are valid
    paddings = [dim(rng, 30, 0.0, pct) for _ in range(4)]
    size = [dim(rng, 400, 0.4, pct), dim(rng, 400, 0.4, pct)]
    mins = [dim(rng, 200, 0.5 if not page_like else 0.3, pct * 0.6) for _ in range(2)]
    maxs = []
    for _ in range(2):
        r = rng.random()
        maxs.append('inf' if r < 0.5 else (('pct', rng.choice(PCTS[1:])) if r < 0.5 + pct / 3 else
                                           F(rng.randrange(0, 1601), 4)))
    borders = [F(0) if rng.random() < 0.6 else F(rng.randrange(0, 21), 4) for _ in range(4)]
    return margins + paddings + size + mins, maxs, borders


def wire(v):
    return ['pct', v[1]] if isinstance(v, tuple) else v


def correspondence(prop, run):
    rng = run.rng
    sec = run.section(
        'resolve-percentages', 'layout.percent.resolve_percentages on real PageBox / MarginBox / BlockBox with '
        'Dimension styles (Fractions; px, %, auto, inf), containing block as a tuple or a box, the three box-sizing '
        'values; every used value compared; non-trivial = a vertical margin or padding is a percentage and the '
        'containing block is not square')
    for i in range(run.n(2400, 30000)):
        kind = KINDS[i % 3]
        sizing = rng.choice(['content', 'content', 'content', 'padding', 'border'])
        as_box = rng.random() < 0.3
        cbw = F(rng.randrange(1, 3201), 4)
        cbh = cbw if rng.random() < 0.1 else F(rng.randrange(1, 3201), 4)
        if kind == 'block' and rng.random() < 0.3:
            cbh = AUTO              # a containing block whose height depends on its content (never for page / margin boxes)
        dims, maxs, borders = random_style(rng, kind == 'page')
        out = docs.outcome(lambda: impl_respct(kind, sizing, as_box, cbw, cbh, dims, maxs, borders))
        vertical_pct = any(isinstance(dims[k], tuple) for k in (2, 3, 6, 7))
        sec.add(sx.line('respct', kind == 'page', sizing, cbw, cbh, [wire(v) for v in dims], [wire(v) for v in maxs],
                        borders), out,
                meta={'fn': 'respct', 'args': [kind, sizing, as_box, cbw, cbh, [wire(v) for v in dims],
                                               [wire(v) for v in maxs], borders]},
                nontrivial=vertical_pct and cbw != cbh,
                tags=[kind, sizing, 'cb-box' if as_box else 'cb-tuple'] + (['cb-height-auto'] if cbh == AUTO else []))
    sec = run.section(
        'page-box-percentages', 'the prefix of make_page on a real PageBox: resolve_percentages(page, size); page_width; '
        'page_height — Page.width/height, content size, margins, paddings; non-trivial = a vertical margin or '
        'padding is a percentage and the sheet is not square')
    for i in range(run.n(1500, 20000)):
        sizing = rng.choice(['content', 'content', 'content', 'padding', 'border'])
        cbw = F(rng.randrange(200, 3201), 4)
        cbh = cbw if rng.random() < 0.1 else F(rng.randrange(200, 3201), 4)
        dims, maxs, borders = random_style(rng, True)
        out = docs.outcome(lambda: impl_pagepct(sizing, cbw, cbh, dims, maxs, borders))
        vertical_pct = any(isinstance(dims[k], tuple) for k in (2, 3, 6, 7))
        sec.add(sx.line('pagepct', sizing, cbw, cbh, [wire(v) for v in dims], [wire(v) for v in maxs], borders), out,
                meta={'fn': 'pagepct', 'args': [sizing, cbw, cbh, [wire(v) for v in dims], [wire(v) for v in maxs],
                                                borders]},
                nontrivial=vertical_pct and cbw != cbh, tags=[sizing])


# ---- the clause ----------------------------------------------------------------------------------------------

def unwire(v):
    if isinstance(v, (list, tuple)):
        return ('pct', F(v[1]))
    return v if v in (AUTO, 'inf') else F(v)


def refer(value, referent):
    """css: a percentage is that share of `referent`; a length is itself; auto stays auto."""
    if value == AUTO:
        return AUTO
    if isinstance(value, tuple):
        return referent * value[1] / 100
    return value


def css(v):
    if isinstance(v, tuple):
        return f'{v[1]}%'
    return str(v) if v in (AUTO, 'inf') else f'{v}px'


def parse_groups(impl):
    return [[a if a in (AUTO, 'inf', 'nan') else F(a) for a in grp] for grp in sx.loads_line(impl)]


def judge_respct(args, impl):
    """css-page-3 §7 (page box): percentages of margin-top/-bottom and padding-top/-bottom refer to the *height* of
    the containing block (the sheet), those of the left/right properties to its width.  CSS 2.1 §8.3/§8.4 (every
    other box, margin boxes included): all eight refer to the *width*.  `width` refers to the width, `height` to the
    height (judged for content-box, where the used value is the resolved value)."""
    kind, sizing, as_box, cbw, cbh, dims, maxs, borders = args
    if impl.startswith('err:'):
        return f'resolve_percentages raised {impl}'
    dims = [unwire(v) for v in dims]
    auto_height = cbh == AUTO
    cbw, cbh = F(cbw), (F(0) if auto_height else F(cbh))
    margins, paddings, size, _, _ = parse_groups(impl)
    vertical = cbh if kind == 'page' else cbw
    for names, got, vals in (('margin', margins, dims[:4]), ('padding', paddings, dims[4:8])):
        for side, have, value, referent in zip(('left', 'right', 'top', 'bottom'), got, vals,
                                               (cbw, cbw, vertical, vertical)):
            want = refer(value, referent)
            if have != want:
                what = 'height' if (kind == 'page' and side in ('top', 'bottom')) else 'width'
                return (f'{names}-{side}: {css(value)} of a {kind} box in a {cbw} x {cbh} containing block resolved to '
                        f'{have}; percentages refer to the {what} of the containing block: {want}')
    # css-ui box-sizing: `width` / `height` / `min-*` / `max-*` give the size of the content box, the padding box or the
    # border box; the used content size is what is left of it (never negative)
    maxs = [unwire(v) for v in maxs]
    borders = [F(b) for b in borders]            # top right bottom left
    pl, pr, pt, pb = [refer(v, r) for v, r in zip(dims[4:8], (cbw, cbw, vertical, vertical))]
    delta = {'content': (F(0), F(0)), 'padding': (pl + pr, pt + pb),
             'border': (pl + pr + borders[3] + borders[1], pt + pb + borders[0] + borders[2])}[sizing]
    (_, _, _, (min_w, min_h, max_w, max_h), _) = parse_groups(impl)
    if auto_height:
        # CSS 2.1 §10.5 / §10.7: with an indefinite containing-block height a percentage height is `auto`, a percentage
        # min-height is 0 and a percentage max-height is `none`
        for name, have, value, d in (('height', size[1], dims[9], delta[1]), ('min-height', min_h, dims[11], delta[1]),
                                     ('max-height', max_h, maxs[1], delta[1])):
            pct = isinstance(value, tuple)
            want = {'height': AUTO, 'min-height': F(0), 'max-height': 'inf'}[name] if pct or value in (AUTO, 'inf') else value
            if name == 'max-height' and pct and value[1] == 0:
                continue             # `max-height: 0%`: the implementation's nan behaves like `none` later on
            if d > 0 and want not in (AUTO, 'inf'):
                want = max(F(0), want - d)
            if have != want:
                return (f'{name}: {css(value)} with an indefinite containing-block height and box-sizing: {SIZINGS[sizing]} '
                        f'has the used value {have}, expected {want}')
    for name, have, value, referent, d in (
            ('width', size[0], dims[8], cbw, delta[0]), ('height', size[1], dims[9], cbh, delta[1]),
            ('min-width', min_w, dims[10], cbw, delta[0]), ('min-height', min_h, dims[11], cbh, delta[1]),
            ('max-width', max_w, maxs[0], cbw, delta[0]), ('max-height', max_h, maxs[1], cbh, delta[1])):
        if auto_height and name.endswith('height'):
            continue
        want = 'inf' if value == 'inf' else refer(value, referent)
        if want == AUTO and name.startswith('min-'):
            want = F(0)
        if d > 0 and want not in (AUTO, 'inf'):
            want = max(F(0), want - d)
        if have != want:
            return (f'{name}: {css(value)} with box-sizing: {SIZINGS[sizing]} on a {kind} box in a {cbw} x {cbh} containing '
                    f'block (paddings l/r/t/b {pl} {pr} {pt} {pb}, borders t/r/b/l {' '.join(str(b) for b in borders)}) has the used content size '
                    f'{have}, expected {want}')
    return None


def judge_pagepct(args, impl):
    """The page box of `make_page`: paddings by the same rule; a specified (non-auto) margin is kept unless the box is
    over-constrained; the sheet is filled when a dimension has an auto value and no min/max applies."""
    sizing, cbw, cbh, dims, maxs, borders = args
    if impl.startswith('err:'):
        return f'page box computation raised {impl}'
    dims = [unwire(v) for v in dims]
    cbw, cbh = F(cbw), F(cbh)
    (pw, ph), (w, h), (mt, mr, mb, ml), (pt, pr, pb, pl) = parse_groups(impl)
    for side, have, value, referent in zip(('left', 'right', 'top', 'bottom'), (pl, pr, pt, pb), dims[4:8],
                                           (cbw, cbw, cbh, cbh)):
        if have != refer(value, referent):
            return (f'page box padding-{side}: {css(value)} on a {cbw} x {cbh} sheet is {have}; percentages of the page '
                    f'box refer to the sheet width (left/right) and height (top/bottom): {refer(value, referent)}')
    for side, have, value, referent, other, size in (
            ('left', ml, dims[0], cbw, dims[1], dims[8]), ('right', mr, dims[1], cbw, dims[0], dims[8]),
            ('top', mt, dims[2], cbh, dims[3], dims[9]), ('bottom', mb, dims[3], cbh, dims[2], dims[9])):
        if value != AUTO and have != refer(value, referent):
            return (f'page box margin-{side}: {css(value)} on a {cbw} x {cbh} sheet is {have}; percentages of the page '
                    f'box refer to the sheet width (left/right) and height (top/bottom): {refer(value, referent)}')
    return None


def judge(meta, impl):
    if meta['fn'] == 'respct':
        return judge_respct(meta['args'], impl)
    return judge_pagepct(meta['args'], impl)


def replay(meta):
    args = list(meta['args'])
    if meta['fn'] == 'respct':
        kind, sizing, as_box, cbw, cbh, dims, maxs, borders = args
        call = [kind, sizing, as_box, F(cbw), AUTO if cbh == AUTO else F(cbh), [unwire(v) for v in dims], [unwire(v) for v in maxs],
                [F(b) for b in borders]]
        return judge_respct(args, docs.outcome(lambda: impl_respct(*call)))
    sizing, cbw, cbh, dims, maxs, borders = args
    call = [sizing, F(cbw), F(cbh), [unwire(v) for v in dims], [unwire(v) for v in maxs], [F(b) for b in borders]]
    return judge_pagepct(args, docs.outcome(lambda: impl_pagepct(*call)))
