"""C20: what is painted for a box whose border-image-source / mask-border-source cannot be loaded (draw/border.py
draw_border, set_mask_border; layout_box_backgrounds), compared with Model/ResourcesPaint.lean.  The painted result is
classified by comparing the page's content stream with reference renderings of the same box (source `none`; no border)."""
from harness import c20_res as R
from harness import docs
from harness.c20_res import Spec, enc
from vlib import sx

BASE = 'http://doc.test/dir/'
GRADIENT = 'linear-gradient(red, blue)'
FAILURES = ['raises', 'html', 'empty', 'truncated', 'unwritable', 'readerror']


def spec_for(mode):
    contents = R.bank()
    if mode == 'ok':
        return Spec('resp', content=contents['png'], string=True, mime='image/png')
    if mode == 'svg':
        return Spec('resp', content=contents['svg'], string=True, mime='image/svg+xml')
    if mode == 'raises':
        return Spec('raises', exc=OSError('connection reset'))
    if mode == 'readerror':
        return Spec('resp', content=contents['png'], string=False, file_obj=(OSError('reset'), False), mime='image/png')
    name = {'html': 'html', 'empty': 'empty', 'truncated': 'png_cut20', 'unwritable': 'tiff_cmyk'}[mode]
    return Spec('resp', content=contents[name], string=True, mime='image/png')


def gen_case(rng, serial):
    def source():
        r = rng.random()
        if r < 0.2:
            return ('none', None)
        if r < 0.3:
            return ('grad', None)
        return ('url', rng.choice(['ok', 'svg'] + FAILURES + FAILURES[:2]))
    border, mask = source(), source()
    if rng.random() < 0.5:
        mask = ('none', None)
    return {'serial': serial, 'visible': rng.random() < 0.85, 'invisible': rng.choice(['hidden', 'collapse']), 'border': border,
            'mask': mask,
            'widths': rng.choice(['2px solid', '2px solid', '3px dashed red', '0 solid', 'none', '2px solid transparent'])}


def table_of(case):
    table = {}
    for which in ('border', 'mask'):
        kind, mode = case[which]
        if kind == 'url':
            table[f'{BASE}{which}{case["serial"]}.png'] = spec_for(mode)
    return table


def html_of(case, border=None, mask=None, widths=None):
    """The box; `border` / `mask` override the source (reference renderings)."""
    def css(which, override):
        kind, _ = case[which]
        if override is not None:
            return override
        return {'none': 'none', 'grad': GRADIENT}.get(kind) or f"url('{which}{case['serial']}.png')"
    widths = case['widths'] if widths is None else widths
    style = (f'border:{widths};border-image-source:{css("border", border)};border-image-slice:1;'
             f'mask-border-source:{css("mask", mask)};mask-border-slice:1;'
             + ('' if case['visible'] else f'visibility:{case.get("invisible", "hidden")};') + 'width:40px;height:20px;background:lime')
    return ('<html><head><style>@page{size:200px 100px;margin:5px}body{margin:0}</style></head><body>'
            f'<div style="{style}">x</div></body></html>')


def render(case, **overrides):
    """-> (fetch log, content streams) or (log, 'err:…')."""
    from harness.c20_doc import painted_streams
    recorder = R.Recorder(table_of(case))
    holder = {}
    try:
        document = docs.html(html_of(case, **overrides), base_url=BASE, url_fetcher=recorder).render()
        document.write_pdf(finisher=lambda doc, pdf: holder.setdefault('pdf', pdf), uncompressed_pdf=True)
    except Exception as exc:  # noqa: BLE001
        return recorder.log(), f'err:{type(exc).__name__}'
    return recorder.log(), painted_streams(holder['pdf'])


def observe(case):
    log, painted = render(case)
    if isinstance(painted, str):
        return f'log={log} {painted}'
    # border: same mask as the case, border source none -> the ordinary borders; and no border at all
    _, with_borders = render(case, border='none')
    # `ordinary`: painted like the box with border-image-source: none (its borders, or nothing)
    border = 'ordinary' if painted == with_borders else 'image'
    _, unmasked = render(case, mask='none')
    return f'log={log} border={border} mask={str(painted != unmasked).lower()}'


def wire(case):
    def source(which):
        kind, _ = case[which]
        return ['url', enc(f'{BASE}{which}{case["serial"]}.png')] if kind == 'url' else kind
    zero = case['widths'] in ('0 solid', 'none')
    return sx.line('boxpaint', R.Recorder(table_of(case)).sx(), [False, None, None], case['visible'], source('border'), zero,
                   source('mask'))


def section(run):
    docs.quiet()
    sec = run.section('box-paint', 'a box with border-image-source / mask-border-source in {none, gradient, url() served, url() '
                      'failing in every mode} x border widths x visibility, rendered and written: fetch log, and what draw_border / '
                      'set_mask_border painted (border image, ordinary borders or nothing; mask or not), read off the content '
                      'stream by comparison with reference renderings; non-trivial = a url() source fails')
    fixed = [{'serial': 0, 'visible': True, 'border': ('url', mode), 'mask': ('none', None), 'widths': '2px solid'}
             for mode in ['ok'] + FAILURES]
    fixed += [{'serial': 0, 'visible': True, 'border': ('none', None), 'mask': ('url', mode), 'widths': '2px solid'}
              for mode in ['ok', 'raises', 'html']]
    cases = fixed + [gen_case(run.rng, i + 1) for i in range(run.n(50, 800))]
    for case in cases:
        failing = any(kind == 'url' and mode in FAILURES for kind, mode in (case['border'], case['mask']))
        sec.add(wire(case), observe(case), meta={'case': case}, nontrivial=failing,
                tags=[f'border-{case["border"][1] or case["border"][0]}', f'mask-{case["mask"][1] or case["mask"][0]}'])


def judge(meta):
    """The clause itself: with the failing url() sources replaced by `none`, the page must be painted the same way."""
    docs.quiet()
    R.bank()
    case = dict(meta['case'])
    case['border'], case['mask'] = tuple(case['border']), tuple(case['mask'])
    _, painted = render(case)
    if isinstance(painted, str):
        if any(kind == 'url' and mode == 'readerror' for kind, mode in (case['border'], case['mask'])):
            return None      # known finding read-error-not-funnelled
        return f'rendering raised {painted[4:]} although every fetch failure is a plain failure mode'
    overrides = {which: 'none' for which in ('border', 'mask')
                 if case[which][0] == 'url' and case[which][1] in FAILURES}
    if not overrides:
        return None
    _, absent = render(case, **overrides)
    if painted != absent:
        names = ' and '.join({'border': 'border-image-source', 'mask': 'mask-border-source'}[w] for w in overrides)
        return (f'a box whose {names} url() cannot be loaded is not painted like the same box with `none` there '
                f'(border: {case["widths"]}): the content streams differ')
    return None
