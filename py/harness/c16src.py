"""Facts the C16 harness needs about the source of the drawing code, read from the working tree (AST) on every run
instead of being copied by hand."""
import ast
import functools

from vlib.paths import REPO


@functools.lru_cache(maxsize=None)
def point2_classes():
    """Box classes whose own background / border `draw_stacking_context` paints at point 2: the tuple of the
    `isinstance(box, (...))` test that guards `set_mask_border / draw_background / draw_border`."""
    tree = ast.parse((REPO / 'weasyprint' / 'draw' / '__init__.py').read_text())
    func = next(n for n in ast.walk(tree) if isinstance(n, ast.FunctionDef) and n.name == 'draw_stacking_context')
    for node in ast.walk(func):
        if not (isinstance(node, ast.If) and isinstance(node.test, ast.Call) and
                isinstance(node.test.func, ast.Name) and node.test.func.id == 'isinstance'):
            continue
        called = {c.func.id for stmt in node.body for c in ast.walk(stmt)
                  if isinstance(c, ast.Call) and isinstance(c.func, ast.Name)}
        if {'draw_background', 'draw_border'} <= called:
            target, classes = node.test.args
            if not (isinstance(target, ast.Name) and target.id == 'box' and isinstance(classes, ast.Tuple)):
                raise ValueError('draw_stacking_context: point 2 is not `isinstance(box, (...))`')
            names = []
            for element in classes.elts:
                if not (isinstance(element, ast.Attribute) and isinstance(element.value, ast.Name) and
                        element.value.id == 'boxes'):
                    raise ValueError('draw_stacking_context: point 2 class that is not `boxes.X`')
                names.append(element.attr)
            return tuple(names)
    raise ValueError('draw_stacking_context: point 2 test not found')
