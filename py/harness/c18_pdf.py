"""A small reader for the uncompressed PDFs written by pydyf (C18 document-level correspondence).

Only the object syntax is parsed (dictionaries, arrays, names, strings, numbers, references);
stream bodies are skipped.  Numbers are returned as `fractions.Fraction` of their decimal text.
"""
import re
from fractions import Fraction


class Ref(int):
    """An indirect reference `N 0 R` (the object number)."""

    def __repr__(self):
        return f'Ref({int(self)})'


class Name(str):
    def __repr__(self):
        return f'/{str(self)}'


class PdfString(str):
    """A string object, decoded as a text string (7.9.2.2); `.raw` keeps the bytes."""
    raw = b''


def _pdf_string(raw):
    text = text_of(raw)
    out = PdfString(text if text is not None else raw.decode('latin-1'))
    out.raw = raw
    return out


_WS = b' \t\r\n\x0c\x00'
_DELIM = b'()<>[]{}/%'


class Parser:
    def __init__(self, data, pos=0):
        self.data, self.pos = data, pos

    def skip_ws(self):
        data = self.data
        while self.pos < len(data):
            c = data[self.pos:self.pos + 1]
            if c in (b' ', b'\t', b'\r', b'\n', b'\x0c', b'\x00'):
                self.pos += 1
            elif c == b'%':
                while self.pos < len(data) and data[self.pos:self.pos + 1] not in (b'\n', b'\r'):
                    self.pos += 1
            else:
                break

    def parse(self):
        self.skip_ws()
        data = self.data
        c = data[self.pos:self.pos + 1]
        if data.startswith(b'<<', self.pos):
            self.pos += 2
            out = {}
            while True:
                self.skip_ws()
                if data.startswith(b'>>', self.pos):
                    self.pos += 2
                    return out
                key = self.parse()
                if not isinstance(key, Name):
                    raise ValueError(f'dictionary key {key!r} at {self.pos}')
                out[str(key)] = self.parse()
        if c == b'[':
            self.pos += 1
            out = []
            while True:
                self.skip_ws()
                if data[self.pos:self.pos + 1] == b']':
                    self.pos += 1
                    return out
                out.append(self.parse())
        if c == b'/':
            m = re.compile(rb'/([^\s()<>\[\]{}/%]*)').match(data, self.pos)
            self.pos = m.end()
            raw = re.sub(rb'#([0-9a-fA-F]{2})', lambda mm: bytes([int(mm.group(1), 16)]), m.group(1))
            return Name(raw.decode('latin-1'))
        if c == b'(':
            return self.literal_string()
        if c == b'<':
            got = read_hex(data, self.pos + 1)
            if got is None:
                raise ValueError(f'bad hexadecimal string at {self.pos}')
            raw, self.pos = got
            return _pdf_string(raw)
        m = re.compile(rb'(\d+)\s+(\d+)\s+R(?![^\s()<>\[\]{}/%])').match(data, self.pos)
        if m:
            self.pos = m.end()
            return Ref(int(m.group(1)))
        m = re.compile(rb'[+-]?(?:\d+\.?\d*|\.\d+)').match(data, self.pos)
        if m:
            self.pos = m.end()
            return Fraction(m.group(0).decode())
        m = re.compile(rb'true|false|null').match(data, self.pos)
        if m:
            self.pos = m.end()
            return {'true': True, 'false': False, 'null': None}[m.group(0).decode()]
        raise ValueError(f'cannot parse at {self.pos}: {data[self.pos:self.pos + 40]!r}')

    def literal_string(self):
        raw = read_literal(self.data, self.pos + 1)
        if raw is None:
            raise ValueError('unterminated string')
        raw, self.pos = raw
        return _pdf_string(raw)


_DOC_ENCODING = {24: 0x2D8, 25: 0x2C7, 26: 0x2C6, 27: 0x2D9, 28: 0x2DD, 29: 0x2DB, 30: 0x2DA, 31: 0x2DC}


def read_literal(data, pos):
    """ISO 32000-1 7.3.4.2, from just after the opening parenthesis -> (bytes, position after `)`) | None.
    (Same reader as `Wp.PdfStr.readLit`; the two are compared by the `pdf-strings` section.)"""
    depth, out = 1, bytearray()
    n = len(data)
    while pos < n:
        c = data[pos]
        pos += 1
        if c == 0x5C:                                   # backslash
            if pos >= n:
                return None
            e = data[pos]
            pos += 1
            table = {0x6E: 10, 0x72: 13, 0x74: 9, 0x62: 8, 0x66: 12}
            if e in table:
                out.append(table[e])
            elif e == 13:                               # line continuation
                if pos < n and data[pos] == 10:
                    pos += 1
            elif e == 10:
                pass
            elif 0x30 <= e <= 0x37:
                value, digits = e - 0x30, 1
                while digits < 3 and pos < n and 0x30 <= data[pos] <= 0x37:
                    value = value * 8 + data[pos] - 0x30
                    pos += 1
                    digits += 1
                out.append(value % 256)
            else:
                out.append(e)
        elif c == 0x28:
            depth += 1
            out.append(c)
        elif c == 0x29:
            depth -= 1
            if depth == 0:
                return bytes(out), pos
            out.append(c)
        elif c == 13:                                   # an unescaped end-of-line reads as LF
            out.append(10)
            if pos < n and data[pos] == 10:
                pos += 1
        else:
            out.append(c)
    return None


def read_hex(data, pos):
    """7.3.4.3, from just after `<` -> (bytes, position after `>`) | None."""
    out, pending = bytearray(), None
    n = len(data)
    while pos < n:
        c = data[pos]
        pos += 1
        if c == 0x3E:
            if pending is not None:
                out.append(pending * 16)
            return bytes(out), pos
        if c in (0, 9, 10, 12, 13, 32):
            continue
        if 0x30 <= c <= 0x39:
            v = c - 0x30
        elif 0x61 <= c <= 0x66:
            v = c - 87
        elif 0x41 <= c <= 0x46:
            v = c - 55
        else:
            return None
        if pending is None:
            pending = v
        else:
            out.append(pending * 16 + v)
            pending = None
    return None


def text_of(raw):
    """7.9.2.2 text string -> str | None (not decodable by this reader)."""
    if raw.startswith(b'\xfe\xff'):
        body = raw[2:]
        if len(body) % 2:
            return None
        try:
            return body.decode('utf-16-be')
        except UnicodeDecodeError:
            return None
    out = []
    for b in raw:
        if b in _DOC_ENCODING:
            out.append(chr(_DOC_ENCODING[b]))
        elif b < 127:
            out.append(chr(b))
        else:
            return None
    return ''.join(out)


_OBJ = re.compile(rb'(\d+) (\d+) obj\n')


class Objects(dict):
    """Object number -> parsed value, parsed on first access from the offsets of the cross-reference table."""

    def __init__(self, data, offsets):
        super().__init__()
        self.data, self.offsets = data, offsets
        ordered = sorted(offsets.values()) + [len(data)]
        self.end = {start: ordered[i + 1] for i, start in enumerate(ordered[:-1])}

    def __missing__(self, number):
        start = self.offsets[number]
        m = _OBJ.match(self.data, start)
        if not m or int(m.group(1)) != number:
            raise ValueError(f'object {number} is not at offset {start}')
        parser = Parser(self.data, m.end())
        value = parser.parse()
        parser.skip_ws()
        if self.data.startswith(b'stream', parser.pos):
            length = value.get('Length')
            begin = parser.pos + len(b'stream')
            if self.data[begin:begin + 2] == b'\r\n':
                begin += 2
            elif self.data[begin:begin + 1] == b'\n':
                begin += 1
            stop = begin + int(length) if isinstance(length, Fraction) else self.data.index(b'endstream', begin)
            value = dict(value, __stream__=self.data[begin:stop])
        self[number] = value
        return value

    def numbers(self):
        return sorted(self.offsets)

    def numbers_with(self, token):
        """Objects whose serialised form (dictionary part) contains `token` — a cheap pre-filter."""
        return [n for n in sorted(self.offsets)
                if self.data.find(token, self.offsets[n], self.end[self.offsets[n]]) >= 0]

    def items(self):
        return [(n, self[n]) for n in self.numbers()]


_XREF_ENTRY = re.compile(rb'(\d{10}) (\d{5}) ([nf])')


def read(data):
    """-> (Objects, trailer dict), from the classic cross-reference table pydyf writes uncompressed."""
    start = int(re.search(rb'startxref\s+(\d+)', data[-200:]).group(1))
    header = re.compile(rb'xref\s+(\d+) (\d+)\s+').match(data, start)
    first, count = int(header.group(1)), int(header.group(2))
    offsets, pos = {}, header.end()
    for i in range(count):
        m = _XREF_ENTRY.match(data, pos)
        if m.group(3) == b'n':
            offsets[first + i] = int(m.group(1))
        pos = m.end()
        while data[pos:pos + 1] in (b' ', b'\r', b'\n'):
            pos += 1
    t = data.find(b'trailer', pos - 2)
    trailer = Parser(data, t + len(b'trailer')).parse() if t >= 0 else {}
    return Objects(data, offsets), trailer


def deref(objects, value):
    while isinstance(value, Ref):
        value = objects[int(value)]
    return value
