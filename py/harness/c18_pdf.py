"""A small reader for the uncompressed PDFs written by pydyf (C18 document-level correspondence).

Only the object syntax is parsed (dictionaries, arrays, names, strings, numbers, references);
stream bodies are skipped.  Numbers are returned as `fractions.Fraction` of their decimal text.
"""
import re
from fractions import Fraction


class Ref(int):
    """An indirect reference `N 0 R` (the object number)."""

    def __repr__(self):
        return f'Ref({int(self)})'


class Name(str):
    def __repr__(self):
        return f'/{str(self)}'


class PdfString(str):
    """A string object, decoded to text (literal: latin-1 bytes / hex: UTF-16-BE with BOM)."""


_WS = b' \t\r\n\x0c\x00'
_DELIM = b'()<>[]{}/%'


class Parser:
    def __init__(self, data, pos=0):
        self.data, self.pos = data, pos

    def skip_ws(self):
        data = self.data
        while self.pos < len(data):
            c = data[self.pos:self.pos + 1]
            if c in (b' ', b'\t', b'\r', b'\n', b'\x0c', b'\x00'):
                self.pos += 1
            elif c == b'%':
                while self.pos < len(data) and data[self.pos:self.pos + 1] not in (b'\n', b'\r'):
                    self.pos += 1
            else:
                break

    def parse(self):
        self.skip_ws()
        data = self.data
        c = data[self.pos:self.pos + 1]
        if data.startswith(b'<<', self.pos):
            self.pos += 2
            out = {}
            while True:
                self.skip_ws()
                if data.startswith(b'>>', self.pos):
                    self.pos += 2
                    return out
                key = self.parse()
                if not isinstance(key, Name):
                    raise ValueError(f'dictionary key {key!r} at {self.pos}')
                out[str(key)] = self.parse()
        if c == b'[':
            self.pos += 1
            out = []
            while True:
                self.skip_ws()
                if data[self.pos:self.pos + 1] == b']':
                    self.pos += 1
                    return out
                out.append(self.parse())
        if c == b'/':
            m = re.compile(rb'/([^\s()<>\[\]{}/%]*)').match(data, self.pos)
            self.pos = m.end()
            raw = re.sub(rb'#([0-9a-fA-F]{2})', lambda mm: bytes([int(mm.group(1), 16)]), m.group(1))
            return Name(raw.decode('latin-1'))
        if c == b'(':
            return self.literal_string()
        if c == b'<':
            end = data.index(b'>', self.pos)
            hexa = re.sub(rb'\s', b'', data[self.pos + 1:end])
            self.pos = end + 1
            raw = bytes.fromhex(hexa.decode() + ('0' if len(hexa) % 2 else ''))
            if raw.startswith(b'\xfe\xff'):
                return PdfString(raw[2:].decode('utf-16-be', errors='surrogatepass'))
            return PdfString(raw.decode('latin-1'))
        m = re.compile(rb'(\d+)\s+(\d+)\s+R(?![^\s()<>\[\]{}/%])').match(data, self.pos)
        if m:
            self.pos = m.end()
            return Ref(int(m.group(1)))
        m = re.compile(rb'[+-]?(?:\d+\.?\d*|\.\d+)').match(data, self.pos)
        if m:
            self.pos = m.end()
            return Fraction(m.group(0).decode())
        m = re.compile(rb'true|false|null').match(data, self.pos)
        if m:
            self.pos = m.end()
            return {'true': True, 'false': False, 'null': None}[m.group(0).decode()]
        raise ValueError(f'cannot parse at {self.pos}: {data[self.pos:self.pos + 40]!r}')

    def literal_string(self):
        data = self.data
        assert data[self.pos:self.pos + 1] == b'('
        self.pos += 1
        depth, out = 1, bytearray()
        while True:
            c = data[self.pos:self.pos + 1]
            if not c:
                raise ValueError('unterminated string')
            self.pos += 1
            if c == b'\\':
                n = data[self.pos:self.pos + 1]
                self.pos += 1
                table = {b'n': b'\n', b'r': b'\r', b't': b'\t', b'b': b'\b', b'f': b'\f',
                         b'(': b'(', b')': b')', b'\\': b'\\'}
                if n in table:
                    out += table[n]
                elif n.isdigit():
                    digits = n
                    while len(digits) < 3 and data[self.pos:self.pos + 1].isdigit():
                        digits += data[self.pos:self.pos + 1]
                        self.pos += 1
                    out.append(int(digits, 8) & 0xff)
                elif n in (b'\n', b'\r'):
                    pass
                else:
                    out += n
            elif c == b'(':
                depth += 1
                out += c
            elif c == b')':
                depth -= 1
                if depth == 0:
                    return PdfString(bytes(out).decode('latin-1'))
                out += c
            else:
                out += c


_OBJ = re.compile(rb'(?:^|\n)(\d+) (\d+) obj\n')


def read(data):
    """-> ({object number: parsed value}, trailer dict)."""
    objects = {}
    pos = 0
    while True:
        m = _OBJ.search(data, pos)
        if not m:
            break
        number = int(m.group(1))
        parser = Parser(data, m.end())
        value = parser.parse()
        parser.skip_ws()
        if data.startswith(b'stream', parser.pos):
            length = value.get('Length')
            start = parser.pos + len(b'stream')
            if data[start:start + 2] == b'\r\n':
                start += 2
            elif data[start:start + 1] == b'\n':
                start += 1
            if isinstance(length, Fraction):
                pos = start + int(length)
            else:
                pos = data.index(b'endstream', start)
            value = dict(value, __stream__=True)
        else:
            pos = parser.pos
        objects[number] = value
    t = data.rfind(b'trailer')
    trailer = Parser(data, t + len(b'trailer')).parse() if t >= 0 else {}
    return objects, trailer


def deref(objects, value):
    while isinstance(value, Ref):
        value = objects[int(value)]
    return value
