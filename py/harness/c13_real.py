"""C13: generators, mock objects and callers of the REAL WeasyPrint functions (function level).

Every function returns `(protocol line, implementation output canonicalised like the driver, meta, tags)`.
Numbers are `harness.exactq.Q` (exact rationals that absorb float literals exactly).
"""
import math
from fractions import Fraction

from harness import docs
from harness.exactq import Q, exact
from vlib import sx

INF = math.inf


# ---------------------------------------------------------------------------------------------
# canonical output

def fmt(x):
    """A used value -> the atom the driver prints."""
    if x is None:
        return 'none'
    if isinstance(x, str):
        return x
    if isinstance(x, float) and math.isinf(x):
        return 'inf' if x > 0 else '-inf'
    x = exact(x)
    return str(x.numerator) if x.denominator == 1 else f'{x.numerator}/{x.denominator}'


def fmt_pair(p):
    return f'{fmt(p[0])} {fmt(p[1])}'


def fmt_rect(r):
    return '(' + ' '.join(fmt(v) for v in r) + ')'


def ok(text):
    return 'ok ' + text


# ---------------------------------------------------------------------------------------------
# value generators

def small(rng):
    """A 'CSS-like' non-negative length."""
    k = rng.random()
    if k < 0.45:
        return Q(rng.randint(0, 300))
    if k < 0.8:
        return Q(rng.randint(0, 1200), rng.choice([2, 3, 4, 7, 8, 16]))
    if k < 0.9:
        return Q(rng.randint(1, 40))
    return Q(0)


def positive(rng):
    v = small(rng)
    return v if v > 0 else Q(rng.randint(1, 64))


def nasty(rng):
    """Adversarial stream: zeros, negatives, tiny, huge."""
    return rng.choice([
        Q(0), Q(0), Q(-rng.randint(1, 50)), Q(-1, 3), Q(10 ** 9), Q(1, 10 ** 6), Q(rng.randint(-5, 5)),
        Q(1), Q(2 ** 40, 3)])


def length(rng, adversarial):
    if adversarial and rng.random() < 0.45:
        return nasty(rng)
    return small(rng)


def intrinsic(rng, adversarial):
    """(width, height, ratio), each possibly None; ratio consistent with w/h most of the time."""
    w = None if rng.random() < 0.35 else (length(rng, adversarial) if adversarial else positive(rng))
    h = None if rng.random() < 0.35 else (length(rng, adversarial) if adversarial else positive(rng))
    k = rng.random()
    if k < 0.25:
        r = None
    elif k < 0.75 and w is not None and h is not None and h != 0:
        r = Q(w) / Q(h)
    else:
        r = Q(rng.randint(1, 12), rng.randint(1, 12))
    if adversarial and rng.random() < 0.25:
        r = rng.choice([Q(0), Q(-2), Q(1, 10 ** 6), Q(10 ** 6)])
    return w, h, r


def maybe_auto(rng, value, p=0.4):
    return 'auto' if rng.random() < p else value


def min_max(rng, adversarial):
    """(min, max) used values: mostly 0 / inf, sometimes crossing."""
    lo = Q(0) if rng.random() < 0.5 else small(rng)
    hi = INF if rng.random() < 0.45 else small(rng)
    if adversarial and rng.random() < 0.3:
        lo = nasty(rng)
    if adversarial and rng.random() < 0.3:
        hi = nasty(rng)
    return lo, hi


class StubImage:
    """Stands for any image class: only `get_intrinsic_size` (and `draw`) are used by the callers."""

    def __init__(self, size):
        self.size = size
        self.draws = []

    def get_intrinsic_size(self, resolution, font_size):
        return self.size

    def draw(self, stream, concrete_width, concrete_height, image_rendering):
        self.draws.append((stream, concrete_width, concrete_height, image_rendering))


def dimension(value, unit):
    from weasyprint.css.properties import Dimension
    return Dimension(value, unit)


def gen_dim(rng, adversarial=False):
    if rng.random() < 0.5:
        return ('%', rng.choice([Q(0), Q(25), Q(50), Q(100), Q(rng.randint(0, 100)), Q(rng.randint(-50, 250), 3)]))
    return ('px', length(rng, adversarial) if rng.random() < 0.8 else -small(rng))


def dim_wire(d):
    return 'auto' if d == 'auto' else [d[0], d[1]]


def dim_real(d):
    return 'auto' if d == 'auto' else dimension(d[1], d[0])


def gen_position(rng, adversarial=False):
    return (rng.random() < 0.3, gen_dim(rng, adversarial), rng.random() < 0.3, gen_dim(rng, adversarial))


def position_wire(p):
    return [p[0], dim_wire(p[1]), p[2], dim_wire(p[3])]


def position_real(p):
    return ('right' if p[0] else 'left', dim_real(p[1]), 'bottom' if p[2] else 'top', dim_real(p[3]))


# ---------------------------------------------------------------------------------------------
# A. concrete object size

def case_default_sizing(rng, adversarial):
    from weasyprint.layout import replaced
    iw, ih, ir = intrinsic(rng, adversarial)
    sw = rng.choice(['auto', None, length(rng, adversarial), length(rng, adversarial)])
    sh = rng.choice(['auto', None, length(rng, adversarial), length(rng, adversarial)])
    dw, dh = length(rng, adversarial), length(rng, adversarial)
    out = docs.outcome(lambda: ok(fmt_pair(replaced.default_image_sizing(iw, ih, ir, sw, sh, dw, dh))))
    line = sx.line('dis', [iw, ih, ir], sw, sh, dw, dh)
    nontrivial = sw in ('auto', None) or sh in ('auto', None)
    tags = ['dis:' + ('err' if out.startswith('err') else
                      ('both' if not nontrivial else 'w' if sw not in ('auto', None) else
                       'h' if sh not in ('auto', None) else 'none'))]
    return line, out, {'fn': 'default_image_sizing', 'args': [iw, ih, ir, sw, sh, dw, dh]}, nontrivial, tags


def case_constraint(rng, adversarial):
    from weasyprint.layout import replaced
    cw, ch = length(rng, adversarial), length(rng, adversarial)
    ratio = intrinsic(rng, adversarial)[2]
    cover = rng.random() < 0.5
    fn = replaced.cover_constraint_image_sizing if cover else replaced.contain_constraint_image_sizing
    out = docs.outcome(lambda: ok(fmt_pair(fn(cw, ch, ratio))))
    line = sx.line('constraint', cw, ch, ratio, cover)
    return (line, out, {'fn': 'constraint', 'args': [cw, ch, ratio, cover]}, ratio is not None,
            ['constraint:' + ('err' if out.startswith('err') else 'cover' if cover else 'contain')])


# ---------------------------------------------------------------------------------------------
# geometry of a laid-out box

GEOM_FIELDS = ('position_x', 'position_y', 'margin_top', 'margin_right', 'margin_bottom', 'margin_left',
               'border_top_width', 'border_right_width', 'border_bottom_width', 'border_left_width',
               'padding_top', 'padding_right', 'padding_bottom', 'padding_left', 'width', 'height')


def gen_geom(rng, adversarial, plain=False):
    g = {}
    for name in GEOM_FIELDS:
        if name in ('width', 'height'):
            g[name] = length(rng, adversarial)
        elif name.startswith('position'):
            g[name] = Q(rng.randint(0, 200)) if rng.random() < 0.8 else Q(rng.randint(-100, 100), 4)
        elif plain or rng.random() < 0.5:
            g[name] = Q(0)
        elif name.startswith('margin'):
            g[name] = Q(rng.randint(-10, 40), rng.choice([1, 2]))
        else:
            g[name] = Q(rng.randint(0, 20), rng.choice([1, 2, 4]))
    return g


def geom_wire(g):
    return [g[name] for name in GEOM_FIELDS]


def apply_geom(box, g):
    for name, value in g.items():
        setattr(box, name, value)
    return box


FITS = ('fill', 'contain', 'cover', 'none', 'scale-down')


def case_replacedbox_layout(rng, adversarial):
    from weasyprint.formatting_structure import boxes
    from weasyprint.layout import replaced
    g = gen_geom(rng, adversarial)
    fit = rng.choice(FITS) if rng.random() < 0.97 else 'bogus'
    pos = gen_position(rng, adversarial)
    intr = intrinsic(rng, adversarial)
    style = {'object_fit': fit, 'object_position': (position_real(pos),), 'image_resolution': Q(1),
             'font_size': Q(16)}
    box = apply_geom(boxes.InlineReplacedBox('img', style, None, StubImage(intr)), g)
    out = docs.outcome(lambda: ok(' '.join(fmt(v) for v in replaced.replacedbox_layout(box))))
    line = sx.line('rlayout', geom_wire(g), fit, position_wire(pos), list(intr))
    return (line, out, {'fn': 'replacedbox_layout', 'geom': g, 'fit': fit, 'pos': pos, 'intr': intr},
            fit != 'fill', [f'fit:{fit}' + (':err' if out.startswith('err') else '')])


# ---------------------------------------------------------------------------------------------
# C. used width / height

RBOX_FIELDS = ('width', 'height', 'margin_left', 'margin_right', 'margin_top', 'margin_bottom',
               'padding_left', 'padding_right', 'border_left_width', 'border_right_width',
               'min_width', 'max_width', 'min_height', 'max_height', 'position_x', 'is_column')
RBOX_OUT = ('width', 'height', 'margin_left', 'margin_right', 'margin_top', 'margin_bottom', 'position_x')


def gen_rbox(rng, adversarial, numeric_size=False):
    b = {}
    b['width'] = length(rng, adversarial) if numeric_size else maybe_auto(rng, length(rng, adversarial), 0.5)
    b['height'] = length(rng, adversarial) if numeric_size else maybe_auto(rng, length(rng, adversarial), 0.5)
    for name in ('margin_left', 'margin_right', 'margin_top', 'margin_bottom'):
        b[name] = maybe_auto(rng, Q(rng.randint(-10, 60), rng.choice([1, 1, 2, 3])), 0.3)
    for name in ('padding_left', 'padding_right', 'border_left_width', 'border_right_width'):
        b[name] = Q(0) if rng.random() < 0.5 else Q(rng.randint(0, 24), rng.choice([1, 2]))
    b['min_width'], b['max_width'] = min_max(rng, adversarial)
    b['min_height'], b['max_height'] = min_max(rng, adversarial)
    b['position_x'] = Q(rng.randint(0, 100))
    b['is_column'] = rng.random() < 0.1
    return b


def rbox_wire(b):
    return [b[name] for name in RBOX_FIELDS]


def make_rbox(b, intr, block=False, style_auto=None):
    from weasyprint.formatting_structure import boxes
    cls = boxes.BlockReplacedBox if block else boxes.InlineReplacedBox
    style = {'image_resolution': Q(1), 'font_size': Q(16), 'float': 'none', 'position': 'static',
             'direction': 'ltr'}
    if style_auto is not None:
        # only `== 'auto'` is asked of the computed values
        style['width'] = style['height'] = 'auto'
        if not style_auto:
            style['width'] = dimension(Q(1), 'px')
    box = cls('img', style, None, StubImage(intr))
    for name, value in b.items():
        setattr(box, name, value)
    for name in ('padding_top', 'padding_bottom', 'border_top_width', 'border_bottom_width'):
        setattr(box, name, Q(0))
    box.position_y = Q(0)
    return box


def gen_cb(rng, adversarial):
    return (length(rng, adversarial) if rng.random() < 0.9 else Q(0), rng.random() < 0.25)


def make_cb(cb, as_tuple=False):
    """The containing block: a real BlockBox, or (for ltr) the tuple form some callers pass."""
    from weasyprint.formatting_structure import boxes
    width, rtl = cb
    if as_tuple and not rtl:
        return (width, Q(1000))
    box = boxes.BlockBox('div', {'direction': 'rtl' if rtl else 'ltr'}, None, [])
    box.width = width
    box.height = Q(1000)
    box.position_x = box.position_y = Q(0)
    box.margin_left = box.padding_left = box.border_left_width = Q(0)
    box.margin_top = box.padding_top = box.border_top_width = Q(0)
    return box


def rbox_out(box):
    if box.height is None:
        # Python stored None in box.height: every caller's next statement compares it (TypeError);
        # the model raises at the store.
        return 'err:TypeError'
    return ok(' '.join(fmt(getattr(box, name)) for name in RBOX_OUT))


USED_SIZE_FUNCS = ('blwcore', 'blw', 'rbwcore', 'rbw', 'rbhcore', 'rbh', 'mmar', 'irwh', 'irl', 'brwcore',
                   'brw', 'brl')


def call_used_size(fn, b, intr, cb, style_auto, as_tuple, cb_content_x=Q(0), position_y=Q(0)):
    """Call the real function `fn` on fresh mock boxes -> canonical output."""
    from weasyprint.layout import block, replaced

    def run():
        box = make_rbox(b, intr, block=fn in ('brwcore', 'brw', 'brl'), style_auto=style_auto)
        cbox = make_cb(cb, as_tuple and fn != 'brl')
        if fn == 'blwcore':
            block.block_level_width.without_min_max(box, cbox)
        elif fn == 'blw':
            block.block_level_width(box, cbox)
        elif fn == 'rbwcore':
            replaced.replaced_box_width.without_min_max(box, cbox)
        elif fn == 'rbw':
            replaced.replaced_box_width(box, cbox)
        elif fn == 'rbhcore':
            replaced.replaced_box_height.without_min_max(box)
        elif fn == 'rbh':
            replaced.replaced_box_height(box)
        elif fn == 'mmar':
            replaced.min_max_auto_replaced(box)
        elif fn == 'irwh':
            replaced.inline_replaced_box_width_height(box, cbox)
        elif fn == 'irl':
            replaced.inline_replaced_box_layout(box, cbox)
        elif fn == 'brwcore':
            replaced.block_replaced_width.without_min_max(box, cbox)
        elif fn == 'brw':
            replaced.block_replaced_width(box, cbox)
        elif fn == 'brl':
            cbox.position_x = cb_content_x
            box.position_y = position_y

            class Context:
                excluded_shapes = []
            new_box, resume_at, next_page, adjoining, collapsing = replaced.block_replaced_box_layout(
                Context(), box, cbox)
            assert new_box is not box and resume_at is None and adjoining == [] and collapsing is False
            assert next_page == {'break': 'any', 'page': None}
            return rbox_out(new_box) + f' at {fmt(new_box.position_x)} {fmt(new_box.position_y)}'
        else:
            raise AssertionError(fn)
        return rbox_out(box)
    return docs.outcome(run)


def used_size_line(fn, b, intr, cb, style_auto, cb_content_x=Q(0), position_y=Q(0)):
    if fn in ('blwcore', 'blw'):
        return sx.line(fn, rbox_wire(b), list(cb))
    if fn in ('rbwcore', 'rbw', 'brwcore', 'brw'):
        return sx.line(fn, list(intr), list(cb), rbox_wire(b))
    if fn in ('rbhcore', 'rbh'):
        return sx.line(fn, list(intr), rbox_wire(b))
    if fn == 'mmar':
        return sx.line(fn, rbox_wire(b))
    if fn in ('irwh', 'irl'):
        return sx.line(fn, style_auto, list(intr), list(cb), rbox_wire(b))
    if fn == 'brl':
        return sx.line(fn, style_auto, list(intr), list(cb), cb_content_x, position_y, rbox_wire(b))
    raise AssertionError(fn)


def case_used_size(rng, adversarial, fn=None):
    fn = fn or rng.choice(USED_SIZE_FUNCS)
    intr = intrinsic(rng, adversarial)
    b = gen_rbox(rng, adversarial, numeric_size=(fn == 'mmar' and rng.random() < 0.95))
    if fn in ('rbhcore', 'rbh') and rng.random() < 0.9:
        # in the pipeline the used width is set before the height is computed
        b['width'] = length(rng, adversarial)
    if fn == 'mmar' and rng.random() < 0.5:
        # make violations likely
        b['min_width'], b['max_width'] = small(rng), rng.choice([INF, small(rng)])
        b['min_height'], b['max_height'] = small(rng), rng.choice([INF, small(rng)])
    cb = gen_cb(rng, adversarial)
    # computed width/height both auto <=> used ones auto, except height: % on an auto-height block
    both_auto = b['width'] == 'auto' and b['height'] == 'auto'
    style_auto = both_auto if rng.random() < 0.9 else not both_auto
    as_tuple = rng.random() < 0.3
    cx, py = Q(rng.randint(0, 50)), Q(rng.randint(0, 50))
    if fn == 'brl':
        for name in ('margin_top', 'margin_bottom'):
            if b[name] == 'auto':
                b[name] = Q(0)       # block_level_layout resolves auto vertical margins before the switch
    out = call_used_size(fn, b, intr, cb, style_auto, as_tuple, cx, py)
    line = used_size_line(fn, b, intr, cb, style_auto, cx, py)
    meta = {'fn': fn, 'box': b, 'intr': intr, 'cb': cb, 'style_auto': style_auto, 'as_tuple': as_tuple,
            'cx': cx, 'py': py}
    nontrivial = 'auto' in (b['width'], b['height']) or fn in ('mmar', 'blw', 'blwcore')
    tag = fn + (':err' if out.startswith('err') else '')
    return line, out, meta, nontrivial, [tag]


# ---------------------------------------------------------------------------------------------
# D / E. backgrounds: layout_box_backgrounds -> layout_background_layer, draw_background_image

AREAS = ('border-box', 'padding-box', 'content-box')
REPEATS = ('repeat', 'no-repeat', 'space', 'round')


def gen_bg_size(rng, adversarial):
    k = rng.random()
    if k < 0.2:
        return 'cover'
    if k < 0.4:
        return 'contain'

    def one():
        if rng.random() < 0.4:
            return 'auto'
        if rng.random() < 0.5:
            return ('%', rng.choice([Q(0), Q(10), Q(25), Q(50), Q(100), Q(rng.randint(1, 200), 3)]))
        v = small(rng)
        if adversarial and rng.random() < 0.3:
            v = Q(0)
        return ('px', v)
    return (one(), one())


def bg_size_wire(size):
    return size if isinstance(size, str) else [dim_wire(size[0]), dim_wire(size[1])]


def bg_size_real(size):
    return size if isinstance(size, str) else (dim_real(size[0]), dim_real(size[1]))


def gen_bg_intrinsic(rng, adversarial):
    """Background images: raster (all three known), gradients (all None), SVG-like (any)."""
    k = rng.random()
    if k < 0.5:
        w, h = positive(rng), positive(rng)
        return (w, h, Q(w) / Q(h))
    if k < 0.6:
        return (None, None, None)
    intr = intrinsic(rng, adversarial)
    if adversarial and rng.random() < 0.3:
        intr = (Q(0), intr[1], intr[2])
    return intr


def base_style():
    from tinycss2.color4 import parse_color
    zero = dimension(0, 'px')
    style = {
        'border_image_source': ('none', None), 'mask_border_source': ('none', None), 'visibility': 'visible',
        'image_orientation': 'none', 'background_color': parse_color('transparent'),
        'image_resolution': Q(1), 'image_rendering': 'auto', 'font_size': Q(16), 'direction': 'ltr',
        'float': 'none', 'position': 'static'}
    for corner in ('top_left', 'top_right', 'bottom_right', 'bottom_left'):
        style[f'border_{corner}_radius'] = (zero, zero)
    for side in ('top', 'right', 'bottom', 'left'):
        style[f'bleed_{side}'] = dimension(Q(0), 'px')
    return style


def gen_layer(rng, adversarial):
    return {
        'image': None if rng.random() < 0.05 else gen_bg_intrinsic(rng, adversarial),
        'size': gen_bg_size(rng, adversarial),
        'clip': rng.choice(AREAS), 'origin': rng.choice(AREAS),
        'repeat': (rng.choice(REPEATS), rng.choice(REPEATS)),
        'position': gen_position(rng, adversarial),
        'fixed': rng.random() < 0.15,
    }


def layer_line(cmd, g, kind, page_g, layer):
    image = layer['image']
    return sx.line(
        cmd, geom_wire(g), kind, geom_wire(page_g), 'none' if image is None else list(image),
        bg_size_wire(layer['size']), layer['clip'], layer['repeat'][0], layer['repeat'][1], layer['origin'],
        position_wire(layer['position']), layer['fixed'])


def layer_out(layer):
    """A real BackgroundLayer -> what `showLayer` prints."""
    text = 'painting ' + fmt_rect(layer.painting_area) + ' '
    if layer.image is None:
        assert layer.size == layer.position == layer.repeat == layer.positioning_area == 'unused'
        return text + 'image none'
    assert layer.unbounded is False
    return (text + f'size ({fmt_pair(layer.size)}) position ({fmt_pair(layer.position)}) positioning ' +
            fmt_rect(layer.positioning_area))


def stream_tokens(stream):
    """Operators of a pydyf stream as strings."""
    return [item.decode('ascii') if isinstance(item, bytes) else str(item) for item in stream.stream]


def new_resources():
    import pydyf
    return pydyf.Dictionary({
        'ExtGState': pydyf.Dictionary(), 'XObject': pydyf.Dictionary(), 'Pattern': pydyf.Dictionary(),
        'Shading': pydyf.Dictionary(), 'ColorSpace': pydyf.Dictionary(), 'Font': pydyf.Dictionary()})


def new_stream(resources=None, images=None, rectangle=(0, 0, 1000, 1000)):
    from weasyprint.pdf.stream import Stream
    return Stream({}, rectangle, new_resources() if resources is None else resources,
                  {} if images is None else images, False, compress=False)


def draw_out(layer, rendering='auto'):
    """Call the real draw_background_image -> what `showBgDraw` prints."""
    from weasyprint.draw import draw_background_image
    stream = new_stream()
    image = layer.image
    if image is not None:
        image.draws.clear()
    draw_background_image(stream, layer, rendering)
    ops = stream_tokens(stream)
    resources = stream._resources
    if not ops:
        assert image is None or not image.draws
        return 'nothing'
    (target, width, height, rend), = image.draws
    assert rend == rendering
    if len(resources['Pattern']) == 0:
        # clip to the painting area, group translated
        group, = resources['XObject'].values()
        assert target is group and ops[-1] == f'/{group.id} Do' and ops[1:3] == ['W', 'n'], ops
        rect = ops[0].split()
        assert rect[-1] == 're'
        a, b, c, d, e, f, cm = stream_tokens(group)[0].split()
        assert (a, b, c, d, cm) == ('1', '0', '0', '1', 'cm')
        return f'single ({" ".join(rect[:4])}) {e} {f} {fmt(width)} {fmt(height)}'
    pattern, = resources['Pattern'].values()
    group, = pattern._resources['XObject'].values()
    assert target is group
    assert stream_tokens(pattern) == [f'/{group.id} Do']
    bbox = list(pattern.extra['BBox'])
    assert bbox[0] == 0 and bbox[1] == 0
    gbox = list(group.extra['BBox'])
    assert gbox[0] == 0 and gbox[1] == 0 and gbox[2] == pattern.extra['XStep'] and gbox[3] == pattern.extra['YStep']
    a, b, c, d, e, f = list(pattern.extra['Matrix'])
    assert (a, b, c, d) == (1, 0, 0, 1)
    assert ops[0] == 'q' and ops[-1] == 'Q' and ops[-2] == 'f' and ops[1] == '/Pattern cs', ops
    assert ops[2] == f'/{pattern.id} scn'
    rect = ops[3].split()
    assert rect[-1] == 're'
    assert (fmt(bbox[2]), fmt(bbox[3])) == (fmt(width), fmt(height))
    return (f'pattern ({" ".join(rect[:4])}) {fmt(e)} {fmt(f)} {fmt(width)} {fmt(height)} '
            f'{fmt(pattern.extra["XStep"])} {fmt(pattern.extra["YStep"])}')


def case_backgrounds(rng, adversarial):
    """A plain box (or the page itself) with 1-3 layers through the real layout_box_backgrounds.
    Returns a list of cases (one bglayer + one bgdraw line per layer)."""
    from weasyprint.formatting_structure import boxes
    from weasyprint.layout import background
    layers = [gen_layer(rng, adversarial) for _ in range(rng.choice([1, 1, 2, 3]))]
    # properties cycle independently of the number of images
    n_props = rng.choice([1, len(layers)])
    style = base_style()
    images = [None if l['image'] is None else StubImage(l['image']) for l in layers]
    style['background_image'] = [('none', None) if im is None else ('stub', im) for im in images]
    used = [layers[i % n_props] for i in range(len(layers))]
    for i, l in enumerate(layers):
        for key in ('size', 'clip', 'origin', 'repeat', 'position', 'fixed'):
            l[key] = used[i][key]
    style['background_size'] = [bg_size_real(l['size']) for l in layers[:n_props]]
    style['background_clip'] = [l['clip'] for l in layers[:n_props]]
    style['background_origin'] = [l['origin'] for l in layers[:n_props]]
    style['background_repeat'] = [l['repeat'] for l in layers[:n_props]]
    style['background_position'] = [position_real(l['position']) for l in layers[:n_props]]
    style['background_attachment'] = ['fixed' if l['fixed'] else 'scroll' for l in layers[:n_props]]
    page_g = gen_geom(rng, False)
    bleeds = [Q(rng.choice([0, 0, 3, 10])) for _ in range(4)]
    page_style = base_style()
    is_page = rng.random() < 0.15
    if is_page:
        page_style = style
    for side, value in zip(('top', 'right', 'bottom', 'left'), bleeds):
        page_style[f'bleed_{side}'] = dimension(value, 'px')
    page = apply_geom(boxes.PageBox('page', page_style), page_g)
    if is_page:
        box, g, kind = page, page_g, ['page'] + bleeds
    else:
        g = gen_geom(rng, adversarial)
        box = apply_geom(boxes.BlockBox('div', style, None, []), g)
        kind = 'plain'

    def run():
        background.layout_box_backgrounds(page, box, None, layout_children=False)
        return box.background
    result = docs.outcome(run)
    cases = []
    for i, l in enumerate(layers):
        meta = {'fn': 'layout_box_backgrounds', 'geom': g, 'kind': kind, 'page': page_g, 'layer': l, 'index': i}
        tags = [f'bg:{l["size"] if isinstance(l["size"], str) else "explicit"}',
                f'bg:rx-{l["repeat"][0]}', f'bg:ry-{l["repeat"][1]}'] + (['bg:page'] if is_page else [])
        nontrivial = l['image'] is not None
        if isinstance(result, str):
            # one layer raised: the model must raise on at least that layer; compare layer by layer through
            # direct calls below instead
            out = direct_layer(box, page, l, images[i])
        elif result is None:
            out = 'ok painting ' + fmt_rect((0, 0, 0, 0)) + ' image none'     # no image at all: background None
            if any(l2['image'] is not None for l2 in layers):
                out = 'background-none-with-images'
            else:
                continue
        else:
            out = ok(layer_out(result.layers[i]))
        cases.append((layer_line('bglayer', g, kind, page_g, l), out, meta, nontrivial, tags))
        if not isinstance(result, str) and result is not None:
            dout = docs.outcome(lambda: ok(draw_out(result.layers[i])))
            cases.append((layer_line('bgdraw', g, kind, page_g, l), dout, dict(meta, fn='draw_background_image'),
                          nontrivial, ['bgdraw:' + dout.split()[1] if dout.startswith('ok') else 'bgdraw:err']))
    return cases


def direct_layer(box, page, l, image):
    from weasyprint.layout import background
    return docs.outcome(lambda: ok(layer_out(background.layout_background_layer(
        box, page, Q(1), image, bg_size_real(l['size']), l['clip'], l['repeat'], l['origin'],
        position_real(l['position']), 'fixed' if l['fixed'] else 'scroll'))))


def build_layer_boxes(g, kind, page_g):
    """Real boxes for the abstract `kind` of the protocol (plain / page / table parts)."""
    from weasyprint.formatting_structure import boxes
    style = base_style()
    page_style = base_style()
    if isinstance(kind, list) and kind[0] == 'page':
        for side, value in zip(('top', 'right', 'bottom', 'left'), kind[1:]):
            page_style[f'bleed_{side}'] = dimension(value, 'px')
        page = apply_geom(boxes.PageBox('page', page_style), page_g)
        return page, page
    page = apply_geom(boxes.PageBox('page', page_style), page_g)
    if kind == 'plain':
        box = boxes.BlockBox('div', style, None, [])
    elif kind[0] == 'rowgroup':
        box = boxes.TableRowGroupBox('tbody', style, None, [
            boxes.TableRowBox('tr', style, None, [make_cell(c) for c in row]) for row in kind[1]])
    elif kind[0] == 'row':
        box = boxes.TableRowBox('tr', style, None, [make_cell(c) for c in kind[1]])
    else:
        cells = [make_cell(c) for c in kind[1]]
        box = boxes.TableColumnBox('col', style, None, [])
        box.get_cells = lambda: cells
    for corner in ('top_left', 'top_right', 'bottom_right', 'bottom_left'):
        setattr(box, f'border_{corner}_radius', (0, 0))       # what resolve_radii_percentages does
    return apply_geom(box, g), page


def call_layer(cmd, g, kind, page_g, l):
    """`bglayer` / `bgdraw` by a direct call of layout_background_layer (+ draw_background_image)."""
    from weasyprint.layout import background
    box, page = build_layer_boxes(g, kind, page_g)
    image = None if l['image'] is None else StubImage(tuple(l['image']))

    def run():
        layer = background.layout_background_layer(
            box, page, Q(1), image, bg_size_real(l['size']), l['clip'], tuple(l['repeat']), l['origin'],
            position_real(l['position']), 'fixed' if l['fixed'] else 'scroll')
        return ok(layer_out(layer) if cmd == 'bglayer' else draw_out(layer))
    return docs.outcome(run)


def regression_background_round_zero_size():
    """Fixed finding background-round-zero-size (5dce5fa): `background-repeat: round` with a zero-wide / high
    tile (background-size: 0 auto, 10px 0, a percentage of an empty area) raised ZeroDivisionError.
    -> regression cases through the ordinary `bglayer` / `bgdraw` lines."""
    g = dict(zip(GEOM_FIELDS, [Q(0)] * 14 + [Q(100), Q(50)]))
    empty = dict(zip(GEOM_FIELDS, [Q(0)] * 14 + [Q(0), Q(50)]))
    cases = []
    for geom, size, repeat in ((g, (('px', Q(0)), 'auto'), ('round', 'repeat')),
                               (g, (('px', Q(10)), ('px', Q(0))), ('repeat', 'round')),
                               (g, (('px', Q(0)), ('px', Q(0))), ('round', 'round')),
                               (empty, (('%', Q(50)), 'auto'), ('round', 'round'))):
        layer = {'image': (Q(4), Q(4), Q(1)), 'size': size, 'clip': 'border-box', 'origin': 'padding-box',
                 'repeat': repeat, 'position': (False, ('%', Q(0)), False, ('%', Q(0))), 'fixed': False}
        for cmd in ('bglayer', 'bgdraw'):
            cases.append((layer_line(cmd, geom, 'plain', g, layer), call_layer(cmd, geom, 'plain', g, layer),
                          {'fn': 'layout_background_layer', 'regression': 'background-round-zero-size'}, True,
                          ['regression:background-round-zero-size']))
    return cases


def gen_cell(rng):
    return (Q(rng.randint(0, 200)), Q(rng.randint(0, 120), rng.choice([1, 2])), Q(rng.randint(0, 80), rng.choice([1, 2])))


def make_cell(c):
    from weasyprint.formatting_structure import boxes
    cell = boxes.TableCellBox('td', base_style(), None, [])
    for name in GEOM_FIELDS:
        setattr(cell, name, Q(0))
    cell.position_x, cell.width, cell.height = c
    for corner in ('top_left', 'top_right', 'bottom_right', 'bottom_left'):
        setattr(cell, f'border_{corner}_radius', (0, 0))
    return cell


def case_table_background(rng, adversarial):
    """Painting areas of table parts: direct call of layout_background_layer (isinstance dispatch)."""
    from weasyprint.formatting_structure import boxes
    l = gen_layer(rng, adversarial)
    style = base_style()
    g = gen_geom(rng, False)
    which = rng.choice(['rowgroup', 'row', 'column', 'columngroup'])
    if which == 'rowgroup':
        rows = [[gen_cell(rng) for _ in range(rng.choice([0, 1, 2, 3]))] for _ in range(rng.choice([0, 1, 2, 3]))]
        box = boxes.TableRowGroupBox('tbody', style, None, [
            boxes.TableRowBox('tr', style, None, [make_cell(c) for c in row]) for row in rows])
        kind = ['rowgroup', [[list(c) for c in row] for row in rows]]
    elif which == 'row':
        cells = [gen_cell(rng) for _ in range(rng.choice([0, 1, 2, 4]))]
        box = boxes.TableRowBox('tr', style, None, [make_cell(c) for c in cells])
        kind = ['row', [list(c) for c in cells]]
    else:
        cells = [gen_cell(rng) for _ in range(rng.choice([0, 1, 2, 4]))]
        real_cells = [make_cell(c) for c in cells]
        column = boxes.TableColumnBox('col', style, None, [])
        column.get_cells = lambda: real_cells
        if which == 'column':
            box = column
        else:
            box = boxes.TableColumnGroupBox('colgroup', style, None, [column])
        kind = ['column', [list(c) for c in cells]]
    apply_geom(box, g)
    page_g = gen_geom(rng, False)
    page = apply_geom(boxes.PageBox('page', base_style()), page_g)
    image = None if l['image'] is None else StubImage(l['image'])
    out = direct_layer(box, page, l, image)
    meta = {'fn': 'layout_background_layer', 'geom': g, 'kind': kind, 'page': page_g, 'layer': l}
    return layer_line('bglayer', g, kind, page_g, l), out, meta, True, [f'bg:{which}']


# ---------------------------------------------------------------------------------------------
# F. one XObject per distinct image: Stream.add_image / add_group / add_pattern + _use_references

class StubRaster:
    """An image as `Stream.add_image` and `_use_references` see it."""

    def __init__(self, image_id, alpha):
        self.id = image_id
        self.alpha = alpha
        self.calls = []

    def get_x_object(self, interpolate, dpi_ratio):
        import pydyf
        self.calls.append((interpolate, dpi_ratio))
        name = f'i{self.id}{int(interpolate)}'
        extra = pydyf.Dictionary({'Type': '/XObject', 'Subtype': '/Image'})
        x_object = pydyf.Stream([b'x'], extra)
        x_object.c13 = f'(img {name} {str(bool(interpolate)).lower()} {fmt(dpi_ratio)})'
        if self.alpha:
            mask = pydyf.Stream([b'm'], pydyf.Dictionary({'Type': '/XObject', 'Subtype': '/Image'}))
            mask.c13 = f'(mask {name})'
            extra['SMask'] = mask
        return x_object


IMAGE_IDS = ('a', 'b', 'c', '1', '11', '10', 'a1')


def gen_draws(rng, depth, budget):
    draws = []
    for _ in range(rng.choice([1, 2, 3, 4, 5])):
        if budget[0] <= 0:
            break
        budget[0] -= 1
        k = rng.random()
        if k < 0.6 or depth == 0:
            image_id = rng.choice(IMAGE_IDS[:rng.choice([2, 4, 7])])
            ratio = rng.choice([Q(1), Q(1), Q(1, 2), Q(3, 4), Q(rng.randint(1, 99), 100)])
            draws.append(['i', image_id, rng.random() < 0.7, ratio, image_id in ('b', '11')])
        elif k < 0.85:
            draws.append(['g'] + gen_draws(rng, depth - 1, budget))
        else:
            draws.append(['p'] + gen_draws(rng, depth - 1, budget))
    return draws


def execute_draws(draws, stream, stubs, names):
    from weasyprint.matrix import Matrix
    for d in draws:
        if d[0] == 'i':
            _, image_id, interpolate, ratio, alpha = d
            stub = stubs.setdefault(image_id, StubRaster(image_id, alpha))
            names.append(stream.add_image(stub, interpolate, ratio))
        elif d[0] == 'g':
            execute_draws(d[1:], stream.add_group(0, 0, 10, 10), stubs, names)
        else:
            execute_draws(d[1:], stream.add_pattern(0, 0, 1, 1, 1, 1, Matrix()), stubs, names)


def _ref_number(ref):
    text = ref.decode() if isinstance(ref, bytes) else str(ref)
    number, generation, r = text.split()
    assert generation == '0' and r == 'R'
    return int(number)


def dedupe_out(draws, pages):
    import pydyf
    from weasyprint.pdf import _use_references
    from weasyprint.pdf.stream import Stream
    pdf = pydyf.PDF()
    resources = new_resources()
    pdf.add_object(resources)
    images, stubs, names = {}, {}, []
    # the top-level draws are spread over `pages` page streams sharing `resources` and `images`
    streams = [new_stream(resources, images) for _ in range(pages)]
    for stream in streams:
        pdf.add_object(stream)
    for index, d in enumerate(draws):
        execute_draws([d], streams[index * pages // max(1, len(draws))], stubs, names)
    base = len(pdf.objects)
    _use_references(pdf, resources, images)
    objs = []
    for obj in pdf.objects[base:]:
        if hasattr(obj, 'c13'):
            objs.append(obj.c13)
        elif isinstance(obj, Stream):
            objs.append(f'({"group" if obj.id.startswith("x") else "pattern"} {obj.id})')
        elif isinstance(obj, pydyf.Dictionary) and 'XObject' in obj:
            objs.append('res')
        else:
            objs.append('other')
    refs = []

    def walk(res):
        for which in ('XObject', 'Pattern'):
            for key, ref in res[which].items():
                number = _ref_number(ref)
                refs.append(f'({key} {number})')
                target = pdf.objects[number]
                if isinstance(target, Stream):
                    walk(pdf.objects[_ref_number(target.extra['Resources'])])
    walk(resources)

    def tree(res):
        """The Resources dictionary as `showTree` prints it: names in dictionary order, groups / patterns nested."""
        parts = []
        for which in ('XObject', 'Pattern'):
            items = []
            for key, ref in res[which].items():
                target = pdf.objects[_ref_number(ref)]
                if isinstance(target, Stream):
                    items.append(f'({key} {tree(pdf.objects[_ref_number(target.extra["Resources"])])})')
                else:
                    items.append(key)
            parts.append('(' + ' '.join(items) + ')')
        return ' '.join(parts)
    return base, f'objs ({" ".join(objs)}) refs ({" ".join(refs)}) tree {tree(resources)}'


def case_dedupe(rng, adversarial):
    draws = gen_draws(rng, 3 if adversarial else 2, [rng.choice([3, 8, 20])])
    pages = rng.choice([1, 1, 2, 3])
    try:
        base, text = dedupe_out(draws, pages)
        out = ok(text)
    except Exception as exc:  # noqa: BLE001
        base, out = 0, f'err:{type(exc).__name__}'

    def count(ds):
        return sum(1 if d[0] == 'i' else count(d[1:]) for d in ds)

    def names(ds):
        out = set()
        for d in ds:
            out |= {(d[1], d[2])} if d[0] == 'i' else names(d[1:])
        return out
    n_draws, n_names = count(draws), len(names(draws))
    return (sx.line('dedupe', base, draws), out, {'fn': 'dedupe', 'draws': draws, 'pages': pages},
            n_draws > n_names, [f'dedupe:reuse{min(n_draws - n_names, 5)}', f'dedupe:pages{pages}'])


# ---------------------------------------------------------------------------------------------
# G. RasterImage.draw and draw_replacedbox with real RasterImages (Pillow) on a real Stream

_RASTER_CACHE = {}


def raster_image(pw, ph, image_id, dpi):
    """A real weasyprint.images.RasterImage of pw x ph pixels (PNG made by Pillow)."""
    import io
    from PIL import Image
    from weasyprint.images import RasterImage
    key = (pw, ph)
    if key not in _RASTER_CACHE:
        buf = io.BytesIO()
        Image.new('RGB', (pw, ph), (200, 30, 30)).save(buf, 'PNG')
        _RASTER_CACHE[key] = buf.getvalue()
    data = _RASTER_CACHE[key]
    options = {'jpeg_quality': None, 'dpi': dpi, 'optimize_images': False}
    return RasterImage(Image.open(io.BytesIO(data)), image_id, data, None, {}, 'none', options)


def image_ops_out(stream, images_before=()):
    """The `cm … Do` of a stream -> what `showImageOps` prints (without the translate)."""
    ops = stream_tokens(stream)
    dos = [op for op in ops if op.endswith(' Do')]
    if not dos:
        return None, ops
    do, = dos
    name = do.split()[0][1:]
    index = ops.index(do)
    cm = ops[index - 1].split()
    assert cm[-1] == 'cm' and len(cm) == 7
    entry = stream._images[name]
    ratio, = entry['dpi_ratios']
    assert stream._resources['XObject'][name] is None
    text = f'{name} {str(bool(entry["interpolate"])).lower()} {fmt(ratio)} ({" ".join(cm[:6])})'
    return text, ops


def call_raster_draw(image_id, lw, lh, dpi, cw, ch, c00, c11, auto, rendering=None):
    """The real RasterImage.draw; `lw`/`lh` <= 0 stand for a degenerate pixel size (set on the object)."""
    image_id = str(image_id)
    pw, ph = (int(lw) if lw > 0 else 4), (int(lh) if lh > 0 else 4)
    image = raster_image(pw, ph, image_id, dpi)
    if lw <= 0:
        image.width = int(lw)
    if lh <= 0:
        image.height = int(lh)
    rendering = rendering or ('auto' if auto else 'pixelated')
    stream = new_stream()
    stream.transform(a=c00, d=c11)
    del stream.stream[:]

    def run():
        image.draw(stream, cw, ch, rendering)
        text, ops = image_ops_out(stream)
        if text is None:
            assert ops == [] and not stream._images
            return ok('none')
        assert len(ops) == 2
        return ok(text)
    return docs.outcome(run)


def case_raster_draw(rng, adversarial):
    pw, ph = rng.choice([1, 2, 3, 4, 8, 16, 50]), rng.choice([1, 2, 3, 4, 8, 16, 50])
    dpi = rng.choice([None, None, 0, 72, 96, 150, 300, Q(rng.randint(1, 2000), 3)])
    image_id = rng.choice(IMAGE_IDS)
    cw, ch = length(rng, adversarial), length(rng, adversarial)
    c00 = rng.choice([Q(1), Q(3, 4), Q(3, 2), Q(rng.randint(1, 40), 8)])
    c11 = -c00 if rng.random() < 0.8 else rng.choice([Q(1), Q(-2), Q(0)])
    if adversarial and rng.random() < 0.3:
        c00 = rng.choice([Q(0), Q(-1)])
    lw, lh = pw, ph
    if adversarial and rng.random() < 0.2:
        lw = rng.choice([0, -1])          # what Pillow cannot produce: a degenerate pixel size
    rendering = rng.choice(['auto', 'auto', 'pixelated', 'crisp-edges'])
    out = call_raster_draw(image_id, lw, lh, dpi, cw, ch, c00, c11, rendering == 'auto', rendering)
    line = sx.line('rdraw', image_id, lw, lh, dpi, cw, ch, c00, c11, rendering == 'auto')
    return line, out, {'fn': 'RasterImage.draw'}, dpi not in (None, 0), [
        'rdraw:' + ('dpi' if dpi else 'nodpi') + (':err' if out.startswith('err') else '')]


def call_draw_replacedbox(visible, g, fit, pos, res, ratio, image_id, pw, ph, dpi, c00, c11, auto, hidden='hidden'):
    from weasyprint.draw import draw_replacedbox
    from weasyprint.formatting_structure import boxes
    image = raster_image(int(pw), int(ph), str(image_id), dpi)
    assert image.ratio == int(pw) / int(ph) and exact(image.ratio) == ratio
    g = g if isinstance(g, dict) else dict(zip(GEOM_FIELDS, g))
    pos = pos if isinstance(pos[1], tuple) else (pos[0], tuple(pos[1]), pos[2], tuple(pos[3]))
    style = {'object_fit': fit, 'object_position': (position_real(pos),), 'image_resolution': res,
             'font_size': Q(16), 'visibility': 'visible' if visible else hidden,
             'image_rendering': 'auto' if auto else 'pixelated'}
    box = apply_geom(boxes.InlineReplacedBox('img', style, None, image), g)
    stream = new_stream()
    stream.transform(a=c00, d=c11)
    del stream.stream[:]

    def run():
        draw_replacedbox(stream, box)
        text, ops = image_ops_out(stream)
        if text is None:
            assert not stream._images and all(op in ('q', 'Q', '/a1 gs') or op.endswith(' cm') for op in ops), ops
            return ok('none')
        do = next(op for op in ops if op.endswith(' Do'))
        index = ops.index(do)
        # q  /a1 gs  1 0 0 1 x y cm  q  w 0 0 -h 0 h cm  /name Do  Q  Q
        assert ops[:2] == ['q', '/a1 gs'] and ops[3] == 'q' and index == 5 and ops[6:] == ['Q', 'Q'], ops
        translate = ops[2].split()
        assert translate[-1] == 'cm'
        return ok(f'({" ".join(translate[:6])}) {text}')
    return docs.outcome(run)


def case_draw_replacedbox(rng, adversarial):
    pw, ph = rng.choice([1, 2, 3, 4, 8, 16, 50]), rng.choice([1, 2, 3, 4, 8, 16, 50])
    dpi = rng.choice([None, None, None, 96, 300])
    res = rng.choice([Q(1), Q(1), Q(2), Q(1, 2), Q(3), Q(96, 72)])
    image_id = rng.choice(IMAGE_IDS)
    g = gen_geom(rng, adversarial)
    if rng.random() < 0.85:
        g['width'], g['height'] = positive(rng), positive(rng)
    fit = rng.choice(FITS)
    pos = gen_position(rng, adversarial)
    visible = rng.random() < 0.93
    auto = rng.random() < 0.66
    c00 = rng.choice([Q(1), Q(3, 4), Q(3, 2)])
    ratio = Fraction(pw / ph)
    out = call_draw_replacedbox(visible, g, fit, pos, res, ratio, image_id, pw, ph, dpi, c00, -c00, auto,
                                rng.choice(['hidden', 'collapse']))
    line = sx.line('drawrep', visible, geom_wire(g), fit, position_wire(pos), res, ratio, image_id, pw, ph, dpi,
                   c00, -c00, auto)
    return line, out, {'fn': 'draw_replacedbox'}, out != 'ok none', [
        f'drawrep:{fit}' + (':none' if out == 'ok none' else '')]


class _Style(dict):
    parent_style = None


def call_absolute_replaced(b, intr, style_auto, cb_x, cb_y, cb_w, cb_h, left, right, top, bottom):
    from weasyprint.formatting_structure import boxes
    from weasyprint.layout import absolute
    style = _Style({'image_resolution': Q(1), 'font_size': Q(16), 'direction': 'ltr'})
    style['width'] = style['height'] = 'auto'
    if not style_auto:
        style['width'] = dimension(Q(1), 'px')
    box = boxes.BlockReplacedBox('img', style, None, StubImage(tuple(intr)))
    for name, value in b.items():
        setattr(box, name, value)
    for name in ('padding_top', 'padding_bottom', 'border_top_width', 'border_bottom_width'):
        setattr(box, name, Q(0))
    box.position_y = Q(0)
    box.left, box.right, box.top, box.bottom = left, right, top, bottom

    def run():
        new_box = absolute.absolute_replaced(None, box, cb_x, cb_y, cb_w, cb_h)
        return ok(f'{fmt(new_box.width)} {fmt(new_box.height)}')
    return docs.outcome(run)


def case_absolute_replaced(rng, adversarial):
    intr = intrinsic(rng, adversarial)
    if rng.random() < 0.4:
        intr = (None, None, Q(rng.randint(1, 8), rng.randint(1, 8)))      # only a ratio (SVG with a viewBox)
    b = gen_rbox(rng, adversarial)
    both_auto = b['width'] == 'auto' and b['height'] == 'auto'
    style_auto = both_auto if rng.random() < 0.9 else not both_auto
    cb_x, cb_y = Q(rng.randint(0, 120)), Q(rng.randint(0, 120))
    cb_w, cb_h = positive(rng), positive(rng)
    out = call_absolute_replaced(
        b, intr, style_auto, cb_x, cb_y, cb_w, cb_h, rng.choice(['auto', Q(5)]), rng.choice(['auto', Q(7)]),
        rng.choice(['auto', Q(3)]), rng.choice(['auto', Q(2)]))
    line = sx.line('absrep', style_auto, list(intr), cb_x, cb_y, cb_w, cb_h, rbox_wire(b))
    meta = {'fn': 'absolute_replaced'}
    point3 = both_auto and intr[0] is None and intr[1] is None and intr[2] is not None
    return line, out, meta, True, ['absrep' + (':point3' if point3 else '') + (':err' if out.startswith('err') else '')]


# ---------------------------------------------------------------------------------------------
# SVGImage.get_intrinsic_size (real SVGImage on a generated <svg> root)

def svg_source(width, height, viewbox):
    """width / height: None (absent), ('px', v) or ('%', v); viewbox: None or (w, h)."""
    attrs = ["xmlns='http://www.w3.org/2000/svg'"]
    for name, value in (('width', width), ('height', height)):
        if value is not None:
            attrs.append(f"{name}='{float(value[1]):g}{'%' if value[0] == '%' else ''}'")
    if viewbox is not None:
        attrs.append(f"viewBox='0 0 {float(viewbox[0]):g} {float(viewbox[1]):g}'")
    return f"<svg {' '.join(attrs)}></svg>"


def gen_svg(rng, adversarial=False, all_powers_of_two=False):
    """Float arithmetic of the real SVGImage stays exact: heights and viewBox sides are powers of two."""
    def attr(power_of_two=False):
        k = rng.random()
        if k < 0.4:
            return None
        if k < 0.5:
            return ('%', Fraction(rng.choice([50, 100])))
        if adversarial and rng.random() < 0.3:
            return ('px', Fraction(0))
        if power_of_two:
            return ('px', Fraction(rng.choice([8, 16, 32, 64, 128])))
        return ('px', Fraction(rng.choice([8, 16, 20, 40, 64, 100])) + rng.choice([0, Fraction(1, 2)]))
    viewbox = None
    if rng.random() < 0.7:
        viewbox = (Fraction(rng.choice([1, 2, 4, 8, 16])), Fraction(rng.choice([1, 2, 4, 8, 16])))
        if adversarial and rng.random() < 0.2:
            viewbox = (Fraction(0), viewbox[1])
    return attr(all_powers_of_two), attr(True), viewbox


def svg_model_args(width, height, viewbox):
    w = width[1] if width is not None and width[0] == 'px' else None
    h = height[1] if height is not None and height[0] == 'px' else None
    return w, h, ('none' if viewbox is None else list(viewbox))


def call_svg_intrinsic(width, height, viewbox):
    from xml.etree import ElementTree
    from weasyprint.images import SVGImage
    image = SVGImage(ElementTree.fromstring(svg_source(width, height, viewbox)), 'about:svg', None, None)
    return docs.outcome(lambda: ok(' '.join(fmt(v) for v in image.get_intrinsic_size(1, 16))))


def case_svg_intrinsic(rng, adversarial):
    width, height, viewbox = gen_svg(rng, adversarial)
    out = call_svg_intrinsic(width, height, viewbox)
    w, h, vb = svg_model_args(width, height, viewbox)
    line = sx.line('svgintr', w, h, vb)
    return line, out, {'fn': 'SVGImage.get_intrinsic_size', 'svg': svg_source(width, height, viewbox)}, \
        viewbox is not None, ['svg:' + ('vb' if viewbox else 'novb') + ('w' if w is not None else '') +
                              ('h' if h is not None else '')]


# ---------------------------------------------------------------------------------------------
# preferred.py: min-/max-content width of a replaced box

def gen_pref_style(rng, adversarial):
    def size(p_auto, percent=True):
        k = rng.random()
        if k < p_auto:
            return 'auto'
        if percent and k < p_auto + 0.15:
            return ('%', Q(rng.choice([10, 25, 50, 100])))
        return ('px', length(rng, adversarial) if rng.random() < 0.8 else small(rng))
    s = {'width': size(0.6), 'height': size(0.6), 'min_width': size(0.7), 'max_width': size(0.7),
         'min_height': size(0.7), 'max_height': size(0.7), 'margin_left': size(0.3), 'margin_right': size(0.3)}
    for name in ('padding_left', 'padding_right'):
        s[name] = ('px', Q(rng.choice([0, 0, 2, 5]))) if rng.random() < 0.8 else ('%', Q(rng.choice([5, 10, 60])))
    for name in ('border_left_width', 'border_right_width'):
        s[name] = Q(rng.choice([0, 0, 1, 3]))
    return s


PREF_ORDER = ('width', 'height', 'min_width', 'max_width', 'min_height', 'max_height', 'margin_left', 'margin_right',
              'padding_left', 'padding_right', 'border_left_width', 'border_right_width')


def call_pref_width(minimum, outer, s, intr):
    from weasyprint.formatting_structure import boxes
    from weasyprint.layout import preferred
    style = {'image_resolution': Q(1), 'font_size': Q(16), 'border_collapse': 'separate'}
    for name in PREF_ORDER:
        value = s[name]
        style[name] = value if not isinstance(value, tuple) else dimension(value[1], value[0])
    box = boxes.InlineReplacedBox('img', style, None, StubImage(tuple(intr)))
    fn = preferred.replaced_min_content_width if minimum else preferred.replaced_max_content_width
    return docs.outcome(lambda: ok(fmt(fn(box, outer))))


def case_pref_width(rng, adversarial):
    s = gen_pref_style(rng, adversarial)
    intr = intrinsic(rng, adversarial)
    minimum, outer = rng.random() < 0.5, rng.random() < 0.5
    out = call_pref_width(minimum, outer, s, intr)
    wire = [s[n] if not isinstance(s[n], tuple) else [s[n][0], s[n][1]] for n in PREF_ORDER]
    line = sx.line('prefwidth', minimum, outer, wire, list(intr))
    return line, out, {'fn': 'replaced_min/max_content_width'}, s['width'] == 'auto', [
        ('prefmin' if minimum else 'prefmax') + (':outer' if outer else '') + (':err' if out.startswith('err') else '')]
