"""C15 helpers: direct calls of the real `_standardize_page_based_counters` (layout/page.py) on style dictionaries
holding the three counter properties, against `Model/PageStd.lean`, twice in a row (the style object is shared and
the function is applied to its own output when a page is made again); its docstring as a clause for `judge`."""
from harness import c15_styles as S
from vlib import sx

NAMES = ['page', 'pages', 'page', 'pages', 'c', 'd', 'Pages', 'PAGE', 'pages2']


def gen_prop(rng, allow_auto):
    if allow_auto and rng.random() < 0.3:
        return 'auto'
    return tuple((rng.choice(NAMES), rng.choice([0, 1, 2, -1, 10])) for _ in range(rng.choice([0, 0, 1, 1, 2, 3, 4])))


def gen_case(rng):
    return {'counter_set': gen_prop(rng, rng.random() < 0.2), 'counter_reset': gen_prop(rng, rng.random() < 0.2),
            'counter_increment': gen_prop(rng, True)}, rng.random() < 0.5


def w_prop(value):
    return 'auto' if value == 'auto' else [[S.enc(n), int(v)] for n, v in value]


def show(style):
    return ' '.join(sx.dumps(w_prop(style[k])) for k in ('counter_set', 'counter_reset', 'counter_increment'))


def pstd_cases(style, is_page):
    """-> [(line, impl_out)]: the call, then the call on its own output."""
    from weasyprint.layout.page import _standardize_page_based_counters
    out = []
    current = dict(style)
    for _ in range(2):
        line = sx.line('pstd', is_page, *(w_prop(current[k]) for k in ('counter_set', 'counter_reset', 'counter_increment')))
        try:
            _standardize_page_based_counters(current, None if is_page else '@top-center')
            out.append((line, show(current)))
        except Exception as exc:  # noqa: BLE001
            out.append((line, f'err:{type(exc).__name__}'))
            break
    return out


def pstd_clause(style, is_page):
    """The docstring: 'pages' is dropped, everything else is kept in order, and in @page context the page counter
    is incremented by one unless the style manipulates it; a second call changes nothing."""
    from weasyprint.layout.page import _standardize_page_based_counters
    current = dict(style)
    _standardize_page_based_counters(current, None if is_page else '@top-center')
    keys = ('counter_set', 'counter_reset', 'counter_increment')
    kept = {k: tuple(p for p in (() if style[k] == 'auto' else style[k]) if p[0] != 'pages') for k in keys}
    touched = any(n == 'page' for k in keys for n, _ in kept[k])
    want = dict(kept)
    if is_page and not touched:
        want['counter_increment'] = (('page', 1),) + kept['counter_increment']
    got = {k: tuple(tuple(p) for p in current[k]) for k in keys}
    if got != want:
        return (f'_standardize_page_based_counters({style}, {"None" if is_page else "@top-center"}) leaves {got}; '
                f'dropping `pages` and ensuring the page increment gives {want}')
    again = dict(current)
    _standardize_page_based_counters(again, None if is_page else '@top-center')
    if {k: tuple(again[k]) for k in keys} != {k: tuple(current[k]) for k in keys}:
        return f'a second call on {current} changes it to {again} (the style object is shared between re-made pages)'
    return None
