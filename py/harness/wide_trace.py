"""Trace validation on the wide grammar: real renders -> traces -> verified Lean checkers (Model/Trace.lean)."""
from fractions import Fraction

from harness import docs, widegen
from vlib import sx

KIND = {'flow': 0, 'oof': 1, 'rep': 2, 'drop': 3}
LOSSY_CTX = {'flex', 'grid'}


def conserve_case(rng, features=None):
    """-> (protocol line, meta, tags) or None when rendering raised (that is C02's business)."""
    doc = widegen.gen(rng, features)
    try:
        with docs.time_limit(20):
            document = docs.render(doc['html'])
    except Exception as exc:  # noqa: BLE001
        return None, {'html': doc['html'], 'error': type(exc).__name__}, ['render-error']
    pages = widegen.page_words(document)
    groups = [dict(g) for g in doc['groups']]
    # cross-container order: only sequential flows (cells of a row, flex and grid items are parallel flows)
    allflow = [w for g in groups if g['kind'] == 'flow' and set(g['ctx']) <= {'columns'} for w in g['words']]
    groups.append({'kind': 'oof', 'words': allflow, 'ctx': ['allflow']})
    line = sx.line('conserve', [[KIND[g['kind']], g['words']] for g in groups], pages)
    meta = {'html': doc['html'], 'groups': groups, 'pages': pages, 'features': doc['features'], 'page': doc['page']}
    tags = list(doc['features']) + [f'pages{min(len(pages), 9)}']
    return line, meta, tags


def explain(meta, model_out):
    """Finding id explaining a rejected trace, or None. See known_findings.txt (C01)."""
    if not model_out.startswith('bad'):
        return None
    parts = sx.loads_line(model_out)
    bad = [int(i) for i in parts[1]]
    scattered = [int(i) for i in parts[3]]
    groups, pages = meta['groups'], meta['pages']
    flat = [w for p in pages for w in p]
    ids = set()
    lost_words = set()
    for i in sorted(set(bad + scattered)):
        g = groups[i]
        ws = set(g['words'])
        proj = [w for w in flat if w in ws]
        if g['ctx'] == ['allflow']:
            continue
        complete = [w for w in g['words'] if w in set(proj)] == g['words']
        duplicated = complete and len(proj) > len(g['words'])
        if set(g['ctx']) & LOSSY_CTX:
            ids.add('flex-grid-fragmentation-loses-content')
            lost_words |= ws
        elif i in bad and {'footnote', 'columns'} <= set(g['ctx']):
            ids.add('footnote-in-columns-lost-or-duplicated')
        elif (i in scattered and i not in bad and proj == g['words'] and 'table' in g['ctx']
              and g['kind'] == 'flow'):
            # a table cell, complete and in order, with a page in between that shows none of its words
            ids.add('table-cell-skips-a-page')
        elif (duplicated and i in bad and {'float', 'columns'} <= set(g['ctx'])
              and any(proj == g['words'][k:] + g['words'] for k in range(1, len(g['words'])))):
            # exactly: the end of a float inside a multi-column container (its continuation), then the whole float
            ids.add('float-in-columns-fragment-duplicated')
        elif (g['kind'] == 'oof' and i in bad and proj == g['words'][:len(proj)] and len(proj) < len(g['words'])
              and 'footnote' not in g['ctx']):
            ids.add('out-of-flow-lost-at-document-end')
            lost_words |= ws
        else:
            return None
    # the all-flow pseudo group must be explained by the words of explained groups only
    last = len(groups) - 1
    if last in bad or last in scattered:
        ws = [w for w in groups[last]['words']]
        proj = [w for w in flat if w in set(ws)]
        if proj != ws and not ids:
            return None
        if proj != ws and 'flex-grid-fragmentation-loses-content' not in ids:
            return None
    if not ids:
        return None
    return sorted(ids)[0]


def scattered_groups(groups, pages):
    """Indexes of the flow / out-of-flow groups whose words are not on consecutive pages."""
    out = []
    for index, g in enumerate(groups):
        if g['kind'] not in ('flow', 'oof'):
            continue
        ws = set(g['words'])
        on = [i for i, page in enumerate(pages) if ws & set(page)]
        if on and on != list(range(on[0], on[-1] + 1)):
            out.append(index)
    return out


def conserve_violation(meta, model_out):
    groups, pages = meta['groups'], meta['pages']
    flat = [w for p in pages for w in p]
    out = []
    for g in groups:
        ws = set(g['words'])
        proj = [w for w in flat if w in ws]
        if g['kind'] in ('flow', 'oof') and proj != g['words']:
            missing = [w for w in g['words'] if w not in proj]
            dup = sorted({w for w in proj if proj.count(w) > 1})
            out.append(f'{g["kind"]} group {g["ctx"]} {g["words"][:4]}…: missing {missing[:6]} duplicated {dup[:6]}'
                       + ('' if missing or dup else ' (reordered)'))
        if g['kind'] == 'drop' and proj:
            out.append(f'display:none words rendered: {proj[:6]}')
    if not out and model_out.startswith('bad'):
        out.append(f'fragments of one element not on consecutive pages: {model_out}')
    return '; '.join(out[:4]) or None


# ---------------------------------------------------------------------------------------------
# geometry (C03)

BIG = Fraction(10**12)


def frac(value):
    """Exact value of a float of the layout; a non-finite one becomes a huge number (so that it is reported as an
    overflow instead of crashing the harness)."""
    import math
    if isinstance(value, float) and not math.isfinite(value):
        return BIG
    return Fraction(value)


def fit_items(page, decorations=False):
    """(content-box bottom, [(bottom edge, first-on-page-or-column)]) for in-flow lines and table rows; with
    `decorations`, also one item per in-flow block box of automatic height that ends on this page (its own border-box
    bottom: "a fragmented box's own bottom padding/border also fits"), exempt when it holds an exempt first item."""
    from weasyprint.formatting_structure import boxes
    pb = page._page_box
    bottom = frac(pb.content_box_y()) + frac(pb.height)
    items = []
    kinds = []
    fit_items.kinds = kinds

    placed = [0]

    def walk(box, state, depth=0):
        run_start = None            # items placed on the page before the current run of column boxes
        for child in getattr(box, 'children', []):
            if not isinstance(child, boxes.Box):
                continue
            if (child.is_floated() and not isinstance(box, boxes.LineBox) and child.width > 0
                    and child.margin_height() > 0 and depth != 1):
                # a float laid out before is content placed on the page: what follows it in this container is not
                # "the first content of the page" (block.py: page_is_empty_with_no_children counts floats). The
                # floated children of the root box itself (depth 1) are the continuations of floats broken on the
                # previous page, which make_page lays out before the flow without giving up the exemption.
                state['first'] = False
                placed[0] += 1
                continue
            if not child.is_in_normal_flow() or isinstance(child, boxes.FootnoteAreaBox):
                continue
            if child.style['position'] == 'relative' or child.transformation_matrix is not None:
                continue
            if isinstance(child, (boxes.FlexContainerBox, boxes.GridContainerBox)):
                continue
            if child.is_column:
                # the columns of one row are parallel: each may hold "the first content of the page",
                # but only if nothing was placed on the page before that row of columns
                if run_start is None:
                    run_start = placed[0]
                walk(child, {'first': run_start == 0}, depth + 1)
                continue
            run_start = None
            if isinstance(child, (boxes.TableRowBox, boxes.LineBox)):
                kinds.append('row' if isinstance(child, boxes.TableRowBox) else 'line')
                items.append((frac(child.position_y) + frac(child.height), state['first']))
                state['first'] = False
                placed[0] += 1
                continue
            if (isinstance(child, boxes.BlockBox) and not child.children and not child.is_column
                    and not isinstance(child, boxes.TableCellBox) and child.style['height'] != 'auto'
                    and child.style['height'].unit == 'px'
                    and (child.height or child.padding_top or child.border_top_width)):
                # an unbreakable block: a childless block of definite height; its content box must fit
                kinds.append('block')
                items.append((frac(child.content_box_y()) + frac(child.height), state['first']))
                state['first'] = False
                placed[0] += 1
                continue
            if (isinstance(child, boxes.BlockBox) and not isinstance(child, boxes.TableCellBox) and child.children
                    and (child.style['overflow'] in ('auto', 'scroll')
                         or (child.style['overflow'] == 'hidden' and child.style['height'] != 'auto'))):
                # a monolithic container (css-break-3 4.1: scrollable, or clipped with a definite height; stated here
                # from the style, not by asking the code): one unbreakable item, its content is not looked at
                kinds.append('block')
                items.append((frac(child.content_box_y()) + frac(child.height), state['first']))
                state['first'] = False
                placed[0] += 1
                continue
            was_first = state['first']
            walk(child, state, depth + 1)
            if (decorations and isinstance(child, boxes.BlockBox) and not child.is_column
                    and child.style['height'] == 'auto' and getattr(child.style['max_height'], 'value', None) == float('inf')
                    and not isinstance(child, boxes.TableCellBox) and child.children
                    and (child.padding_bottom or child.border_bottom_width)):
                kinds.append('deco')
                items.append((frac(child.border_box_y()) + frac(child.border_height()), was_first))
    walk(pb, {'first': True})
    return bottom, items


def explain_fits(meta):
    """Finding id (C03) explaining a rejected geometry trace, or None."""
    if {'columns', 'table'} <= set(meta.get('features', ())):
        return 'table-in-columns-rows-overflow'
    bottom = Fraction(meta['bottom']) * (1 + Fraction(1, 10**9))
    items, kinds = meta['items'], meta.get('kinds', [])
    offenders = [i for i, (b, first) in enumerate(items) if Fraction(b) > bottom and not first]
    if items and Fraction(items[0][0]) > bottom and offenders and all(kinds[i] == 'row' for i in offenders):
        return 'table-rows-after-overflowing-first-item'
    return None


class Hang(Exception):
    pass


def render_outcome(html, limit_s=20, options=None):
    """'ok' or `err:<Class>@<file>:<function>` (innermost weasyprint frame) for render + write_pdf; a render that
    exceeds `limit_s` seconds of CPU time is the outcome `err:Hang@<frame>`."""
    import signal
    import traceback

    def on_alarm(signum, frame):
        raise Hang()
    previous = signal.signal(signal.SIGPROF, on_alarm)
    signal.setitimer(signal.ITIMER_PROF, limit_s)
    try:
        options = options or {}
        document = docs.html(html).render(**options)
        data = document.write_pdf(**options)
        pages = len(document.pages)
        if pages > 400:
            return 'err:TooManyPages@layout'
        return 'ok' if pages >= 1 and data[:5] == b'%PDF-' else 'bad-output'
    except Exception as exc:  # noqa: BLE001
        frames = [f for f in traceback.extract_tb(exc.__traceback__) if '/weasyprint/' in f.filename]
        where = f'{frames[-1].filename.split("/")[-1]}:{frames[-1].name}' if frames else 'unknown'
        if isinstance(exc, Hang) and frames:
            # the timer fires anywhere inside the loop that does not terminate: name the outermost function of the
            # innermost file (the function that owns the loop or calls the helpers it spins in), which is stable
            outer = frames[-1]
            for frame in reversed(frames):
                if frame.filename != frames[-1].filename:
                    break
                outer = frame
            where = f'{outer.filename.split("/")[-1]}:{outer.name}'
        return f'err:{type(exc).__name__}@{where}'
    finally:
        signal.setitimer(signal.ITIMER_PROF, 0)
        signal.signal(signal.SIGPROF, previous)


def fits_cases(rng, features=None, focus=None):
    """-> list of (line, meta, tags), one per page."""
    doc = widegen.gen(rng, features, focus)
    try:
        with docs.time_limit(20):
            document = docs.render(doc['html'])
    except Exception as exc:  # noqa: BLE001
        return [(None, {'html': doc['html'], 'error': type(exc).__name__}, ['render-error'])]
    out = []
    for index, page in enumerate(document.pages):
        bottom, items = fit_items(page)
        line = sx.line('fits', bottom, [[b, f] for b, f in items])
        meta = {'html': doc['html'], 'page_index': index, 'bottom': str(bottom),
                'items': [[str(b), f] for b, f in items], 'kinds': list(fit_items.kinds),
                'features': doc['features']}
        out.append((line, meta, list(doc['features']) + [f'items{min(len(items), 9)}']))
    return out


# ---------------------------------------------------------------------------------------------
# deterministic families (harness/families.py)

def family_cases(prop_id, rng=None, fraction=1.0):
    """-> (known ids, [(kind, line, meta)]) for every document of the families: one `conserve` case per document
    and one `fits` case per page."""
    import json
    from harness import families
    from vlib.paths import CORPUS
    path = CORPUS / prop_id / 'family_known.json'
    known = json.loads(path.read_text()) if path.exists() else {'conserve': [], 'fits': []}
    cases = []
    for doc_id, html, groups in families.all_documents():
        if rng is not None and rng.random() > fraction:
            continue
        try:
            with docs.time_limit(20):
                document = docs.render(html)
        except Exception as exc:  # noqa: BLE001
            cases.append(('error', None, {'doc_id': doc_id, 'html': html, 'error': type(exc).__name__}))
            continue
        pages = widegen.page_words(document)
        line = sx.line('conserve', [[KIND[g['kind']], g['words']] for g in groups], pages)
        cases.append(('conserve', line, {'doc_id': doc_id, 'html': html, 'groups': groups, 'pages': pages,
                                         'features': ['family']}))
        for index, page in enumerate(document.pages):
            bottom, items = fit_items(page, decorations=True)
            cases.append(('fits', sx.line('fits', bottom, [[b, f] for b, f in items]),
                          {'doc_id': f'{doc_id}#p{index}', 'html': html, 'page_index': index, 'bottom': str(bottom),
                           'items': [[str(b), f] for b, f in items], 'kinds': list(fit_items.kinds),
                           'features': ['family']}))
    return known, cases
