"""C10 helpers: mock table box trees for direct calls of the real width functions, call recorders
("spies") for the same functions during a real render, generated table documents and the extraction
of their geometry.  Nothing here edits the WeasyPrint source; the recorders replace module attributes
in-process for the duration of one render and call the original function."""
import contextlib
from fractions import Fraction
import math

F = Fraction


def _mods():
    from weasyprint.css.properties import Dimension
    from weasyprint.formatting_structure import boxes
    from weasyprint.layout import preferred, table
    return Dimension, boxes, table, preferred


# ---------------------------------------------------------------- wire forms

def dim_wire(d):
    """('auto',) | ('px', q) | ('pct', q)  ->  wire item."""
    return 'auto' if d[0] == 'auto' else [d[0], d[1]]


def dim_style(d):
    Dimension = _mods()[0]
    if d[0] == 'auto':
        return 'auto'
    return Dimension(d[1], 'px' if d[0] == 'px' else '%')


class NotFinite(ValueError):
    """A used value of the implementation is inf / nan."""


def num(x):
    """A used value of the implementation -> Fraction | 'auto'."""
    if x == 'auto':
        return 'auto'
    if isinstance(x, Fraction):
        return x
    if isinstance(x, int):
        return Fraction(x)
    x = float(x)
    if not math.isfinite(x):
        raise NotFinite(x)
    return Fraction(x)


def rats(xs):
    return [num(x) for x in xs]


# ---------------------------------------------------------------- mocks

def _cell_style(width, pl, pr, bl, br, sizing):
    Dimension = _mods()[0]
    zero = Dimension(0, 'px')
    return {
        'width': dim_style(width), 'height': 'auto',
        'margin_left': zero, 'margin_right': zero, 'margin_top': zero, 'margin_bottom': zero,
        'padding_left': Dimension(pl, 'px'), 'padding_right': Dimension(pr, 'px'),
        'padding_top': zero, 'padding_bottom': zero,
        'min_width': zero, 'max_width': Dimension(math.inf, 'px'),
        'min_height': zero, 'max_height': Dimension(math.inf, 'px'),
        'border_collapse': 'separate', 'box_sizing': f'{sizing}-box',
        'border_left_width': bl, 'border_right_width': br,
        'border_top_width': 0, 'border_bottom_width': 0,
    }


def call_fixed(table_w, collapse, spacing, cols, cells):
    """Real `fixed_table_layout` on a hand-built wrapper/table/colgroup/row tree.

    cols: list of dims; cells: list of (colspan, dim, pl, pr, bl, br, sizing).
    -> canonical result string.
    """
    _, boxes, table_mod, _ = _mods()
    col_boxes = [boxes.TableColumnBox('col', {'width': dim_style(d)}, None, []) for d in cols]
    groups = ()
    if col_boxes:
        # split the columns over one or two column groups (the function flattens them)
        cut = len(col_boxes) // 2
        parts = [p for p in (col_boxes[:cut], col_boxes[cut:]) if p]
        groups = tuple(boxes.TableColumnGroupBox('colgroup', {}, None, p) for p in parts)
    cell_boxes = []
    for colspan, width, pl, pr, bl, br, sizing in cells:
        cell = boxes.TableCellBox('td', _cell_style(width, pl, pr, bl, br, sizing), None, [])
        cell.colspan = colspan
        cell_boxes.append(cell)
    children = []
    if cell_boxes:
        row = boxes.TableRowBox('tr', {}, None, cell_boxes)
        children = [boxes.TableRowGroupBox('tbody', {}, None, [row])]
    style = {'border_collapse': 'collapse' if collapse else 'separate',
             'border_spacing': (spacing, spacing)}
    table = boxes.TableBox('table', style, None, children)
    table.column_groups = groups
    table.width = table_w
    table.height = 'auto'
    wrapper = boxes.BlockBox('table', {}, None, [table])
    wrapper.is_table_wrapper = True
    try:
        table_mod.fixed_table_layout(wrapper)
    except Exception as exc:  # noqa: BLE001
        return f'err:{type(exc).__name__}'
    return fixed_out(table.width, table.column_widths)


def fixed_line(sx, table_w, collapse, spacing, cols, cells):
    return sx.line('fixed', table_w, collapse, spacing, [dim_wire(d) for d in cols],
                   [[k, dim_wire(w), pl, pr, bl, br, sz] for k, w, pl, pr, bl, br, sz in cells])


def show_rats(xs):
    from vlib import sx
    return '(' + ' '.join(sx.atom(num(x)) for x in xs) + ')'


def fixed_out(width, column_widths):
    from vlib import sx
    return f'ok {sx.atom(num(width))} {show_rats(column_widths)}'


def grid_of(cols):
    """`grid` argument: one object per column whose truthiness is col[4]."""
    return [((None,) if c[4] else ()) for c in cols]


def call_excess(cols, excess, cw, start, stop):
    """Real `distribute_excess_width`. cols: list of (min, max, pct, constrained, truthy)."""
    table_mod = _mods()[2]
    widths = list(cw)
    try:
        table_mod.distribute_excess_width(
            None, grid_of(cols), excess, widths, [c[3] for c in cols], [c[2] for c in cols],
            [c[1] for c in cols], slice(start, stop))
    except Exception as exc:  # noqa: BLE001
        return f'err:{type(exc).__name__}'
    return 'ok ' + show_rats(widths)


def excess_line(sx, cols, excess, cw, start, stop):
    return sx.line('excess', [list(c) for c in cols], excess, list(cw), start, stop)


MUTATED = 'modified-the-cached-preferred-widths'


class _Ctx:
    def __init__(self):
        self.tables = {}


def call_auto(inp):
    """Real `auto_table_layout`, the preferred-width tuple injected through `context.tables`.

    inp: dict(table_w, tmin, tmax, spacing, ml, mr, pl, pr, bl, br, cb, cols)."""
    _, boxes, table_mod, _ = _mods()
    cols = inp['cols']
    table = boxes.TableBox('table', {}, None, [])
    table.width = inp['table_w']
    table.padding_left, table.padding_right = inp['pl'], inp['pr']
    table.border_left_width, table.border_right_width = inp['bl'], inp['br']
    wrapper = boxes.BlockBox('table', {}, None, [table])
    wrapper.is_table_wrapper = True
    wrapper.margin_left, wrapper.margin_right = inp['ml'], inp['mr']
    context = _Ctx()
    result = (inp['tmin'], inp['tmax'], [c[0] for c in cols], [c[1] for c in cols],
              [c[2] for c in cols], [c[3] for c in cols], inp['spacing'], grid_of(cols))
    context.tables[table] = {False: result, True: result}
    before = [list(x) for x in result[2:6]]
    try:
        table_mod.auto_table_layout(context, wrapper, (inp['cb'], 'auto'))
    except Exception as exc:  # noqa: BLE001
        return f'err:{type(exc).__name__}'
    out = fixed_out(table.width, list(table.column_widths))
    if [list(x) for x in result[2:6]] != before:
        # the tuple is the per-document cache of table_and_columns_preferred_widths
        out += ' ' + MUTATED
    return out


def auto_line(sx, inp, cmd='auto'):
    return sx.line(cmd, inp['table_w'], inp['tmin'], inp['tmax'], inp['spacing'], inp['ml'], inp['mr'],
                   inp['pl'], inp['pr'], inp['bl'], inp['br'], inp['cb'], [list(c) for c in inp['cols']])


EPS = Fraction(1, 10**9)


def auto_band_risk(inp):
    """True when a guess sum is so close to `assignable * (1 ± 1e-9)` (without being on the exact
    rational edge's safe side) that the float product of the implementation and the rational of the
    model may order differently.  Such cases are skipped (counted), never compared."""
    cols = inp['cols']
    w = inp['table_w']
    margins = sum(m for m in (inp['ml'], inp['mr']) if m != 'auto')
    avail = inp['cb'] - margins - inp['pl'] - inp['pr'] - inp['bl'] - inp['br']
    if w == 'auto':
        w = inp['tmin'] if avail <= inp['tmin'] else avail if avail < inp['tmax'] else inp['tmax']
    elif w < inp['tmin']:
        w = inp['tmin']
    a = w - inp['spacing']
    def pg(c):
        return max(c[2] / 100 * a, c[0])
    sums = [
        sum(c[0] for c in cols),
        sum(pg(c) if c[2] else c[0] for c in cols),
        sum(pg(c) if c[2] else (c[1] if c[3] else c[0]) for c in cols),
        sum(pg(c) if c[2] else c[1] for c in cols)]
    tol = abs(a) * Fraction(1, 10**13)
    for s in sums:
        for edge in (a * (1 + EPS), a * (1 - EPS)):
            if abs(s - edge) <= tol and a != 0:
                return True
    return False


# ---------------------------------------------------------------- collapsed borders

BORDER_STYLES = ['none', 'hidden', 'dotted', 'dashed', 'solid', 'double', 'groove', 'ridge', 'inset', 'outset']
SIDES = ('top', 'right', 'bottom', 'left')


class ColorIds:
    """Colours as opaque ids: 0 = TRANSPARENT, others numbered by first appearance."""

    def __init__(self):
        table_mod = _mods()[2]
        self.ids = {self._key(table_mod.TRANSPARENT): 0}

    @staticmethod
    def _key(color):
        return color if isinstance(color, int) else repr(color)

    def __call__(self, color):
        key = self._key(color)
        if isinstance(color, int):
            return color
        return self.ids.setdefault(key, len(self.ids) + 100)


def style_sides(style, colors):
    """[[style, width, color id] x4] (top right bottom left) as `set_one_border` reads them."""
    out = []
    for side in SIDES:
        color = style[f'border_{side}_color']
        if color == 'currentcolor':
            color = style['color']
        out.append([style[f'border_{side}_style'], num(style[f'border_{side}_width']), colors(color)])
    return out


def border_table_wire(table, gw, gh, colors):
    groups = []
    for group in table.children:
        rows = []
        for row in group.children:
            cells = [[c.grid_x, c.colspan, c.rowspan, style_sides(c.style, colors)] for c in row.children]
            rows.append([style_sides(row.style, colors), cells])
        groups.append([style_sides(group.style, colors), rows])
    cgs = []
    for cg in table.column_groups:
        cols = [[c.grid_x, style_sides(c.style, colors)] for c in cg.children]
        cgs.append([cg.grid_x, cg.span, style_sides(cg.style, colors), cols])
    return [table.style['direction'] == 'ltr', gw, gh, style_sides(table.style, colors), groups, cgs]


def _edge(entry, colors):
    from vlib import sx
    (hidden, width, rank), (style, bwidth, color) = entry
    return '(' + ' '.join([str(int(hidden)), sx.atom(num(width)), str(int(rank)), style,
                           sx.atom(num(bwidth)), str(colors(color))]) + ')'


def _grid(grid, colors):
    return '(' + ' '.join('(' + ' '.join(_edge(e, colors) for e in row) + ')' for row in grid) + ')'


def _used(box):
    from vlib import sx
    return '(' + ' '.join(sx.atom(num(getattr(box, f'border_{side}_width'))) for side in SIDES) + ')'


def border_out(table, gw, gh, result, colors):
    """Canonical form of what `collapse_table_borders` returned and set on the boxes."""
    vertical, horizontal = result
    if not (gw and gh):
        return f'ok {_grid(vertical, colors)} {_grid(horizontal, colors)} () none'
    cells = [c for g in table.children for r in g.children for c in r.children]
    return (f'ok {_grid(vertical, colors)} {_grid(horizontal, colors)} '
            f'({" ".join(_used(c) for c in cells)}) {_used(table)}')


def make_border_style(rng_sides, direction='ltr'):
    style = {'direction': direction, 'color': 7}
    for side, (s, w, c) in zip(SIDES, rng_sides):
        style[f'border_{side}_style'] = s
        style[f'border_{side}_width'] = w
        style[f'border_{side}_color'] = c
    return style


def build_border_table(spec):
    """spec = dict(ltr, sides, groups=[(sides, [(sides, [(gx, colspan, rowspan, sides)])])],
    colgroups=[(gx, span, sides, [(gx, sides)])]) -> real TableBox tree with dict styles."""
    _, boxes, _, _ = _mods()
    direction = 'ltr' if spec['ltr'] else 'rtl'
    groups = []
    for gsides, rows in spec['groups']:
        row_boxes = []
        for rsides, cells in rows:
            cell_boxes = []
            for gx, colspan, rowspan, csides in cells:
                cell = boxes.TableCellBox('td', make_border_style(csides), None, [])
                cell.grid_x, cell.colspan, cell.rowspan = gx, colspan, rowspan
                cell_boxes.append(cell)
            row_boxes.append(boxes.TableRowBox('tr', make_border_style(rsides), None, cell_boxes))
        groups.append(boxes.TableRowGroupBox('tbody', make_border_style(gsides), None, row_boxes))
    table = boxes.TableBox('table', make_border_style(spec['sides'], direction), None, groups)
    cgs = []
    for gx, span, sides, cols in spec['colgroups']:
        col_boxes = []
        for cx, csides in cols:
            col = boxes.TableColumnBox('col', make_border_style(csides), None, [])
            col.grid_x = cx
            col_boxes.append(col)
        # `span` is a property read from the element's attribute (or the number of children)
        cg = boxes.TableColumnGroupBox('colgroup', make_border_style(sides), {'span': str(span)}, col_boxes)
        cg.grid_x = gx
        cgs.append(cg)
    table.column_groups = tuple(cgs)
    return table


def call_collapse(table, gw, gh, colors):
    table_mod = _mods()[2]
    try:
        result = table_mod.collapse_table_borders(table, gw, gh)
    except Exception as exc:  # noqa: BLE001
        return f'err:{type(exc).__name__}'
    return border_out(table, gw, gh, result, colors)


def g_sides(rng, p_none=0.4, adv=False):
    def one():
        if rng.random() < p_none:
            return ('none', F(0), 0)
        style = rng.choice(BORDER_STYLES)
        width = rng.choice([F(0), F(1), F(1), F(2), F(2), F(3), F(5), F(1, 2), F(3, 2)])
        if adv and rng.random() < 0.2:
            width = rng.choice([F(-1), F(10**9), F(1, 3)])
        return (style, width, rng.randrange(1, 5))
    if rng.random() < 0.4:
        b = one()
        return [b, b, b, b]
    return [one() for _ in range(4)]


def g_border_spec(rng, adv=False):
    """A random consistent grid (cells placed as `wrap_table` would), plus border declarations."""
    gw = rng.choice([1, 2, 2, 3, 3, 4, 5, 6])
    groups = []
    gh = 0
    for _ in range(rng.choice([1, 1, 2, 3])):
        n_rows = rng.choice([1, 1, 2, 3, 4])
        occupied = [set() for _ in range(n_rows)]
        rows = []
        for y in range(n_rows):
            cells = []
            x = 0
            while x < gw:
                if x in occupied[y]:
                    x += 1
                    continue
                if rng.random() < 0.08:
                    break               # a short row: missing cells
                colspan = 1
                if rng.random() < 0.3:
                    colspan = rng.randrange(1, gw - x + 1)
                # do not run over cells coming from above
                for k in range(colspan):
                    if x + k in occupied[y]:
                        colspan = k
                        break
                rowspan = 1
                if rng.random() < 0.25:
                    rowspan = rng.randrange(1, n_rows - y + 1)
                for yy in range(y + 1, y + rowspan):
                    occupied[yy].update(range(x, x + colspan))
                cells.append((x, colspan, rowspan, g_sides(rng, 0.3, adv)))
                x += colspan
            rows.append((g_sides(rng, 0.7, adv), cells))
        groups.append((g_sides(rng, 0.8, adv), rows))
        gh += n_rows
    colgroups = []
    x = 0
    while x < gw and rng.random() < 0.6:
        if rng.random() < 0.3:
            span = rng.randrange(1, gw - x + 1)
            colgroups.append((x, span, g_sides(rng, 0.5, adv), []))
            x += span
        else:
            n = rng.randrange(1, gw - x + 1)
            cols = [(x + k, g_sides(rng, 0.6, adv)) for k in range(n)]
            colgroups.append((x, n, g_sides(rng, 0.6, adv), cols))
            x += n
    spec = {'ltr': rng.random() < 0.6, 'sides': g_sides(rng, 0.3, adv), 'groups': groups,
            'colgroups': colgroups}
    if adv:
        r = rng.random()
        if r < 0.25:
            gw = max(0, gw - rng.randrange(1, 3))      # cells beyond the grid
        elif r < 0.45:
            gh = max(0, gh - rng.randrange(1, 3))
        elif r < 0.55:
            gw += rng.randrange(1, 3)                  # columns without cells
        elif r < 0.65:
            gh += 1
    return spec, gw, gh


# ---------------------------------------------------------------- recorders around the real functions

class Recorder:
    """Records every call of the real width / border functions during renders (the originals run)."""

    def __init__(self):
        self.fixed, self.auto, self.excess, self.collapse, self.wrapper = [], [], [], [], []
        self.layouts = []        # calls of table_layout
        self.preferred = []      # first computation of table_and_columns_preferred_widths per table
        self.cell_widths = []    # table_cell_min_max_content_width of every cell, at that moment
        self.group_orders = []   # calls of build.wrap_table: row groups in, table.children out
        self.current = None      # (html, info) of the document being rendered

    @contextlib.contextmanager
    def installed(self):
        _, boxes, table_mod, preferred = _mods()
        from weasyprint.formatting_structure import build
        orig_fixed, orig_auto = table_mod.fixed_table_layout, table_mod.auto_table_layout
        orig_excess, orig_collapse = table_mod.distribute_excess_width, build.collapse_table_borders
        orig_wrapper = table_mod.table_wrapper_width
        rec = self
        patched = {}

        def wrapper_width(context, wrapper, containing_block):
            table = wrapper.get_wrapped_table()
            n_fixed, n_auto = len(rec.fixed), len(rec.auto)
            orig_wrapper(context, wrapper, containing_block)
            if len(rec.fixed) > n_fixed:
                algo, used = 'fixed', rec.fixed[-1]['table_w']
            elif len(rec.auto) > n_auto:
                algo, used = 'auto', rec.auto[-1]['inp']['table_w']
            else:
                algo, used = 'none', 'auto'
            rec.wrapper.append({
                'doc': rec.current, 'fixed': table.style['table_layout'] == 'fixed',
                'width': style_dim(table.style['width']), 'cb': num(containing_block[0]),
                'pl': num(table.padding_left), 'pr': num(table.padding_right),
                'bl': num(table.border_left_width), 'br': num(table.border_right_width),
                'sizing': table.style['box_sizing'].replace('-box', ''), 'w_out': num(table.width),
                'out': (algo, used, num(wrapper.width))})

        # every module that imported the function by name
        import importlib
        for name in ('block', 'inline', 'float', 'absolute', 'flex'):
            mod = importlib.import_module(f'weasyprint.layout.{name}')
            if getattr(mod, 'table_wrapper_width', None) is orig_wrapper:
                patched[mod] = orig_wrapper
                mod.table_wrapper_width = wrapper_width

        block_mod = importlib.import_module('weasyprint.layout.block')
        orig_layout = block_mod.table_layout
        orig_container = block_mod.block_container_layout
        cell_calls = []          # stack: one list per running table_layout

        def container_layout(*args, **kwargs):
            # table_layout imports block_container_layout from the module at every call: the cells'
            # skip stacks and resume points are observed here, the original runs unchanged
            box = args[1] if len(args) > 1 else kwargs['box']
            if not (cell_calls and isinstance(box, boxes.TableCellBox)):
                return orig_container(*args, **kwargs)
            import copy
            skip = copy.deepcopy(args[3] if len(args) > 3 else kwargs['skip_stack'])
            n_children = len(box.children)
            result = orig_container(*args, **kwargs)
            cell_calls[-1].append({'cell': box, 'skip': skip, 'n': n_children, 'placed': result[0] is not None,
                                   'resume': copy.deepcopy(result[1])})
            return result

        def table_layout(context, table, bottom_space, skip_stack, containing_block, page_is_empty,
                         absolute_boxes, fixed_boxes):
            import copy
            skip = copy.deepcopy(skip_stack)
            cell_calls.append([])
            border_top_before = getattr(table, 'border_top_width', None)
            try:
                result = orig_layout(context, table, bottom_space, skip_stack, containing_block, page_is_empty,
                                     absolute_boxes, fixed_boxes)
            finally:
                calls = cell_calls.pop()
            rec.layouts.append({
                'doc': rec.current, 'table': table, 'skip': skip, 'bs': bottom_space,
                'empty': bool(page_is_empty), 'page_bottom': context.page_bottom,
                # the original box keeps the decoration removal / collapsed top border of this call
                'content_y': table.content_box_y(), 'result': result[:3], 'cell_calls': calls,
                'border_top': (border_top_before, getattr(table, 'border_top_width', None)),
                'skip_flags': (getattr(table, 'skip_cell_border_top', None),
                               getattr(table, 'skip_cell_border_bottom', None))})
            return result

        block_mod.table_layout = table_layout
        block_mod.block_container_layout = container_layout
        orig_pref = preferred.table_and_columns_preferred_widths

        def pref(context, box, outer=True):
            table = box.get_wrapped_table()
            if context.tables.get(table):
                return orig_pref(context, box, outer)
            record = None
            try:
                args, grid_width = preferred_input(
                    context, table, (preferred.min_content_width, preferred.max_content_width,
                                     preferred.table_cell_min_max_content_width))
                if grid_width and any(r for r in args[2]):
                    record = {'doc': rec.current, 'args': args}
            except NotFinite:
                record = None
            try:
                for group in table.children:
                    for row in group.children:
                        for cell in row.children:
                            line, out, kinds = doc_cell_width_case(context, cell)
                            rec.cell_widths.append({'doc': rec.current, 'line': line, 'out': out, 'kinds': kinds})
            except NotFinite:
                pass
            result = orig_pref(context, box, outer)
            if record is not None and context.tables.get(table):
                try:
                    record['out'] = preferred_out(context.tables[table][False])
                    rec.preferred.append(record)
                except NotFinite:
                    pass
            return result

        preferred.table_and_columns_preferred_widths = pref
        table_mod.table_and_columns_preferred_widths = pref

        def fixed(box):
            table = box.get_wrapped_table()
            width_before = table.width
            try:
                orig_fixed(box)
            except Exception as exc:  # noqa: BLE001
                rec.fixed.append({'error': type(exc).__name__})
                raise
            cols = [c for g in table.column_groups for c in g.children]
            cells = []
            if table.children and table.children[0].children:
                cells = table.children[0].children[0].children
            collapse = table.style['border_collapse'] != 'separate'
            rec.fixed.append({
                'doc': rec.current, 'table_w': num(width_before), 'collapse': collapse,
                'spacing': num(table.style['border_spacing'][0]),
                'cols': [style_dim(c.style['width']) for c in cols],
                'cells': [(c.colspan, style_dim(c.style['width']), num(c.padding_left), num(c.padding_right),
                           num(c.border_left_width), num(c.border_right_width),
                           c.style['box_sizing'].replace('-box', '')) for c in cells],
                'out': (num(table.width), rats(table.column_widths))})

        def auto(context, box, containing_block):
            table = box.get_wrapped_table()
            (tmin, tmax, mins, maxs, pcts, cons, spacing, grid) = preferred.table_and_columns_preferred_widths(
                context, box, outer=False)
            inp = {
                'table_w': num(table.width), 'tmin': num(tmin), 'tmax': num(tmax), 'spacing': num(spacing),
                'ml': num(box.margin_left), 'mr': num(box.margin_right),
                'pl': num(table.padding_left), 'pr': num(table.padding_right),
                'bl': num(table.border_left_width), 'br': num(table.border_right_width),
                'cb': num(containing_block[0]),
                'cols': [(num(a), num(b), num(p), bool(c), bool(g))
                         for a, b, p, c, g in zip(mins, maxs, pcts, cons, grid)]}
            cached = [list(x) for x in (mins, maxs, pcts, cons)]
            orig_auto(context, box, containing_block)
            rec.auto.append({'doc': rec.current, 'inp': inp, 'out': (num(table.width), rats(table.column_widths)),
                             'mutated': [list(x) for x in (mins, maxs, pcts, cons)] != cached})

        def excess(context, grid, excess_width, column_widths, constrainedness,
                   column_intrinsic_percentages, column_max_content_widths,
                   column_slice=slice(0, None)):
            cols = [(F(0), num(m), num(p), bool(c), bool(g)) for m, p, c, g in zip(
                column_max_content_widths, column_intrinsic_percentages, constrainedness, grid)]
            before = rats(column_widths)
            orig_excess(context, grid, excess_width, column_widths, constrainedness,
                        column_intrinsic_percentages, column_max_content_widths, column_slice)
            rec.excess.append({'doc': rec.current, 'cols': cols, 'excess': num(excess_width), 'cw': before,
                               'start': column_slice.start, 'stop': column_slice.stop,
                               'out': rats(column_widths)})

        def collapse(table, grid_width, grid_height):
            result = orig_collapse(table, grid_width, grid_height)
            colors = ColorIds()
            from vlib import sx
            rec.collapse.append({
                'doc': rec.current, 'line': sx.line('collapse', *border_table_wire(table, grid_width, grid_height, colors)),
                'out': border_out(table, grid_width, grid_height, result, colors),
                'violation': border_violation(table, grid_width, grid_height, result)})
            return result

        orig_wrap = build.wrap_table

        def wrap_table(box, children):
            children = list(children)
            groups_in = [c for c in children if isinstance(c, (boxes.TableRowGroupBox, boxes.TableRowBox))]
            wrapper = orig_wrap(box, children)
            if groups_in and all(isinstance(c, boxes.TableRowGroupBox) for c in groups_in):
                kinds = ['header' if g.style['display'] == ('table-header-group',) else
                         'footer' if g.style['display'] == ('table-footer-group',) else 'body' for g in groups_in]
                table = wrapper.get_wrapped_table()
                index = {id(g): i for i, g in enumerate(groups_in)}
                out = [(index.get(id(g)), bool(g.is_header), bool(g.is_footer)) for g in table.children]
                rec.group_orders.append({'doc': rec.current, 'kinds': kinds, 'out': out})
            return wrapper

        build.wrap_table = wrap_table
        table_mod.fixed_table_layout, table_mod.auto_table_layout = fixed, auto
        table_mod.distribute_excess_width, build.collapse_table_borders = excess, collapse
        try:
            yield self
        finally:
            build.wrap_table = orig_wrap
            preferred.table_and_columns_preferred_widths = orig_pref
            table_mod.table_and_columns_preferred_widths = orig_pref
            block_mod.table_layout = orig_layout
            block_mod.block_container_layout = orig_container
            for mod, orig in patched.items():
                mod.table_wrapper_width = orig
            table_mod.fixed_table_layout, table_mod.auto_table_layout = orig_fixed, orig_auto
            table_mod.distribute_excess_width, build.collapse_table_borders = orig_excess, orig_collapse


def style_dim(value):
    if value == 'auto':
        return ('auto',)
    return ('px' if value.unit == 'px' else 'pct', num(value.value))


# ---------------------------------------------------------------- tolerant canonicalisation (documents)

def snap(impl_out, model_out, rel=F(1, 10**9), whole=False):
    """Documents compute in binary floats, the model in rationals.  When every numeric token of the
    implementation's output is within `rel` (relative, floor 1) of the model's and all other tokens
    are identical, return (model_out, n_rounded); else (impl_out, 0).  `whole`: relative to the
    largest magnitude of the whole output (sums and differences of all the values: the absolute float
    error is that of the largest operand)."""
    from vlib import sx
    a, b = sx.tokenize(impl_out), sx.tokenize(model_out)
    if len(a) != len(b):
        return impl_out, 0
    rounded = 0
    scale = F(1)
    if whole:
        for y in b:
            try:
                scale = max(scale, abs(Fraction(y)))
            except (ValueError, ZeroDivisionError):
                pass
    for x, y in zip(a, b):
        if x == y:
            continue
        try:
            fx, fy = Fraction(x), Fraction(y)
        except (ValueError, ZeroDivisionError):
            return impl_out, 0
        if abs(fx - fy) > rel * max(scale, abs(fx), abs(fy)):
            return impl_out, 0
        rounded += 1
    return model_out, rounded


# ---------------------------------------------------------------- generated table documents

WORDS = ['a', 'bb', 'ccc', 'dddd', 'ee', 'f', 'ggg', 'hh']


def _q(rng, lo, hi, dens=(1, 1, 2, 4)):
    den = rng.choice(dens)
    return F(rng.randrange(lo * den, hi * den + 1), den)


def css_len(x):
    x = F(x)
    return (str(x.numerator) if x.denominator == 1 else repr(float(x))) + 'px'


def g_doc(rng, flavour):
    """A generated table document.  flavour 'wide': one tall page, rich widths (multi-word cells,
    colspan/rowspan, col widths); 'paged': many single-word rows on small pages, optional
    thead/tfoot/captions.  Returns (html, info)."""
    fs = rng.choice([8, 8, 10, 16])
    n_cols = rng.choice([1, 2, 2, 3, 3, 4, 5, 6])
    paged = flavour == 'paged'
    page_w = rng.choice([200, 300, 400, 600])
    layout = rng.choice(['auto', 'auto', 'fixed'])
    collapse = rng.random() < 0.4
    rtl = rng.random() < 0.3
    spacing_x, spacing_y = _q(rng, 0, 6), _q(rng, 0, 6)
    if rng.random() < 0.3:
        spacing_x = spacing_y = F(0)
    r = rng.random()
    if layout == 'fixed' or r < 0.45:
        table_width = rng.choice([css_len(_q(rng, 40, page_w)), '100%', '50%', '75%'])
    else:
        table_width = 'auto'
    table_border = _q(rng, 0, 4, (1, 2)) if rng.random() < 0.5 else F(0)
    border_style = rng.choice(['solid', 'solid', 'dashed', 'double', 'dotted', 'ridge', 'inset', 'hidden'])
    cell_pad = _q(rng, 0, 4, (1, 2)) if rng.random() < 0.7 else F(0)
    cell_border = _q(rng, 0, 3, (1, 2)) if rng.random() < 0.6 else F(0)
    container = None
    if rng.random() < 0.35:
        container = _q(rng, 60, page_w)
    caption = rng.choice([None, None, 'top', 'bottom']) if paged else rng.choice([None, None, None, 'top', 'bottom'])

    # columns
    col_html = ''
    if rng.random() < 0.5:
        cols = []
        for i in range(rng.randrange(1, n_cols + 1)):
            w = rng.choice(['', '', f'width:{css_len(_q(rng, 5, 90))}', f'width:{rng.choice([10, 20, 25, 50])}%'])
            b = ''
            if collapse and rng.random() < 0.3:
                b = f'border:{css_len(_q(rng, 1, 4, (1,)))} {rng.choice(BORDER_STYLES[2:])} blue'
            cols.append(f'<col style="{w};{b}">')
        if rng.random() < 0.4:
            k = rng.randrange(0, len(cols) + 1)
            col_html = ('<colgroup>' + ''.join(cols[:k]) + '</colgroup>' if k else '') + \
                       ('<colgroup>' + ''.join(cols[k:]) + '</colgroup>' if cols[k:] else '')
        else:
            col_html = ''.join(cols)

    def cell_style(allow_width=True):
        st = []
        if allow_width and rng.random() < 0.25:
            st.append(rng.choice([f'width:{css_len(_q(rng, 5, 120))}', f'width:{rng.choice([10, 25, 40, 50])}%']))
        if rng.random() < 0.15:
            st.append(f'padding:{css_len(_q(rng, 0, 6, (1, 2)))}')
        if rng.random() < 0.2:
            st.append(f'border:{css_len(_q(rng, 0, 5, (1, 2)))} {rng.choice(BORDER_STYLES)} '
                      f'{rng.choice(["red", "green", "black"])}')
        if rng.random() < 0.1:
            st.append('box-sizing:border-box')
        if not paged and rng.random() < 0.15:
            st.append(f'vertical-align:{rng.choice(["top", "middle", "bottom"])}')
        return ';'.join(st)

    def text():
        if paged or rng.random() < 0.5:
            return rng.choice(WORDS)
        extra = ''
        r = rng.random()
        if r < 0.12:
            # a float is unbreakable content of the cell; an absolutely positioned box is not
            extra = (f'<div style="float:{rng.choice(["left", "right"])};width:{css_len(_q(rng, 5, 70))};'
                     f'height:3px;margin:0 {css_len(_q(rng, 0, 3, (1,)))}"></div>')
        elif r < 0.17:
            extra = f'<div style="position:absolute;width:{css_len(_q(rng, 50, 150))};height:3px"></div>'
        elif r < 0.22:
            extra = f'<div style="width:{css_len(_q(rng, 5, 70))};height:3px"></div>'
        return extra + ' '.join(rng.choice(WORDS) for _ in range(rng.randrange(2, 4)))

    emitted_labels = []

    def make_rows(n_rows, label, start):
        """Rows of one group; rowspans stay inside the group (wide flavour only)."""
        occupied = [set() for _ in range(n_rows)]
        rows = []
        for y in range(n_rows):
            cells = []
            x = 0
            first = True
            while x < n_cols:
                if x in occupied[y]:
                    x += 1
                    continue
                colspan = 1
                if rng.random() < 0.12:
                    colspan = rng.randrange(1, n_cols - x + 1)
                    for k in range(colspan):
                        if x + k in occupied[y]:
                            colspan = k
                            break
                rowspan = 1
                if not paged and rng.random() < 0.12:
                    rowspan = rng.randrange(1, n_rows - y + 1)
                for yy in range(y + 1, y + rowspan):
                    occupied[yy].update(range(x, x + colspan))
                attrs = (f' colspan={colspan}' if colspan > 1 else '') + (f' rowspan={rowspan}' if rowspan > 1 else '')
                content = f'{label}{start + y}' if first else text()
                if first and label == 'r':
                    emitted_labels.append(content)
                first = False
                cells.append(f'<td{attrs} style="{cell_style()}">{content}</td>')
                x += colspan
                if rng.random() < 0.03:
                    break        # a short row
            rstyle = ''
            if collapse and rng.random() < 0.1:
                rstyle = f' style="border:{css_len(_q(rng, 1, 4, (1,)))} {rng.choice(BORDER_STYLES[2:])} green"'
            elif not paged and rng.random() < 0.12:
                rstyle = f' style="height:{css_len(_q(rng, 0, 60, (1, 2)))}"'
            rows.append(f'<tr{rstyle}>' + ''.join(cells) + '</tr>')
        return rows

    if paged:
        n_body = rng.choice([3, 5, 8, 12, 20, 30, 40])
        page_h = rng.choice([60, 80, 100, 120, 160, 240])
    else:
        n_body = rng.choice([1, 2, 3, 4, 6])
        page_h = 4000
    has_head = paged and rng.random() < 0.5 or (not paged and rng.random() < 0.2)
    has_foot = paged and rng.random() < 0.4 or (not paged and rng.random() < 0.15)
    parts = []
    n_head = rng.choice([1, 1, 2]) if has_head else 0
    n_foot = rng.choice([1, 1, 2]) if has_foot else 0
    if has_head:
        parts.append('<thead>' + ''.join(make_rows(n_head, 'h', 0)) + '</thead>')
    # body groups
    remaining, start = n_body, 0
    body_groups = []
    n_groups = rng.choice([1, 1, 2, 3])
    for gi in range(n_groups):
        k = remaining if gi == n_groups - 1 else rng.randrange(1, remaining - (n_groups - gi - 1) + 1) \
            if remaining > n_groups - gi - 1 else 1
        k = max(1, min(k, remaining))
        parts.append('<tbody>' + ''.join(make_rows(k, 'r', start)) + '</tbody>')
        body_groups.append(k)
        start += k
        remaining -= k
        if remaining <= 0:
            break
    n_body = start
    if has_foot:
        parts.append('<tfoot>' + ''.join(make_rows(n_foot, 'f', 0)) + '</tfoot>')
    if has_foot and rng.random() < 0.5:
        # tfoot before the bodies in the source: still laid out last
        parts = parts[:1 if has_head else 0] + [parts[-1]] + parts[1 if has_head else 0:-1]
    cap_html = ''
    if caption:
        cap_html = f'<caption style="caption-side:{caption}">cap</caption>'
    tstyle = [f'table-layout:{layout}', f'width:{table_width}',
              f'border-collapse:{"collapse" if collapse else "separate"}',
              f'border-spacing:{css_len(spacing_x)} {css_len(spacing_y)}',
              f'direction:{"rtl" if rtl else "ltr"}',
              f'border:{css_len(table_border)} {border_style} black']
    if rng.random() < 0.15:
        tstyle.append(f'margin-left:{rng.choice(["auto", "10px", "3px"])}')
    if not collapse and rng.random() < 0.15:
        tstyle.append(f'padding:{css_len(_q(rng, 0, 5, (1, 2)))}')
    before = ''
    if rng.random() < 0.25:
        before = f'<p style="margin:0">{rng.choice(WORDS)}</p>' * rng.randrange(1, 4)
    table = f'<table style="{";".join(tstyle)}">{cap_html}{col_html}{"".join(parts)}</table>'
    if container is not None:
        table = f'<div style="width:{css_len(container)}">{table}</div>'
    css = (f'@page{{size:{page_w}px {page_h}px;margin:0}}'
           f'body{{margin:0;font:{fs}px weasyprint;line-height:{fs}px}}'
           f'td{{padding:{css_len(cell_pad)};border:{css_len(cell_border)} solid gray}}')
    html = f'<style>{css}</style>{before}{table}'
    info = {'flavour': flavour, 'n_cols': n_cols, 'n_body': n_body, 'body_groups': body_groups, 'labels': emitted_labels, 'n_head': n_head, 'n_foot': n_foot,
            'layout': layout, 'collapse': collapse, 'rtl': rtl, 'caption': caption, 'page_h': page_h}
    return html, info


# ---------------------------------------------------------------- extraction from rendered pages

def table_fragments(document):
    """[(page index, page box, wrapper box, TableBox)] in document order."""
    boxes = _mods()[1]
    out = []
    for i, page in enumerate(document.pages):
        for box in page._page_box.descendants():
            if isinstance(box, boxes.TableBox):
                out.append((i, page._page_box, box))
    return out


def cell_texts(cell):
    boxes = _mods()[1]
    return ''.join(b.text for b in cell.descendants() if isinstance(b, boxes.TextBox))


def geom_case(table):
    """(protocol args, implementation output) of the horizontal geometry of one table fragment."""
    from vlib import sx
    ltr = table.style['direction'] == 'ltr'
    collapse = table.style['border_collapse'] == 'collapse'
    s = F(0) if collapse else num(table.style['border_spacing'][0])
    widths = rats(table.column_widths)
    positions = rats(table.column_positions)
    cw = widths if ltr else widths[::-1]
    cells = [c for g in table.children for r in g.children for c in r.children]
    rows = [r for g in table.children for r in g.children]
    args = [ltr, num(table.content_box_x()), num(table.width), s, cw,
            [[c.grid_x, c.colspan] for c in cells]]
    lefts = {(num(b.position_x), num(b.width)) for b in list(table.children) + rows}
    if len(lefts) == 1:
        rows_x, rows_w = next(iter(lefts))
        rows_part = f'{sx.atom(rows_x)} {sx.atom(rows_w)}'
    else:
        rows_part = 'rows-differ ' + repr(sorted(lefts))
    cell_part = ' '.join(
        f'({sx.atom(num(c.position_x))} {sx.atom(num(c.border_width()))} {c.colspan})' for c in cells)
    out = f'{show_rats(positions)} {show_rats(widths)} {rows_part} ({cell_part})'
    return args, out


def rows_case(table, first_fragment, continued_row=False, split_last=False):
    """Vertical geometry of one fragment: rows stacked from the content top.

    `continued_row`: the first body row continues a row split by the previous page break (its cells
    are placed by the split-cell rules, not compared here).  `split_last`: the last body row is cut
    by the page break at the end of this fragment.
    In the collapsing model a continuation fragment without header lays its rows out below a top
    border that is removed again afterwards: the origin is then the first group's top."""
    from vlib import sx
    collapse = table.style['border_collapse'] == 'collapse'
    sp = F(0) if collapse else num(table.style['border_spacing'][1])
    has_header = bool(table.children) and table.children[0].is_header
    if collapse and not first_fragment and not has_header and table.children:
        y = num(table.children[0].position_y)
    else:
        y = num(table.content_box_y()) + (sp if first_fragment else 0)
    body = [g for g in table.children if not (g.is_header or g.is_footer)]
    groups = [[[num(r.height) for r in g.children], bool(split_last and body and g is body[-1])]
              for g in table.children]
    cells, cell_out = [], []
    skip_next_body_row = continued_row
    for gi, g in enumerate(table.children):
        for ri, r in enumerate(g.children):
            if skip_next_body_row and not g.is_header and not g.is_footer:
                skip_next_body_row = False
                continue
            for c in r.children:
                # a row-spanning cell cut by the end of the fragment is not comparable
                if ri + c.rowspan > len(g.children):
                    continue
                # a row-spanning cell ending in a row clamped to height 0 (it starts below the cell's
                # own bottom because of the spacings) keeps its own height: not comparable either
                if c.rowspan > 1 and num(g.children[ri + c.rowspan - 1].height) == 0:
                    continue
                cells.append([gi, ri, c.rowspan])
                cell_out.append(f'({sx.atom(num(c.position_y))} {sx.atom(num(c.border_height()))})')
    args = [y, sp, groups, cells]
    gs = ' '.join(
        f'({sx.atom(num(g.position_y))} {sx.atom(num(g.height))} {show_rats([r.position_y for r in g.children])})'
        for g in table.children)
    end = num(table.content_box_y()) + num(table.height)
    if collapse and not first_fragment and not has_header and table.children:
        end = None      # the table height was measured from the removed top border: not compared
    out = f'({gs}) {sx.atom(end) if end is not None else "-"} ({" ".join(cell_out)})'
    return args, out, end is None


def fragment_rows(table, info):
    """(has_header, has_footer, [global body row indices], [labels found in first cells]).

    Rows are identified by the `index` attributes that `table_layout` sets on groups and rows."""
    has_header = bool(table.children) and table.children[0].is_header
    has_footer = bool(table.children) and table.children[-1].is_footer
    offset = 1 if info['n_head'] else 0
    starts = [0]
    for k in info['body_groups']:
        starts.append(starts[-1] + k)
    rows, labels = [], []
    for g in table.children:
        if g.is_header or g.is_footer:
            continue
        for r in g.children:
            rows.append(starts[g.index - offset] + r.index)
            label = cell_texts(r.children[0]) if r.children else ''
            if label:
                labels.append(label)
    return has_header, has_footer, rows, labels


def pagination_case(document, info):
    """Protocol arguments of the `frags` checker for the (single) table of a generated document."""
    frags = table_fragments(document)
    if not frags:
        return None
    collapse = frags[0][2].style['border_collapse'] == 'collapse'
    sp = F(0) if collapse else num(frags[0][2].style['border_spacing'][1])
    decl_h, decl_f = bool(info['n_head']), bool(info['n_foot'])
    header_h = [num(t.children[0].height) + sp for _, _, t in frags if t.children and t.children[0].is_header]
    footer_h = [num(t.children[-1].height) + sp for _, _, t in frags if t.children and t.children[-1].is_footer]
    bottom = max(num(t.padding_bottom) + num(t.border_bottom_width) for _, _, t in frags)
    all_labels, wire, prev_last = [], [], None
    notes = set()
    for k, (_, page, t) in enumerate(frags):
        has_h, has_f, rows, labels = fragment_rows(t, info)
        all_labels += labels
        args, _, _ = rows_case(t, k == 0)
        y0 = args[0]
        body = [r for g in t.children if not (g.is_header or g.is_footer) for r in g.children]
        first_h = (num(body[0].height) + sp) if body else F(0)
        limit = num(page.content_box_y()) + num(page.height) - bottom
        hh = max(header_h) if header_h else None
        fh = max(footer_h) if footer_h else None
        if (decl_h and hh is None) or (decl_f and fh is None):
            notes.add('group-never-rendered')
            limit = F(-10**9)            # heights unknown: the "fits" clause is vacuous
        if rows and prev_last == rows[0]:
            notes.add('split-row')
        prev_last = rows[-1] if rows else prev_last
        page_bottom = num(page.content_box_y()) + num(page.height)
        end_y = max([num(g.position_y) + num(g.height) for g in t.children] or [y0])
        wire.append([has_h, has_f, rows, y0, hh or F(0), fh or F(0), first_h, limit, end_y, page_bottom])
    expected = sorted(info['labels'])      # rows entirely covered by row-spanning cells have no cell
    labels_once = sorted(all_labels) == expected
    if info.get('body_words') is not None:
        # rows cut by the page: the first cell's text is spread over two fragments; instead every word
        # of every body cell must be shown exactly once over all the fragments
        labels_once = sorted(body_words(document)) == info['body_words']
        notes.add('words-conserved' if labels_once else 'words-lost-or-duplicated')
    if len(frags[0][2].column_widths) < info['n_cols']:
        # fixed layout: the grid is as wide as the first row / the <col>s; cells of later rows beyond
        # it are not rendered (CSS 2.1 17.5.2.1 allows it): their labels are legitimately absent
        notes.add('grid-clipped')
        labels_once = len(set(all_labels)) == len(all_labels) and set(all_labels) <= set(expected)
        if info.get('body_words') is not None:
            import collections
            shown, source = collections.Counter(body_words(document)), collections.Counter(info['body_words'])
            labels_once = all(shown[w] <= source[w] for w in shown)
    return [info['n_body'], decl_h, decl_f, labels_once, wire], notes, len(frags)


# ---------------------------------------------------------------- property clauses stated directly (oracles)

CSS_STYLE_RANK = {s: i for i, s in enumerate(
    ['none', 'inset', 'groove', 'outset', 'ridge', 'dotted', 'dashed', 'solid', 'double', 'hidden'])}


def reference_border_grid(table, gw, gh):
    """CSS 2.1 §17.6.2 stated directly, in *visual* coordinates (column 0 on the left; rtl tables are
    mirrored first): for every grid edge, the candidates are the facing borders of the cell(s), row,
    row group, column, column group and table that touch it, in that order; the winner is the first
    maximum under (hidden, width, style rank); edges strictly inside a spanning cell are suppressed
    (only another `hidden` could win there).  -> (vertical, horizontal) grids of (style, width)."""
    ltr = table.style['direction'] == 'ltr'

    def vis(x, w):
        return x if ltr else gw - x - w

    cand_v = [[[] for _ in range(gw + 1)] for _ in range(gh)]
    cand_h = [[[] for _ in range(gw)] for _ in range(gh + 1)]
    inside_v, inside_h = set(), set()

    def side(style, name):
        color = style[f'border_{name}_color']
        if color == 'currentcolor':
            color = style['color']
        return (style[f'border_{name}_style'], style[f'border_{name}_width'], color)

    def offer(style, x, y, w, h):
        x = vis(x, w)
        for yy in range(y, y + h):
            cand_v[yy][x].append(side(style, 'left'))
            cand_v[yy][x + w].append(side(style, 'right'))
        for xx in range(x, x + w):
            cand_h[y][xx].append(side(style, 'top'))
            cand_h[y + h][xx].append(side(style, 'bottom'))

    rows = [r for g in table.children for r in g.children]
    for y, row in enumerate(rows):
        for cell in row.children:
            x = vis(cell.grid_x, cell.colspan)
            for yy in range(y, y + cell.rowspan):
                for xx in range(x + 1, x + cell.colspan):
                    inside_v.add((yy, xx))
            for yy in range(y + 1, y + cell.rowspan):
                for xx in range(x, x + cell.colspan):
                    inside_h.add((yy, xx))
    for y, row in enumerate(rows):
        for cell in row.children:
            offer(cell.style, cell.grid_x, y, cell.colspan, cell.rowspan)
    for y, row in enumerate(rows):
        offer(row.style, 0, y, gw, 1)
    y = 0
    for group in table.children:
        offer(group.style, 0, y, gw, len(group.children))
        y += len(group.children)
    for cg in table.column_groups:
        for col in cg.children:
            offer(col.style, col.grid_x, 0, 1, gh)
    for cg in table.column_groups:
        offer(cg.style, cg.grid_x, 0, cg.span, gh)
    offer(table.style, 0, 0, gw, gh)

    def key(c):
        return (1 if c[0] == 'hidden' else 0, c[1], CSS_STYLE_RANK[c[0]])

    def winner(cands, inside):
        best = ('hidden', 0, None) if inside else ('none', 0, None)
        # only offers made after the suppression count inside a spanning cell: all of them here,
        # because a spanning cell suppresses before any border is set on that edge by a later box
        for c in cands:
            if key(c) > key(best):
                best = c
        style = {'inset': 'ridge', 'outset': 'groove'}.get(best[0], best[0])
        return style, best[1], best[2]

    vertical = [[winner(cand_v[y][x], (y, x) in inside_v) for x in range(gw + 1)] for y in range(gh)]
    horizontal = [[winner(cand_h[y][x], (y, x) in inside_h) for x in range(gw)] for y in range(gh + 1)]
    return vertical, horizontal


def border_violation(table, gw, gh, result):
    """Does the grid returned by the implementation violate CSS 2.1 §17.6.2 / the halves clause?"""
    if not (gw and gh):
        return None
    try:
        ref_v, ref_h = reference_border_grid(table, gw, gh)
    except IndexError:
        return None          # cells outside the announced grid: not a well-formed table
    vertical, horizontal = result
    for name, ref, got in (('vertical', ref_v, vertical), ('horizontal', ref_h, horizontal)):
        for y, (ref_row, got_row) in enumerate(zip(ref, got)):
            for x, (r, g) in enumerate(zip(ref_row, got_row)):
                style, width, color = g[1]
                if (style, width) != r[:2] and not (width == 0 == r[1] and {style, r[0]} <= {'none', 'hidden'}):
                    return (f'{name} edge ({x},{y}): CSS 2.1 17.6.2 gives {r[0]} {r[1]} but the grid has '
                            f'{style} {width}')
                if width > 0 and style not in ('none', 'hidden') and r[2] is not None and color != r[2]:
                    return (f'{name} edge ({x},{y}): the {style} {width} border of the earlier box in the order '
                            f'cell, row, row group, column, column group, table has colour {r[2]} but the grid '
                            f'has {color}')
    # halves: a cell's used border widths are half the widest winning border along each of its edges
    ltr = table.style['direction'] == 'ltr'
    rows = [r for g in table.children for r in g.children]
    for y, row in enumerate(rows):
        for cell in row.children:
            x = cell.grid_x if ltr else gw - cell.grid_x - cell.colspan
            want = {
                'top': max(ref_h[y][xx][1] for xx in range(x, x + cell.colspan)),
                'bottom': max(ref_h[y + cell.rowspan][xx][1] for xx in range(x, x + cell.colspan)),
                'left': max(ref_v[yy][x][1] for yy in range(y, y + cell.rowspan)),
                'right': max(ref_v[yy][x + cell.colspan][1] for yy in range(y, y + cell.rowspan))}
            for side_name, twice in want.items():
                got = getattr(cell, f'border_{side_name}_width')
                if got * 2 != twice:
                    return (f'cell at ({cell.grid_x},{y}): used border-{side_name}-width {got} is not half of '
                            f'the winning width {twice} along that edge')
    # CSS 2.1 17.6.2: the table's left/right border widths come from the first row only, top/bottom
    # from the whole first/last horizontal line
    want = {'top': max(e[1] for e in ref_h[0]), 'bottom': max(e[1] for e in ref_h[gh]),
            'left': ref_v[0][0][1], 'right': ref_v[0][gw][1]}
    for side_name, twice in want.items():
        got = getattr(table, f'border_{side_name}_width')
        if got * 2 != twice:
            return f'table used border-{side_name}-width {got} is not half of {twice}'
    return None


def geometry_violation(table, layout_widths=None):
    """Columns tile the content box; every cell covers exactly the columns it spans."""
    ltr = table.style['direction'] == 'ltr'
    collapse = table.style['border_collapse'] == 'collapse'
    s = 0 if collapse else table.style['border_spacing'][0]
    widths, positions = list(table.column_widths), list(table.column_positions)   # visual order
    n = len(widths)
    tol = 1e-6
    originating = {c.grid_x for g in table.children for r in g.children for c in r.children}
    # known finding auto-spacing-ignores-spanned-only-column: the auto layout counts no border
    # spacing for a column in which no cell originates, the placement does
    used_fixed = table.style['table_layout'] == 'fixed' and table.style['width'] != 'auto'
    known_short = s and not used_fixed and any(i not in originating for i in range(n))
    if n and not known_short:
        if abs(positions[0] - (table.content_box_x() + s)) > tol:
            return f'first column at {positions[0]}, content box starts at {table.content_box_x()} (+{s})'
        for i in range(n - 1):
            if abs(positions[i + 1] - (positions[i] + widths[i] + s)) > tol:
                return f'columns {i},{i + 1} are not {s} apart: {positions} {widths}'
        end = positions[-1] + widths[-1] + s
        if abs(end - (table.content_box_x() + table.width)) > tol:
            return (f'columns + spacing end at {end} but the content box ends at '
                    f'{table.content_box_x() + table.width}')
    for group in table.children:
        for row in group.children:
            for cell in row.children:
                first = cell.grid_x if ltr else n - cell.grid_x - cell.colspan
                last = first + cell.colspan - 1
                if first < 0 or last >= n:
                    return f'cell {cell_texts(cell)!r} outside the grid'
                if abs(cell.position_x - positions[first]) > tol:
                    return (f'cell {cell_texts(cell)!r} starts at {cell.position_x}, its first column at '
                            f'{positions[first]}')
                if abs(cell.position_x + cell.border_width() - (positions[last] + widths[last])) > tol:
                    return (f'cell {cell_texts(cell)!r} ends at {cell.position_x + cell.border_width()}, its '
                            f'last column at {positions[last] + widths[last]}')
                # auto layout: a column is at least as wide as its widest unbreakable content (the test
                # font is fixed-pitch: a word of k letters is k * font-size wide)
                if not used_fixed and cell.style['font_family'] == ('weasyprint',):
                    boxes = _mods()[1]
                    words = [w for b in cell.descendants() if isinstance(b, boxes.TextBox)
                             for w in b.text.split()]
                    if words:
                        need = max(len(w) for w in words) * cell.style['font_size']
                        if cell.width < need - tol:
                            return (f'auto layout: cell {cell_texts(cell)!r} has content width {cell.width}, its '
                                    f'widest word needs {need}')
                if not used_fixed:
                    for need in unbreakable_needs(cell):
                        if cell.width < need - tol:
                            return (f'auto layout: cell {cell_texts(cell)!r} has content width {cell.width}, a '
                                    f'float / fixed-width block inside it needs {need}')
    return None


def rows_violation(table, continued_row=False):
    """Cells of a row share its top and, when not row-spanning, its height; the rows of a group
    follow each other one vertical border spacing apart."""
    tol = 1e-6
    skip = continued_row
    collapse = table.style['border_collapse'] == 'collapse'
    sp = 0 if collapse else table.style['border_spacing'][1]
    for above, below in zip(table.children, table.children[1:]):
        if above.children and abs(below.position_y - (above.position_y + above.height + sp)) > tol:
            return (f'row groups at y={above.position_y} (height {above.height}) and y={below.position_y} are '
                    f'not {sp} apart')
    for group in table.children:
        for above, below in zip(group.children, group.children[1:]):
            if abs(below.position_y - (above.position_y + above.height + sp)) > tol:
                return (f'rows at y={above.position_y} (height {above.height}) and y={below.position_y} are not '
                        f'{sp} apart')
        for row in group.children:
            if skip and not (group.is_header or group.is_footer):
                skip = False
                header = table.children[0] if table.children[0].is_header else None
                if collapse and header is not None and header.children and header.children[-1].children:
                    # the rest of a cell cut by the page break starts below the bottom border of the
                    # repeated header (the lower half of that line lies over the row)
                    below = row.position_y + max(c.border_bottom_width for c in header.children[-1].children)
                    for cell in row.children:
                        if cell.content_box_y() < below - tol:
                            return (f'continued cell {cell_texts(cell)!r}: its content starts at '
                                    f'y={cell.content_box_y()}, inside the bottom border of the repeated header '
                                    f'(which reaches y={below})')
                for cell in row.children:
                    bottom = cell.position_y + cell.border_height()
                    if cell.rowspan == 1 and abs(bottom - (row.position_y + row.height)) > tol:
                        return (f'continued cell {cell_texts(cell)!r} ends at y={bottom}, its row at '
                                f'y={row.position_y + row.height}')
                continue
            for cell in row.children:
                if abs(cell.position_y - row.position_y) > tol:
                    return f'cell {cell_texts(cell)!r} at y={cell.position_y}, its row at y={row.position_y}'
                if cell.rowspan == 1 and abs(cell.border_height() - row.height) > tol:
                    return f'cell {cell_texts(cell)!r} is {cell.border_height()} high, its row {row.height}'
    return None


def pagination_violation(args):
    """The clauses of the `frags` checker, stated in Python on the same extracted data."""
    n, decl_h, decl_f, labels_once, frags = args
    if not labels_once:
        return 'the content of some body row is missing or appears twice'
    rows = [r for f in frags for r in f[2]]
    merged = [r for i, r in enumerate(rows) if i == 0 or rows[i - 1] != r]
    if merged != list(range(n)):
        return f'body rows over the fragments are {rows}, expected each of 0..{n - 1} once in order'
    for k, (has_h, has_f, frows, y0, hh, fh, first_h, limit, end_y, page_bottom) in enumerate(frags):
        if (has_h or has_f) and not frows and n:
            return f'fragment {k} holds only a header/footer'
        if len(frows) > 1 and end_y > page_bottom * (1 + F(1, 10**9)):
            return f'fragment {k} has {len(frows)} body rows and ends at {end_y}, below the page bottom {page_bottom}'
        if frows and y0 + hh + first_h + fh <= limit:
            if (decl_h and not has_h) or (decl_f and not has_f):
                return (f'fragment {k}: header+row+footer fit ({y0}+{hh}+{first_h}+{fh} <= {limit}) but '
                        f'header present={has_h}, footer present={has_f}')
    return None


def final_columns_violation(table, layout_widths, tol=1e-6):
    """Every fragment is laid out with the column widths the width algorithm computed, and shows them
    in visual order (rtl: reversed).  (Former finding rtl-columns-reversed-on-relayout, repaired by
    d13f52d: `table_layout` reversed the shared list in place, a second layout of the table on the same
    page used the reversed widths.)"""
    if layout_widths is None:
        return None
    want = list(layout_widths) if table.style['direction'] == 'ltr' else list(layout_widths)[::-1]
    got = list(table.column_widths)
    if len(got) != len(want) or any(abs(a - b) > tol * max(1, abs(b)) for a, b in zip(got, want)):
        return (f'{table.style["direction"]} table fragment laid out with the column widths {got} (visual '
                f'order), the width algorithm computed {list(layout_widths)} (logical order)')
    return None


def clause_cases(table, all_tables=None, layout_widths=None):
    """Document-level clauses as protocol lines: the table width that goes with the laid-out
    columns, and every auto-layout cell at least as wide as its widest word (fixed-pitch font)."""
    from vlib import sx
    boxes = _mods()[1]
    collapse = table.style['border_collapse'] == 'collapse'
    used_fixed = table.style['table_layout'] == 'fixed' and table.style['width'] != 'auto'
    widths = rats(table.column_widths)
    out = []
    if widths:
        originating = {c.grid_x for t in (all_tables or [table]) for g in t.children for r in g.children
                       for c in r.children}
        out.append((sx.line('tablewidth', used_fixed, collapse, num(table.style['border_spacing'][0]), widths,
                            len([i for i in range(len(widths)) if i in originating])),
                    sx.atom(num(table.width)), 'fixed-sum' if used_fixed else 'auto-sum'))
    if not used_fixed:
        for group in table.children:
            for row in group.children:
                for cell in row.children:
                    if cell.style['font_family'] != ('weasyprint',):
                        continue
                    lens = [len(w) for b in cell.descendants() if isinstance(b, boxes.TextBox)
                            for w in b.text.split()]
                    if lens:
                        out.append((sx.line('wordfits', num(cell.style['font_size']), lens, num(cell.width)),
                                    'ok', 'min-content'))
                    needs = unbreakable_needs(cell)
                    if needs:
                        out.append((sx.line('contentfits', needs, num(cell.width)), 'ok', 'min-content-box'))
    return out


# ---------------------------------------------------------------- predictive pagination (table_layout calls)

def g_atomic_doc(rng):
    """A table whose rows are never split: every cell holds one word and all cells share padding and
    border; forced breaks on rows / row groups, `break-inside: avoid` on row groups, thead / tfoot,
    several tbody, captions, content before the table, both border models."""
    fs = rng.choice([8, 10, 16])
    n_cols = rng.choice([1, 2, 3, 4])
    page_w = rng.choice([200, 300])
    page_h = rng.choice([50, 60, 80, 100, 120, 160])
    collapse = rng.random() < 0.35
    spacing = _q(rng, 0, 6) if rng.random() < 0.7 else F(0)
    pad = _q(rng, 0, 4, (1, 2))
    border = _q(rng, 0, 3, (1, 2)) if rng.random() < 0.6 else F(0)
    table_border = _q(rng, 0, 6, (1, 2)) if rng.random() < 0.5 else F(0)
    table_pad = _q(rng, 0, 5, (1, 2)) if (not collapse and rng.random() < 0.2) else F(0)

    def brk(p):
        r = rng.random()
        if r < p:
            return rng.choice(['page', 'page', 'page', 'right', 'left'])
        return None

    def rows(n, label, start, allow_breaks=True):
        out = []
        for y in range(n):
            st = []
            if allow_breaks:
                b = brk(0.06)
                if b:
                    st.append(f'break-before:{b}')
                b = brk(0.05)
                if b:
                    st.append(f'break-after:{b}')
            cells = ''.join(f'<td>{label}{start + y}</td>' if x == 0 else f'<td>{rng.choice(WORDS)}</td>'
                            for x in range(n_cols))
            out.append(f'<tr style="{";".join(st)}">{cells}</tr>')
        return ''.join(out)

    n_head = rng.choice([0, 0, 1, 1, 2])
    n_foot = rng.choice([0, 0, 0, 1, 2])
    parts = []
    if n_head:
        parts.append(f'<thead>{rows(n_head, "h", 0, False)}</thead>')
    body_groups = []
    start = 0
    for _ in range(rng.choice([1, 1, 2, 3, 4])):
        k = rng.choice([1, 2, 3, 4, 6, 9, 14])
        st = []
        if rng.random() < 0.2:
            st.append('break-inside:avoid')
        b = brk(0.1)
        if b:
            st.append(f'break-before:{b}')
        b = brk(0.08)
        if b:
            st.append(f'break-after:{b}')
        parts.append(f'<tbody style="{";".join(st)}">{rows(k, "r", start)}</tbody>')
        body_groups.append(k)
        start += k
    if n_foot:
        parts.append(f'<tfoot>{rows(n_foot, "f", 0, False)}</tfoot>')
    caption = rng.choice([None, None, 'top', 'bottom'])
    cap = f'<caption style="caption-side:{caption}">cap</caption>' if caption else ''
    before = f'<p style="margin:0">{rng.choice(WORDS)}</p>' * rng.choice([0, 0, 1, 2, 3])
    tstyle = (f'border-collapse:{"collapse" if collapse else "separate"};border-spacing:{css_len(spacing)};'
              f'border:{css_len(table_border)} solid black;padding:{css_len(table_pad)}')
    if rng.random() < 0.15:
        tstyle += ';break-inside:avoid'
    css = (f'@page{{size:{page_w}px {page_h}px;margin:0}}'
           f'body{{margin:0;font:{fs}px weasyprint;line-height:{fs}px}}'
           f'td{{padding:{css_len(pad)};border:{css_len(border)} solid gray}}')
    html = f'<style>{css}</style>{before}<table style="{tstyle}">{cap}{"".join(parts)}</table>'
    info = {'flavour': 'atomic', 'n_cols': n_cols, 'n_body': start, 'body_groups': body_groups,
            'labels': [f'r{i}' for i in range(start)], 'n_head': n_head, 'n_foot': n_foot,
            'layout': 'auto', 'collapse': collapse, 'rtl': False, 'caption': caption, 'page_h': page_h}
    return html, info


def _skip_depth(skip):
    """Depth of a skip stack / resume_at dict: 1 = {group: None}, 2 = {group: {row: None}}, 3+ = cells."""
    depth = 0
    while skip:
        depth += 1
        if depth > 2:
            return depth
        skip = next(iter(skip.values()))
    return depth


def layout_call_cases(records):
    """Protocol lines for the recorded `table_layout` calls of one document (one table).

    -> (cases, note): cases = [(line, implementation output, tags)], note = why the table was skipped."""
    from vlib import sx
    if not records:
        return [], 'no-call'
    table = records[0]['table']
    if any(r['table'] is not table for r in records):
        return [], 'several-tables'
    # rows must be atomic: a row-spanning cell makes the height of the row it starts in say nothing
    # about whether its content fits (the row it ends in carries it); no call may resume inside a cell
    if any(c.rowspan > 1 for g in table.children for row in g.children for c in row.children):
        return [], 'rowspan'
    for r in records:
        if _skip_depth(r['skip']) > 2 or _skip_depth(r['result'][1]) > 2:
            return [], 'split-row'
    collapse = table.style['border_collapse'] == 'collapse'
    sp = F(0) if collapse else num(table.style['border_spacing'][1])
    groups = list(table.children)
    has_head = bool(groups) and groups[0].is_header
    has_foot = bool(groups) and groups[-1].is_footer
    offset = 1 if has_head else 0
    bodies = [g for g in groups if not (g.is_header or g.is_footer)]
    # heights of the rows, from every fragment any call produced
    heights = {}
    for r in records:
        new_table = r['result'][0]
        if new_table is None:
            continue
        for g in new_table.children:
            key = 'h' if g.is_header else 'f' if g.is_footer else g.index - offset
            for i, row in enumerate(g.children):
                ri = i if key in ('h', 'f') else row.index
                h = num(row.height)
                if heights.setdefault((key, ri), h) != h:
                    return [], 'row-height-varies'

    def group_wire(g, key):
        rows = []
        for i, row in enumerate(g.children):
            if (key, i) not in heights:
                return None
            rows.append([heights[(key, i)], row.style['break_before'], row.style['break_after']])
        return [rows, g.style['break_before'], g.style['break_after'], g.style['break_inside']]

    header = group_wire(groups[0], 'h') if has_head else 'none'
    footer = group_wire(groups[-1], 'f') if has_foot else 'none'
    body_wire = [group_wire(g, k) for k, g in enumerate(bodies)]
    if header is None or footer is None or any(b is None for b in body_wire):
        return [], 'row-never-rendered'
    cases = []
    for r in records:
        skip = r['skip']
        if skip:
            (g, inner), = skip.items()
            skip_wire = [g - offset, 'none' if not inner else next(iter(inner))]
        else:
            skip_wire = 'none'
        y = num(r['content_y']) + (sp if not skip else 0)
        if r['bs'] == -math.inf or r['bs'] == math.inf:
            continue
        line = sx.line('tablefrag', sp, table.style['break_inside'], num(r['page_bottom']), header, footer, body_wire, skip_wire, y,
                       num(r['bs']), r['empty'])
        new_table, resume_at, next_page = r['result']
        tags = ['first' if not skip else 'continued', 'empty-page' if r['empty'] else 'used-page']
        if new_table is None:
            out = 'none'
            tags.append('not-placed')
        else:
            kids = list(new_table.children)
            hd = bool(kids) and kids[0].is_header
            ft = bool(kids) and kids[-1].is_footer
            gs = ' '.join(
                f'({g.index - offset} ({" ".join(str(row.index) for row in g.children)}) '
                f'{sx.atom(num(g.position_y))} {sx.atom(num(g.height))})'
                for g in kids if not (g.is_header or g.is_footer))
            if resume_at:
                (g, inner), = resume_at.items()
                res = f'({g - offset} {"none" if not inner else next(iter(inner))})'
            else:
                res = 'none'
            end_y = num(new_table.content_box_y()) + num(new_table.height)
            out = (f'frag {str(hd).lower()} {str(ft).lower()} ({gs}) {res} {next_page["break"]} '
                   f'{sx.atom(end_y)}')
            tags += [f'header-{hd}' if has_head else 'no-thead', f'footer-{ft}' if has_foot else 'no-tfoot',
                     'resume-row' if resume_at and res.split()[1] != 'none)' else
                     'resume-group' if resume_at else 'complete',
                     'forced' if next_page['break'] != 'any' else 'unforced']
        cases.append((line, out, tags))
    return cases, None


# ---------------------------------------------------------------- split collapsed tables (table_layout bookkeeping)

def split_border_cases(records):
    """Protocol lines of `splitborders` for the recorded `table_layout` calls of collapsed tables:
    skip stack, rows per group, header / footer, the widths of the horizontal border grid in; the
    fragment's `skipped_rows`, whether cells are split, the table's `border_top_width` after the call
    and the two `skip_cell_border_*` flags out.  -> [(line, implementation output, tags)]"""
    from vlib import sx
    cases = []
    for r in records:
        table = r['table']
        if table.style['border_collapse'] != 'collapse' or r['result'][0] is None:
            continue
        groups = list(table.children)
        has_header = bool(groups) and groups[0].is_header
        has_footer = bool(groups) and groups[-1].is_footer
        skip = r['skip']
        if skip:
            (g, inner), = skip.items()
            if inner:
                (ri, cells), = inner.items()
                skip_wire = [g, ri, bool(cells)]
            else:
                skip_wire = [g, 'none']
        else:
            skip_wire = 'none'
        before, after = r['border_top']
        if before is None or after is None:
            continue
        clone = table.style['box_decoration_break'] == 'clone'
        if skip is not None and not has_header and not clone:
            before = 0          # the first remove_decoration(start=True) of the call
        resume_at = r['result'][1]
        broken_in_row = _skip_depth(resume_at) > 2
        _, horizontal = table.collapsed_border_grid
        fragment = r['result'][0]
        header_shown = bool(fragment.children) and fragment.children[0].is_header
        line = sx.line('splitborders', skip_wire, [len(g.children) for g in groups], has_header, header_shown,
                       has_footer,
                       broken_in_row, [[num(e[1][1]) for e in row] for row in horizontal], num(before))
        top, bottom = r['skip_flags']
        out = (f'{fragment.skipped_rows} {str(bool(skip_wire != "none" and len(skip_wire) == 3 and skip_wire[2])).lower()} '
               f'{sx.atom(num(after))} {str(bool(top)).lower()} {str(bool(bottom)).lower()}')
        tags = ['first' if not skip else 'continued', 'header' if has_header else 'no-header',
                'footer' if has_footer else 'no-footer'] + (['broken-in-row'] if broken_in_row else [])
        cases.append((line, out, tags))
    return cases


def split_cell_y_cases(table, continued, header_declared=False):
    """`splitcelly` lines for the cells of the first body row of a fragment: where the cell box starts
    (below the bottom border of a repeated header when the row continues a row cut by the page break
    in the collapsing model, else at the row's top).  -> [(line, implementation output, tags)]"""
    from vlib import sx
    collapse = table.style['border_collapse'] == 'collapse'
    header = table.children[0] if table.children and table.children[0].is_header else None
    if header is None and header_declared:
        # the declared header was dropped (too tall): the code still shifts the continued cells by the
        # borders of that header, which this fragment does not show (known finding
        # collapsed-dropped-header-top-border: `has_header` means declared, not rendered)
        return []
    bottoms = []
    if header is not None and header.children and header.children[-1].children:
        bottoms = rats(c.border_bottom_width for c in header.children[-1].children)
    for g in table.children:
        if g.is_header or g.is_footer:
            continue
        if not g.children:
            return []
        row = g.children[0]
        return [(sx.line('splitcellbox', num(row.position_y), num(row.height), collapse, header is not None,
                         bool(continued), bottoms),
                 f'{sx.atom(num(c.position_y))} {sx.atom(num(c.border_height()))}',
                 ['continued' if continued else 'fresh', 'header' if header is not None else 'no-header',
                  'collapse' if collapse else 'separate']) for c in row.children if c.rowspan == 1]
    return []


# ---------------------------------------------------------------- <col> / <colgroup> boxes (table_layout)

def column_boxes_case(table, first_fragment):
    """(protocol args, implementation output, tags) of `columnboxes` for one table fragment with column
    groups: logical column positions / widths, the rows' origin and end, the grid_x of the columns of
    every group in; the boxes of the columns and of the groups out."""
    from vlib import sx
    groups = list(table.column_groups)
    if not groups or not all(g.children for g in groups):
        return None
    ltr = table.style['direction'] == 'ltr'
    collapse = table.style['border_collapse'] == 'collapse'
    sp = F(0) if collapse else num(table.style['border_spacing'][1])
    pos, cw = rats(table.column_positions), rats(table.column_widths)
    if not ltr:
        pos, cw = pos[::-1], cw[::-1]
    y0 = rows_case(table, first_fragment)[0][0]
    kids = list(table.children)
    end_y = (num(kids[-1].position_y) + num(kids[-1].height) + sp) if kids else y0
    args = [pos, cw, y0, end_y, sp, bool(kids), [[c.grid_x for c in g.children] for g in groups]]

    def box(b):
        return f'({sx.atom(num(b.position_x))} {sx.atom(num(b.position_y))} {sx.atom(num(b.width))} {sx.atom(num(b.height))})'
    out = 'ok ' + ' '.join('((' + ' '.join(box(c) for c in g.children) + ') ' + box(g) + ')' for g in groups)
    tags = ['ltr' if ltr else 'rtl', f'groups{min(len(groups), 3)}',
            'multi-column-group' if any(len(g.children) > 1 for g in groups) else 'single-column-groups']
    return args, out, tags


def columns_violation(table, known=True, tol=1e-6):
    """Every `<col>` box inside the grid is its column (x, width), every `<colgroup>` box covers exactly
    its columns (from the leftmost to the rightmost one) and has a non-negative width.  `known=True`:
    a group of several columns of an rtl table is not judged (known finding
    rtl-column-group-negative-width)."""
    ltr = table.style['direction'] == 'ltr'
    n = len(table.column_widths)
    positions, widths = list(table.column_positions), list(table.column_widths)      # visual order
    for group in table.column_groups:
        inside = [c for c in group.children if c.grid_x < n]
        for col in inside:
            v = col.grid_x if ltr else n - 1 - col.grid_x
            if abs(col.position_x - positions[v]) > tol or abs(col.width - widths[v]) > tol:
                return (f'<col> of grid column {col.grid_x} has the box x={col.position_x} width={col.width}, its '
                        f'column is at x={positions[v]} width={widths[v]}')
        if len(inside) != len(group.children) or not inside:
            continue
        if known and not ltr and len(inside) > 1:
            continue
        left = min(c.position_x for c in inside)
        right = max(c.position_x + c.width for c in inside)
        if group.width < -tol or abs(group.position_x - left) > tol or abs(group.width - (right - left)) > tol:
            return (f'<colgroup> of the grid columns {[c.grid_x for c in inside]} has the box x={group.position_x} '
                    f'width={group.width}, its columns reach from x={left} to x={right}')
    return None


# ---------------------------------------------------------------- header / footer groups (wrap_table)

def group_order_out(out):
    """[(input index, is_header, is_footer)] of table.children -> the canonical string of `grouporder`;
    a header that is not first / a footer that is not last / a foreign group gives `bad-order …`."""
    header = next((i for i, h, f in out if h), None)
    footer = next((i for i, h, f in out if f), None)
    bodies = [i for i, h, f in out if not h and not f]
    ok = (all(i is not None for i, _, _ in out) and sum(1 for _, h, _ in out if h) <= 1 and
          sum(1 for _, _, f in out if f) <= 1 and (header is None or out[0][1]) and (footer is None or out[-1][2]))
    text = (f'{"none" if header is None else header} ({" ".join(map(str, bodies))}) '
            f'{"none" if footer is None else footer}')
    return text if ok else 'bad-order ' + text


GROUP_TAGS = {'header': 'thead', 'footer': 'tfoot', 'body': 'tbody'}


def g_groups_doc(rng):
    """Tables with 1..6 row groups of any kind in any order — several thead / tfoot included, the kind
    given by the element or by `display` on another element — 1..3 rows each, on a tall page or on
    small pages (header and footer repeated).  info['kinds'] / info['group_rows'] describe the source."""
    fs = 10
    n_cols = rng.choice([1, 2])
    paged = rng.random() < 0.4
    page_h = rng.choice([50, 60, 80, 120]) if paged else 4000
    collapse = rng.random() < 0.3
    kinds, group_rows, parts = [], [], []
    for gi in range(rng.choice([1, 2, 3, 3, 4, 5, 6])):
        kind = rng.choice(['body', 'body', 'header', 'footer', 'footer'])
        n_rows = rng.choice([1, 1, 2, 3])
        rows = ''.join('<tr>' + ''.join(f'<td>g{gi}r{ri}</td>' if x == 0 else f'<td>{rng.choice(WORDS)}</td>'
                                        for x in range(n_cols)) + '</tr>' for ri in range(n_rows))
        if rng.random() < 0.3:
            other = rng.choice([t for t in GROUP_TAGS.values() if t != GROUP_TAGS[kind]])
            display = {'header': 'table-header-group', 'footer': 'table-footer-group', 'body': 'table-row-group'}[kind]
            parts.append(f'<{other} style="display:{display}">{rows}</{other}>')
        else:
            parts.append(f'<{GROUP_TAGS[kind]}>{rows}</{GROUP_TAGS[kind]}>')
        kinds.append(kind)
        group_rows.append(n_rows)
    tstyle = f'border-collapse:{"collapse" if collapse else "separate"};border-spacing:{rng.choice([0, 2])}px'
    css = (f'@page{{size:200px {page_h}px;margin:0}}body{{margin:0;font:{fs}px weasyprint;line-height:{fs}px}}'
           f'td{{padding:0;border:{rng.choice([0, 1])}px solid gray}}')
    html = f'<style>{css}</style><table style="{tstyle}">{"".join(parts)}</table>'
    first_h = kinds.index('header') if 'header' in kinds else None
    first_f = kinds.index('footer') if 'footer' in kinds else None
    n_body = sum(n for i, n in enumerate(group_rows) if i not in (first_h, first_f))
    info = {'flavour': 'groups', 'kinds': kinds, 'group_rows': group_rows, 'n_cols': n_cols, 'n_body': n_body,
            'body_groups': [n for i, n in enumerate(group_rows) if i not in (first_h, first_f)],
            'labels': [f'g{gi}r{ri}' for gi, n in enumerate(group_rows) if gi not in (first_h, first_f)
                       for ri in range(n)],
            'n_head': group_rows[first_h] if first_h is not None else 0,
            'n_foot': group_rows[first_f] if first_f is not None else 0, 'layout': 'auto', 'collapse': collapse,
            'rtl': False, 'caption': None, 'page_h': page_h}
    return html, info


def groups_violation(document, info):
    """CSS 2.1 17.2 / "each body row appears once, header and footer groups are repeated": only the
    first thead / tfoot is the header / footer; the rows of every other group are shown exactly once
    over the fragments, in source order; a repeated header / footer shows the rows of the first thead /
    tfoot."""
    import collections
    kinds, group_rows = info['kinds'], info['group_rows']
    first_h = kinds.index('header') if 'header' in kinds else None
    first_f = kinds.index('footer') if 'footer' in kinds else None
    want_body = [f'g{gi}r{ri}' for gi, n in enumerate(group_rows) if gi not in (first_h, first_f) for ri in range(n)]
    shown = []
    for _, _, t in table_fragments(document):
        for g in t.children:
            labels = [cell_texts(r.children[0]) for r in g.children if r.children]
            if g.is_header or g.is_footer:
                first, name = (first_h, 'header') if g.is_header else (first_f, 'footer')
                want = [f'g{first}r{ri}' for ri in range(group_rows[first])] if first is not None else []
                if labels != want:
                    return (f'the repeated {name} shows the rows {labels}, the first '
                            f'table-{name}-group of the table has the rows {want}')
            else:
                shown.extend(labels)
    if shown != want_body:
        missing = collections.Counter(want_body) - collections.Counter(shown)
        extra = collections.Counter(shown) - collections.Counter(want_body)
        return (f'rows of the groups that are not the header / footer: shown {shown}, expected each of {want_body} '
                f'once in order (missing {sorted(missing)}, extra {sorted(extra)})')
    return None


# ---------------------------------------------------------------- rows split by a page break (cell skip stacks)

def _chain(d):
    """{a: {b: None}} -> [a, b]; None -> None; a dict with several keys -> 'complex'."""
    if d is None:
        return None
    out = []
    while d:
        if len(d) != 1:
            return 'complex'
        (k, d), = d.items()
        out.append(k)
    return out


def _chain_wire(c):
    return 'none' if c is None else list(c)


def cell_skip_cases(records):
    """Protocol lines for the per-cell resume bookkeeping of the recorded `table_layout` calls of one
    document: `cellskip` for every `block_container_layout` call made for a cell (which skip stack the
    cell was given: the one stored under its index in the row, `{len(children): None}` for a finished
    cell of the resumed row, None elsewhere), `rowresume` for every call that ends inside a row (the
    dict stored under the row's index is built from the cells' resume points, keyed by cell index).
    -> [(line, implementation output, tags)]"""
    from vlib import sx
    cases = []
    for r in records:
        table = r['table']
        where = {}
        for gi, g in enumerate(table.children):
            for ri, row in enumerate(g.children):
                for ci, cell in enumerate(row.children):
                    where[id(cell)] = (gi, ri, ci, len(row.children), cell)
        skip = r['skip']
        resumed, row_skip = None, None
        if skip and len(skip) == 1:
            (g, inner), = skip.items()
            if inner and len(inner) == 1:
                (ri, row_skip), = inner.items()
                resumed = (g, ri)
        if row_skip is None:
            row_wire = 'none'
        else:
            chains = {k: _chain(v) for k, v in row_skip.items()}
            if any(c == 'complex' or c is None for c in chains.values()):
                continue
            row_wire = [[k, c] for k, c in chains.items()]
        last = {}            # (group, row) -> {cell index: call}, the last attempt
        for call in r['cell_calls']:
            pos = where.get(id(call['cell']))
            if pos is None or pos[4] is not call['cell']:
                continue      # the empty copy laid out when nothing of the cell fits
            gi, ri, ci, n_cells, _ = pos
            got = _chain(call['skip'])
            if got == 'complex':
                continue
            in_resumed = resumed == (gi, ri)
            grid_x = getattr(call['cell'], 'grid_x', ci)
            tags = ['resumed-row' if in_resumed else 'fresh-row']
            if in_resumed:
                tags.append('index!=grid_x' if grid_x != ci else 'index=grid_x')
                tags.append('pending-cell' if row_skip and ci in row_skip else 'finished-cell')
            cases.append((sx.line('cellskip', row_wire if in_resumed else 'none', ci, call['n']),
                          'none' if got is None else '(' + ' '.join(map(str, got)) + ')', tags))
            last.setdefault((gi, ri), {})[ci] = (call, n_cells)
        resume_at = r['result'][1]
        if resume_at and len(resume_at) == 1:
            (g, inner), = resume_at.items()
            if inner and len(inner) == 1:
                (ri, row_resume), = inner.items()
                calls = last.get((g, ri))
                if row_resume and calls and len(calls) == next(iter(calls.values()))[1]:
                    results, ok = [], True
                    for ci in range(len(calls)):
                        call = calls[ci][0]
                        given, got = _chain(call['skip']), _chain(call['resume'])
                        ok = ok and 'complex' not in (given, got)
                        results.append([call['placed'], _chain_wire(given), _chain_wire(got)])
                    out = {k: _chain(v) for k, v in row_resume.items()}
                    if ok and 'complex' not in out.values():
                        unplaced = any(not r[0] for r in results)
                        cases.append((sx.line('rowresumeraw', results),
                                      '(' + ' '.join(f'({k} ({" ".join(map(str, c))}))' for k, c in out.items()) + ')',
                                      ['row-resume', f'pending{len(out)}'] +
                                      (['cell-placed-nothing'] if unplaced else [])))
    return cases


def body_words(document):
    """Words shown in the body cells (not thead / tfoot) of every table fragment, in page order."""
    boxes = _mods()[1]
    out = []
    for _, _, t in table_fragments(document):
        for g in t.children:
            if g.is_header or g.is_footer:
                continue
            for row in g.children:
                for cell in row.children:
                    for b in cell.descendants():
                        if isinstance(b, boxes.TextBox):
                            out.extend(b.text.split())
    return out


def g_split_doc(rng):
    """Tables whose rows are taller than what is left of the page: cells with many words in narrow
    columns, colspans and rowspans *before* the cell that is cut (index in the row != grid column),
    optional thead, both border models and layouts.  Returns (html, info); info['body_words'] is the
    sorted list of the words of the body cells."""
    fs = rng.choice([8, 10])
    n_cols = rng.choice([2, 3, 3, 4])
    page_w = rng.choice([200, 300])
    page_h = rng.choice([40, 50, 60, 80, 100, 120])
    layout = rng.choice(['auto', 'auto', 'fixed'])
    collapse = rng.random() < 0.3
    spacing = _q(rng, 0, 4) if rng.random() < 0.6 else F(0)
    pad = _q(rng, 0, 2, (1, 2))
    border = _q(rng, 0, 2, (1, 2)) if rng.random() < 0.5 else F(0)
    n_rows = rng.choice([2, 3, 3, 4, 5])
    words_out = []
    occupied = [set() for _ in range(n_rows)]
    rows_html = []
    labels = []
    for y in range(n_rows):
        cells = []
        x = 0
        first = True
        while x < n_cols:
            if x in occupied[y]:
                x += 1
                continue
            colspan = 1
            if rng.random() < 0.3 and x + 1 < n_cols:
                colspan = rng.randrange(2, n_cols - x + 1)
                for k in range(colspan):
                    if x + k in occupied[y]:
                        colspan = k
                        break
            rowspan = 1
            if rng.random() < 0.15 and y + 1 < n_rows:
                rowspan = 2
            for yy in range(y + 1, y + rowspan):
                occupied[yy].update(range(x, x + colspan))
            n_words = rng.choice([1, 1, 2, 4, 6, 9, 14, 20])
            ws = [rng.choice(WORDS) for _ in range(n_words)]
            if first:
                ws[0] = f'r{y}'
                labels.append(f'r{y}')
                first = False
            words_out.extend(ws)
            attrs = (f' colspan={colspan}' if colspan > 1 else '') + (f' rowspan={rowspan}' if rowspan > 1 else '')
            cells.append(f'<td{attrs}>{" ".join(ws)}</td>')
            x += colspan
        rows_html.append('<tr>' + ''.join(cells) + '</tr>')
    n_head = 1 if rng.random() < 0.3 else 0
    head = ''
    if n_head:
        head = '<thead><tr>' + ''.join(f'<td>h{x}</td>' for x in range(n_cols)) + '</tr></thead>'
    before = f'<p style="margin:0">{rng.choice(WORDS)}</p>' * rng.choice([0, 0, 1, 2])
    width = rng.choice(['100%', '60%', css_len(_q(rng, 80, page_w))]) if layout == 'fixed' or rng.random() < 0.5 \
        else 'auto'
    tstyle = (f'table-layout:{layout};width:{width};border-collapse:{"collapse" if collapse else "separate"};'
              f'border-spacing:{css_len(spacing)}')
    css = (f'@page{{size:{page_w}px {page_h}px;margin:0}}'
           f'body{{margin:0;font:{fs}px weasyprint;line-height:{fs}px}}'
           f'td{{padding:{css_len(pad)};border:{css_len(border)} solid gray;vertical-align:top}}')
    html = f'<style>{css}</style>{before}<table style="{tstyle}">{head}<tbody>{"".join(rows_html)}</tbody></table>'
    info = {'flavour': 'split', 'n_cols': n_cols, 'n_body': n_rows, 'body_groups': [n_rows], 'labels': labels,
            'n_head': n_head, 'n_foot': 0, 'layout': layout, 'collapse': collapse, 'rtl': False, 'caption': None,
            'page_h': page_h, 'body_words': sorted(words_out)}
    return html, info


# ---------------------------------------------------------------- painted collapsed borders (draw_collapsed_borders)

class DrawColors(ColorIds):
    """Colour ids for the painting model: every colour with alpha 0 is 0 (not painted)."""

    def __call__(self, color):
        if getattr(color, 'alpha', 1) == 0:
            return 0
        return super().__call__(color)


class _StubStream:
    def push_state(self):
        pass

    def pop_state(self):
        pass


def painted_segments(table):
    """Calls the real `draw_collapsed_borders` on a laid-out table fragment with a stub stream and
    records the lines it paints (`draw_line` and `styled_color` of the draw module are replaced for the
    call).  -> ([(style, width, color, side, x1, y1, x2, y2)], error class name | None)"""
    import weasyprint.draw as draw
    calls = []
    orig_line, orig_color = draw.draw_line, draw.styled_color

    def line(stream, x1, y1, x2, y2, thickness, style, color, offset=0):
        color, side = color
        calls.append((style, thickness, color, side, x1, y1, x2, y2))

    draw.draw_line = line
    draw.styled_color = lambda style, color, side: (color, side)
    try:
        draw.draw_collapsed_borders(_StubStream(), table)
    except Exception as exc:  # noqa: BLE001
        return calls, type(exc).__name__
    finally:
        draw.draw_line, draw.styled_color = orig_line, orig_color
    return calls, None


def pipeline_border_lines(document):
    """The lines `draw_collapsed_borders` paints while the document is really written to PDF
    (`document.write_pdf()`, real streams): `weasyprint.draw.draw_line` — used by that function only —
    records and then calls the original.  -> [(style, width, x1, y1, x2, y2)] in painting order."""
    import weasyprint.draw as draw
    calls = []
    orig = draw.draw_line

    def line(stream, x1, y1, x2, y2, thickness, style, color, offset=0):
        calls.append((style, thickness, x1, y1, x2, y2))
        return orig(stream, x1, y1, x2, y2, thickness, style, color, offset)

    draw.draw_line = line
    try:
        document.write_pdf()
    finally:
        draw.draw_line = orig
    return calls


def fragment_rows_header_footer(table):
    header_rows = len(table.children[0].children) if table.children and table.children[0].is_header else 0
    footer_rows = len(table.children[-1].children) if table.children and table.children[-1].is_footer else 0
    return header_rows, footer_rows


def draw_borders_case(table, pipeline=None):
    """(protocol args, implementation output, tags) of `drawborders` for one collapsed fragment.
    `pipeline`: what is left of `pipeline_border_lines(document)`: the fragment's lines are taken from
    its head and must be the ones the direct call paints."""
    from vlib import sx
    colors = DrawColors()
    rows = [r for g in table.children for r in g.children]
    vertical, horizontal = table.collapsed_border_grid
    header_rows, footer_rows = fragment_rows_header_footer(table)

    def grid(g):
        return [[sx.loads_line(_edge(e, colors))[0] for e in row] for row in g]
    args = [rats(r.height for r in rows), rats(r.position_y for r in rows), rats(table.column_widths),
            rats(table.column_positions), header_rows, footer_rows, int(table.skipped_rows or 0),
            bool(table.skip_cell_border_top), bool(table.skip_cell_border_bottom), grid(vertical), grid(horizontal)]
    calls, err = painted_segments(table)
    if pipeline is not None and not err:
        seen = pipeline[:len(calls)]
        del pipeline[:len(calls)]
        direct = [(style, w, x1, y1, x2, y2) for style, w, _, _, x1, y1, x2, y2 in calls]
        if seen != direct:
            k = next((i for i, (a, b) in enumerate(zip(seen, direct)) if a != b), min(len(seen), len(direct)))
            err = (f'pipeline-differs: writing the PDF painted {len(seen)} of the {len(direct)} lines of this '
                   f'fragment, first difference at line {k}')
    if err:
        out = err if err.startswith('pipeline') else f'err:{err}'
    else:
        out = 'ok (' + ' '.join(
            f'({style} {sx.atom(num(w))} {colors(color)} {side} {sx.atom(num(x1))} {sx.atom(num(y1))} '
            f'{sx.atom(num(x2))} {sx.atom(num(y2))})' for style, w, color, side, x1, y1, x2, y2 in calls) + ')'
    tags = ['skipped-rows' if table.skipped_rows else 'from-first-row',
            'header' if header_rows else 'no-header', 'footer' if footer_rows else 'no-footer']
    if table.skip_cell_border_top or table.skip_cell_border_bottom:
        tags.append('split-cells')
    return args, out, tags


def painted_violation(table, tol=1e-6, known=True, header_declared=False, continued_top=None, cut_bottom=None):
    """Painting agrees with layout: along every edge of a repeated header / footer cell, and along the
    edges of body cells that do not touch the header, the footer or the fragment's ends, the widest line
    painted is twice the used border width the cell was laid out with (border_halves, on what is
    actually drawn).  Fragments with rows / columns thinner than the borders are not judged.
    `known=True`: not judged are the clipped grid of an rtl fixed-layout table (known finding
    collapsed-rtl-clipped-grid) and the top border reserved on a fragment whose declared header was
    dropped (known finding collapsed-dropped-header-top-border: `header_declared`, no header shown)."""
    calls, err = painted_segments(table)
    if err:
        return f'draw_collapsed_borders raised {err}'
    rows = [(g, r) for g in table.children for r in g.children]
    if not rows or not table.column_widths:
        return None
    row_pos = [r.position_y for _, r in rows] + [rows[-1][1].position_y + rows[-1][1].height]
    col_pos = list(table.column_positions) + [table.column_positions[-1] + table.column_widths[-1]]
    widest = max([w for _, w, *_ in calls] or [0])
    if any(b - a <= widest + tol for a, b in zip(row_pos, row_pos[1:])) or \
            any(b - a <= widest + tol for a, b in zip(col_pos, col_pos[1:])):
        return None

    def index(pos, lo, hi):
        """The grid interval [pos[i], pos[i+1]] that the painted interval [lo, hi] covers."""
        mid = (lo + hi) / 2
        for i in range(len(pos) - 1):
            if pos[i] - tol <= mid <= pos[i + 1] + tol:
                return i
        return None

    def line(pos, v):
        for i, p in enumerate(pos):
            if abs(p - v) <= tol:
                return i
        return None

    hor, ver = {}, {}
    for style, w, color, side, x1, y1, x2, y2 in calls:
        if side == 'top':
            y, x = line(row_pos, y1), index(col_pos, x1, x2)
            if y is not None and x is not None:
                hor[(y, x)] = max(hor.get((y, x), 0), w)
        else:
            x, y = line(col_pos, x1), index(row_pos, y1, y2)
            if y is not None and x is not None:
                ver[(y, x)] = max(ver.get((y, x), 0), w)
    ltr = table.style['direction'] == 'ltr'
    n = len(table.column_widths)
    vertical_grid = table.collapsed_border_grid[0]
    if vertical_grid and len(vertical_grid[0]) != n + 1 and not ltr and known:
        # fixed layout clipped the grid (cells beyond it are not rendered, CSS 2.1 17.5.2.1): known
        # finding collapsed-rtl-clipped-grid, the kept columns of an rtl table are painted from the
        # wrong end of the grid
        return None
    body = [i for i, (g, _) in enumerate(rows) if not (g.is_header or g.is_footer)]
    _, footer_rows = fragment_rows_header_footer(table)
    y = 0
    for g in table.children:
        for ri, row in enumerate(g.children):
            for cell in row.children:
                if ri + cell.rowspan > len(g.children):
                    continue                   # a row-spanning cell cut by the fragment
                x0 = cell.grid_x if ltr else n - cell.grid_x - cell.colspan
                xs, ys = range(x0, x0 + cell.colspan), range(y, y + cell.rowspan)
                fixed_part = g.is_header or g.is_footer
                edges = [('left', [ver.get((yy, x0)) for yy in ys]),
                         ('right', [ver.get((yy, x0 + cell.colspan)) for yy in ys])]
                if fixed_part or (body and y != body[0]):
                    edges.append(('top', [hor.get((y, xx)) for xx in xs]))
                if fixed_part or (body and y + cell.rowspan - 1 != body[-1]):
                    edges.append(('bottom', [hor.get((y + cell.rowspan, xx)) for xx in xs]))
                if not fixed_part and (y == body[0] or y + cell.rowspan - 1 == body[-1]) and (
                        table.skip_cell_border_top or table.skip_cell_border_bottom):
                    continue                   # cells cut by the page break
                for side, painted in edges:
                    painted = [w for w in painted if w is not None]
                    used = getattr(cell, f'border_{side}_width')
                    if painted and abs(max(painted) - 2 * used) > tol:
                        part = 'header' if g.is_header else 'footer' if g.is_footer else 'body'
                        return (f'collapsed borders: the {side} edge of the {part} cell {cell_texts(cell)!r} '
                                f'(grid column {cell.grid_x}, fragment row {y}) is painted {max(painted)} wide, the '
                                f'cell was laid out with a used border-{side}-width of {used} (half of {2 * used})')
            y += 1
    # the painted lines stay within half the widest border around the grid of the fragment
    half = widest / 2 + tol
    for style, w, color, side, x1, y1, x2, y2 in calls:
        if min(x1, x2) < col_pos[0] - half or max(x1, x2) > col_pos[-1] + half or \
                min(y1, y2) < row_pos[0] - half or max(y1, y2) > row_pos[-1] + half:
            return (f'collapsed borders: a {w} wide {style} line is painted from ({x1}, {y1}) to ({x2}, {y2}), '
                    f'more than half the widest border ({widest}) outside the grid of the fragment '
                    f'[{col_pos[0]}, {col_pos[-1]}] x [{row_pos[0]}, {row_pos[-1]}]')
    # the first row lies half the widest border of the top line below the table's border-box top
    top = [hor.get((0, x)) for x in range(n)]
    header_dropped = header_declared and not table.children[0].is_header
    # (a declared header that was dropped leaves the header's top border reserved: known finding
    # collapsed-dropped-header-top-border, `has_header` means declared, not rendered)
    if not table.skip_cell_border_top and all(w is not None for w in top) and not (known and header_dropped):
        gap = row_pos[0] - table.border_box_y() - table.padding_top
        if abs(gap - max(top) / 2) > tol:
            return (f'collapsed borders: the top line of the fragment is painted {max(top)} wide, the layout '
                    f'reserved {gap} (not half of it) between the top of the table box and its first row')
    # the outer lines of a repeated header / footer are never skipped
    horizontal_grid = table.collapsed_border_grid[1]
    header_rows, _ = fragment_rows_header_footer(table)

    def visible(entry):
        return entry[1][1] > 0 and getattr(entry[1][2], 'alpha', 1) != 0

    # the outer lines of the body are left open only where a row is really cut by the page break:
    # `continued_top` / `cut_bottom` say whether the first body row continues a row cut by the previous
    # page / the last one is cut by this page's end (None = not known: not judged)
    body_offset = (table.skipped_rows - header_rows) if table.skipped_rows else 0
    for known_uncut, shown, y_line, flag, name in (
            (continued_top is False, header_rows, 0, 'skip_cell_border_top', 'top'),
            (cut_bottom is False, footer_rows, len(rows), 'skip_cell_border_bottom', 'bottom')):
        if known_uncut and not shown and horizontal_grid and 0 <= y_line + body_offset < len(horizontal_grid):
            for x in range(n):
                entry = horizontal_grid[y_line + body_offset][x]
                if visible(entry) and hor.get((y_line, x)) is None:
                    return (f'collapsed borders: the {name} line of the fragment (column {x}) has the border '
                            f'{entry[1][:2]} in the grid but is not painted, although the row next to it is not '
                            f'cut by a page break ({flag} = {getattr(table, flag, None)})')
    for present, grid_line, y_line, name in ((header_rows, 0, 0, 'top line of the repeated header'),
                                             (footer_rows, -1, len(rows), 'bottom line of the repeated footer')):
        if present and horizontal_grid:
            for x in range(n):
                if visible(horizontal_grid[grid_line][x]) and hor.get((y_line, x)) is None:
                    return (f'collapsed borders: the {name} (column {x}) has the border '
                            f'{horizontal_grid[grid_line][x][1][:2]} in the grid but is not painted')
    return None


# ---------------------------------------------------------------- intrinsic widths of one cell

def child_pos(box):
    """Positioning scheme of a cell's child as the model names it."""
    if box.is_absolutely_positioned():
        return 'absolute'
    if box.is_floated():
        return 'floated'
    if box.is_running() or box.is_footnote():
        return 'running'
    return 'normal'


def _side_dim(value):
    return 'auto' if value == 'auto' else dim_wire(style_dim(value))


def cell_width_args(cell, child_widths, outer):
    """Protocol arguments of `cellwidths` read from a (real or mock) cell box; `child_widths` =
    [(min, max)] of its children as the real helpers give them."""
    style = cell.style
    mn, mx = style['min_width'], style['max_width']
    collapse = style['border_collapse'] == 'collapse'
    bl = cell.border_left_width if collapse and hasattr(cell, 'border_left_width') else style['border_left_width']
    br = cell.border_right_width if collapse and hasattr(cell, 'border_right_width') else style['border_right_width']
    return [outer, [[num(a), num(b), child_pos(c)] for c, (a, b) in zip(cell.children, child_widths)],
            dim_wire(style_dim(style['width'])),
            num(mn.value) if mn != 'auto' and mn.unit != '%' else F(0),
            num(mx.value) if mx != 'auto' and mx.unit != '%' and math.isfinite(mx.value) else 'inf',
            _side_dim(style['margin_left']), _side_dim(style['margin_right']),
            _side_dim(style['padding_left']), _side_dim(style['padding_right']), num(bl), num(br)]


def g_cell_spec(rng, adv=False):
    """A mock cell: 0..5 children (min/max-content widths, positioning scheme), width auto/px/%,
    min/max-width, margins, paddings (px / %), borders, border model."""
    def side(p_pct=0.15, p_auto=0.0):
        r = rng.random()
        if r < p_auto:
            return ('auto',)
        if r < p_auto + p_pct:
            return ('pct', rng.choice([F(5), F(10), F(25), F(50)] + ([F(100), F(60)] if adv else [])))
        return ('px', g_small(rng, 0, 6, adv) if rng.random() < 0.6 else F(0))
    children = []
    for _ in range(rng.choice([0, 1, 1, 2, 2, 3, 4, 5])):
        mn = g_small(rng, 0, 60, adv)
        mx = mn + (g_small(rng, 0, 80) if rng.random() < 0.7 else 0)
        if adv and rng.random() < 0.2:
            mx = g_small(rng, 0, 40, True)
        pos = rng.choice(['static', 'static', 'static', 'float-left', 'float-right', 'absolute', 'fixed',
                          'running', 'footnote'])
        children.append((mn, mx, pos))
    r = rng.random()
    width = ('auto',) if r < 0.5 else ('px', g_small(rng, 0, 90, adv)) if r < 0.8 else ('pct', F(rng.choice([10, 50])))
    return {'children': children, 'width': width,
            'min_w': g_small(rng, 0, 70) if rng.random() < 0.2 else None,
            'max_w': g_small(rng, 0, 70) if rng.random() < 0.2 else None,
            'ml': side(0.1, 0.1), 'mr': side(0.1, 0.1), 'pl': side(), 'pr': side(),
            'bl': g_small(rng, 0, 4), 'br': g_small(rng, 0, 4),
            'used_bl': g_small(rng, 0, 4), 'used_br': g_small(rng, 0, 4),
            'collapse': rng.random() < 0.4, 'outer': rng.random() < 0.6}


def call_cell_widths(spec):
    """Real `table_cell_min_max_content_width` on a mock cell whose children's intrinsic widths are
    stubbed (text measurement is not modelled).  -> (line args, output)."""
    from vlib import sx
    Dimension, boxes, _, preferred = _mods()
    kids = []
    for mn, mx, pos in spec['children']:
        style = {'position': 'static', 'float': 'none'}
        if pos.startswith('float-'):
            style['float'] = pos[6:]
        elif pos == 'footnote':
            style['float'] = 'footnote'
        elif pos == 'running':
            style['position'] = ('running()', 'header')
        elif pos != 'static':
            style['position'] = pos
        kid = boxes.BlockBox('div', style, None, [])
        kid._min, kid._max = mn, mx
        kids.append(kid)

    def side(d):
        return 'auto' if d[0] == 'auto' else dim_style(d)
    style = {'width': dim_style(spec['width']),
             'min_width': Dimension(spec['min_w'], 'px') if spec['min_w'] is not None else 'auto',
             'max_width': Dimension(spec['max_w'], 'px') if spec['max_w'] is not None else 'auto',
             'margin_left': side(spec['ml']), 'margin_right': side(spec['mr']),
             'padding_left': side(spec['pl']), 'padding_right': side(spec['pr']),
             'border_left_width': spec['bl'], 'border_right_width': spec['br'],
             'border_collapse': 'collapse' if spec['collapse'] else 'separate'}
    cell = boxes.TableCellBox('td', style, None, kids)
    if spec['collapse']:
        cell.border_left_width, cell.border_right_width = spec['used_bl'], spec['used_br']
    args = cell_width_args(cell, [(k._min, k._max) for k in kids], spec['outer'])
    stubs = {'min_content_width': lambda ctx, box, outer=True: box._min,
             'max_content_width': lambda ctx, box, outer=True: box._max}
    saved = {name: getattr(preferred, name) for name in stubs}
    try:
        for name, fn in stubs.items():
            setattr(preferred, name, fn)
        try:
            mn, mx = preferred.table_cell_min_max_content_width(None, cell, spec['outer'])
        except Exception as exc:  # noqa: BLE001
            return args, f'err:{type(exc).__name__}'
    finally:
        for name, fn in saved.items():
            setattr(preferred, name, fn)
    return args, f'{sx.atom(num(mn))} {sx.atom(num(mx))}'


def cell_widths_violation(spec, out):
    """cell_min_covers / cell_max_ge_min stated directly: the content-box min-content width of a cell
    covers every child that is not absolutely positioned unless max-width forbids it; max >= min."""
    if out.startswith('err:'):
        return f'table_cell_min_max_content_width raised {out}'
    mn, mx = (Fraction(x) for x in out.split())
    if mx < mn:
        return f'cell max-content width {mx} below its min-content width {mn}'
    if spec['outer']:
        return None
    need = max([c[0] for c in spec['children'] if c[2] not in ('absolute', 'fixed')] or [F(0)])
    if spec['max_w'] is not None and spec['max_w'] < need:
        return None
    if mn < need:
        return (f'cell min-content width {mn} is less than the min-content width {need} of one of its children '
                f'that are not absolutely positioned: {spec["children"]}')
    return None


def doc_cell_width_case(context, cell):
    """`cellwidths` case for one cell of a rendered document: the children's widths from the real
    helpers, the cell's from the real `table_cell_min_max_content_width` (outer)."""
    from vlib import sx
    preferred = _mods()[3]
    widths = [(0, 0) if c.is_absolutely_positioned() else
              (preferred.min_content_width(context, c), preferred.max_content_width(context, c))
              for c in cell.children]
    args = cell_width_args(cell, widths, True)
    mn, mx = preferred.table_cell_min_max_content_width(context, cell, True)
    kinds = sorted({child_pos(c) for c in cell.children})
    return sx.line('cellwidths', *args), f'{sx.atom(num(mn))} {sx.atom(num(mx))}', kinds


def unbreakable_needs(cell):
    """Outer widths of the unbreakable boxes inside a cell that the cell must be wide enough for:
    floats and in-flow blocks with a px width (absolutely positioned boxes need nothing)."""
    boxes = _mods()[1]
    needs = []
    for b in cell.descendants():
        if b is cell or not isinstance(b, boxes.BlockBox) or b.is_absolutely_positioned():
            continue
        w = b.style['width']
        if w != 'auto' and w.unit == 'px' and b.element_tag == 'div':
            needs.append(num(b.margin_width()))
    return needs


# ---------------------------------------------------------------- table_and_columns_preferred_widths

def _pct_parts(style):
    mn = style['min_width']
    mx = style['max_width']
    min_pct = num(mn.value) if mn != 'auto' and mn.unit == '%' else F(0)
    max_pct = num(mx.value) if mx != 'auto' and mx.unit == '%' and math.isfinite(mx.value) else 'inf'
    return min_pct, max_pct


def pbox_wire(min_w, max_w, style):
    min_pct, max_pct = _pct_parts(style)
    return [num(min_w), num(max_w), dim_wire(style_dim(style['width'])), min_pct, max_pct]


def preferred_input(context, table, helpers):
    """Protocol arguments of `preferred` read from a real (or mock) table box; `helpers` gives the
    three width functions the real code calls on cells / columns / groups."""
    min_w, max_w, cell_min_max = helpers
    rows = []
    grid_width = 0
    for group in table.children:
        for row in group.children:
            cells = []
            for cell in row.children:
                if cell.colspan == 1:
                    a, b = cell_min_max(context, cell)
                else:
                    a, b = min_w(context, cell), max_w(context, cell)
                cells.append([cell.grid_x, cell.colspan, cell.rowspan, pbox_wire(a, b, cell.style)])
                grid_width = max(grid_width, cell.grid_x + cell.colspan)
            rows.append(cells)
    groups, cols = [], []
    for cg in table.column_groups:
        for col in cg.children:
            if len(cols) == grid_width:
                break
            groups.append(pbox_wire(min_w(context, cg), max_w(context, cg), cg.style))
            cols.append(pbox_wire(min_w(context, col), max_w(context, col), col.style))
    style = table.style
    width = style['width']
    mn, mx = style['min_width'], style['max_width']
    return [style['border_collapse'] != 'separate', num(style['border_spacing'][0]), rows, groups, cols,
            num(width.value) if width != 'auto' and width.unit == 'px' else 'none',
            num(mn.value) if mn != 'auto' and mn.unit != '%' else F(0),
            num(mx.value) if mx != 'auto' and mx.unit != '%' and math.isfinite(mx.value) else 'inf'], grid_width


def preferred_out(result):
    from vlib import sx
    tmin, tmax, mins, maxs, pcts, cons, spacing, _grid = result
    return (f'ok {sx.atom(num(tmin))} {sx.atom(num(tmax))} {show_rats(mins)} {show_rats(maxs)} {show_rats(pcts)} '
            f'({" ".join("true" if c else "false" for c in cons)}) {sx.atom(num(spacing))}')


def _pref_style(width, collapse=False, spacing=F(0), min_w='auto', max_w='auto'):
    Dimension = _mods()[0]
    zero = Dimension(0, 'px')
    return {'width': dim_style(width), 'min_width': min_w, 'max_width': max_w,
            'margin_left': zero, 'margin_right': zero, 'padding_left': zero, 'padding_right': zero,
            'border_left_width': 0, 'border_right_width': 0,
            'border_collapse': 'collapse' if collapse else 'separate', 'border_spacing': (spacing, spacing)}


def call_preferred(spec):
    """Real `table_and_columns_preferred_widths` on a mock table; the intrinsic widths of the
    individual boxes (text measurement) are stubbed by attributes of the mock boxes.

    spec = dict(collapse, spacing, rows=[[(gx, colspan, rowspan, (min, max, dim, min%, max%))]],
    colgroups=[((min, max, dim), [(min, max, dim)])], width, min_w, max_w) -> (line args, output)."""
    Dimension, boxes, _, preferred = _mods()

    def pct_style(width, min_pct=None, max_pct=None):
        st = _pref_style(width, spec['collapse'], spec['spacing'])
        if min_pct:
            st['min_width'] = Dimension(min_pct, '%')
        if max_pct is not None:
            st['max_width'] = Dimension(max_pct, '%')
        return st

    groups = []
    row_boxes = []
    for row in spec['rows']:
        cells = []
        for gx, colspan, rowspan, (mn, mx, width, min_pct, max_pct) in row:
            cell = boxes.TableCellBox('td', pct_style(width, min_pct, max_pct), None, [])
            cell.grid_x, cell.colspan, cell.rowspan = gx, colspan, rowspan
            cell._min, cell._max = mn, mx
            cells.append(cell)
        row_boxes.append(boxes.TableRowBox('tr', {}, None, cells))
    groups.append(boxes.TableRowGroupBox('tbody', {}, None, row_boxes))
    tstyle = _pref_style(spec['width'], spec['collapse'], spec['spacing'])
    if spec['min_w'] is not None:
        tstyle['min_width'] = Dimension(spec['min_w'], 'px')
    if spec['max_w'] is not None:
        tstyle['max_width'] = Dimension(spec['max_w'], 'px')
    table = boxes.TableBox('table', tstyle, None, groups)
    cgs = []
    for (gmn, gmx, gwidth), cols in spec['colgroups']:
        col_boxes = []
        for cmn, cmx, cwidth in cols:
            col = boxes.TableColumnBox('col', pct_style(cwidth), None, [])
            col._min, col._max = cmn, cmx
            col_boxes.append(col)
        cg = boxes.TableColumnGroupBox('colgroup', pct_style(gwidth), {'span': '1'}, col_boxes)
        cg._min, cg._max = gmn, gmx
        cgs.append(cg)
    table.column_groups = tuple(cgs)
    wrapper = boxes.BlockBox('table', _pref_style(('auto',)), None, [table])
    wrapper.is_table_wrapper = True
    context = _Ctx()
    stubs = {
        'min_content_width': lambda ctx, box, outer=True: box._min,
        'max_content_width': lambda ctx, box, outer=True: box._max,
        'table_cell_min_max_content_width': lambda ctx, box, outer=True: (box._min, box._max)}
    saved = {name: getattr(preferred, name) for name in stubs}
    helpers = (stubs['min_content_width'], stubs['max_content_width'], stubs['table_cell_min_max_content_width'])
    args, _ = preferred_input(context, table, helpers)
    try:
        for name, fn in stubs.items():
            setattr(preferred, name, fn)
        try:
            result = preferred.table_and_columns_preferred_widths(context, wrapper, outer=False)
        except Exception as exc:  # noqa: BLE001
            return args, f'err:{type(exc).__name__}'
    finally:
        for name, fn in saved.items():
            setattr(preferred, name, fn)
    return args, preferred_out(result)


def g_pref_spec(rng, adv=False):
    gw = rng.choice([1, 2, 2, 3, 3, 4, 5])
    n_rows = rng.choice([1, 2, 2, 3, 4])
    occupied = [set() for _ in range(n_rows)]

    def dim():
        r = rng.random()
        if r < 0.55:
            return ('auto',)
        if r < 0.75:
            return ('px', g_small(rng, 0, 80, adv))
        return ('pct', rng.choice([F(10), F(20), F(25), F(40), F(50), F(60), F(100), F(25, 2)]))

    def widths():
        mn = g_small(rng, 0, 40, adv)
        mx = mn + (g_small(rng, 0, 80) if rng.random() < 0.8 else 0)
        if adv and rng.random() < 0.2:
            mx = g_small(rng, 0, 40, True)
        return mn, mx

    rows = []
    for y in range(n_rows):
        cells = []
        x = 0
        while x < gw:
            if x in occupied[y]:
                x += 1
                continue
            if rng.random() < 0.1:
                x += 1           # a hole in the grid
                continue
            colspan = 1 if rng.random() < 0.6 else rng.randrange(1, gw - x + 1)
            for k in range(colspan):
                if x + k in occupied[y]:
                    colspan = k
                    break
            rowspan = 1 if rng.random() < 0.8 else rng.randrange(1, n_rows - y + 1)
            for yy in range(y + 1, y + rowspan):
                occupied[yy].update(range(x, x + colspan))
            mn, mx = widths()
            min_pct = rng.choice([F(5), F(30)]) if rng.random() < 0.05 else None
            max_pct = rng.choice([F(15), F(45)]) if rng.random() < 0.05 else None
            cells.append((x, colspan, rowspan, (mn, mx, dim(), min_pct, max_pct)))
            x += colspan
        rows.append(cells)
    colgroups = []
    n = 0
    while n < gw + (1 if adv else 0) and rng.random() < 0.5:
        k = rng.randrange(1, 3)
        cols = []
        for _ in range(k):
            mn, mx = widths() if rng.random() < 0.3 else (F(0), F(0))
            cols.append((mn, mx, dim()))
        colgroups.append(((F(0), F(0), dim()), cols))
        n += k
    return {'collapse': rng.random() < 0.3, 'spacing': g_small(rng, 0, 8) if rng.random() < 0.7 else F(0),
            'rows': rows, 'colgroups': colgroups, 'width': dim() if rng.random() < 0.5 else ('auto',),
            'min_w': g_small(rng, 0, 300) if rng.random() < 0.15 else None,
            'max_w': g_small(rng, 0, 300) if rng.random() < 0.15 else None}


def g_small(rng, lo, hi, adv=False):
    if adv and rng.random() < 0.25:
        return rng.choice([F(0), -F(rng.randrange(1, 50)), F(10**9), F(1, 3)])
    den = rng.choice([1, 1, 2, 4, 3])
    return F(rng.randrange(lo * den, hi * den + 1), den)


# ---------------------------------------------------------------- row height algorithm (one group)

def row_heights_case(table, group):
    """Protocol arguments and implementation output of `rowheights` for one row group of a table laid
    out in a single fragment: the cells' boxes *before* the alignment / stretching passes are
    reconstructed from the final boxes (computed paddings from the style, baseline kept by the layout)."""
    from vlib import sx
    collapse = table.style['border_collapse'] == 'collapse'
    sp = F(0) if collapse else num(table.style['border_spacing'][1])
    rows_wire = []
    out_rows = []
    pending = []          # (rows left, cell)
    for row in group.children:
        height = row.style['height']
        if height != 'auto' and height.unit != 'px':
            return None
        cells = []
        for cell in row.children:
            pt, pb = cell.style['padding_top'], cell.style['padding_bottom']
            if pt.unit != 'px' or pb.unit != 'px':
                return None
            cells.append([cell.rowspan, num(cell.border_top_width), num(pt.value), num(cell.height),
                          num(pb.value), num(cell.border_bottom_width), cell.vertical_align,
                          num(cell.baseline) if cell.vertical_align == 'baseline' else F(0)])
        rows_wire.append(['auto' if height == 'auto' else num(height.value), cells])
        every = pending + [(c.rowspan, c) for c in row.children]
        ending = [c for k, c in every if k == 1]
        pending = [(k - 1, c) for k, c in every if k != 1]
        pads = ' '.join(f'({sx.atom(num(c.padding_top))} {sx.atom(num(c.padding_bottom))})' for c in ending)
        # without baseline-aligned cells the code stores an absolute y that later translations of the
        # group (footer, margins) leave stale: only the relative baseline is compared
        has_baseline = any(c.vertical_align == 'baseline' for c in row.children)
        baseline = sx.atom(num(row.baseline)) if has_baseline else 'auto'
        out_rows.append(f'({sx.atom(num(row.position_y))} {sx.atom(num(row.height))} {baseline} ({pads}))')
    if not group.children:
        return None
    args = [num(group.children[0].position_y), sp, rows_wire]
    return args, '(' + ' '.join(out_rows) + ')'


def preferred_unstable(out):
    """The code computes `1 / (len(...) or 1)` and `(100 - sum(pcts)) / 100` in binary floats even for
    exact inputs: a percentage that is a rounding residue (|p| < 1e-9, not 0) or a sum within 1e-9 of
    100 without being 100 flips the `if percentage` / `denominator == 0` tests.  Such results are not
    compared (counted as float_rounding)."""
    from vlib import sx
    if not out.startswith('ok'):
        return False
    items = sx.loads_line(out)
    pcts = [Fraction(x) for x in items[5]]
    tiny = Fraction(1, 10**9)
    if any(p != 0 and abs(p) < tiny for p in pcts):
        return True
    total = sum(pcts)
    return total != 100 and abs(total - 100) < tiny
