"""Dispatch between the stage-1 pagination model and its stage-2 extensions (out-of-flow children, footnotes) for
the sections of C01, C02, C03: which harness turns the stored document into the implementation's canonical line."""
from harness import pm_col_corr, pm_corr, pm_foot_corr, pm_oof_corr

SECTIONS = {
    'pm-oof-documents': pm_oof_corr, 'pm-oof-outcomes': pm_oof_corr,
    'pm-foot-documents': pm_foot_corr, 'pm-foot-outcomes': pm_foot_corr,
    'pm-col-documents': pm_col_corr, 'pm-col-outcomes': pm_col_corr,
}


def corr(section):
    return SECTIONS.get(section, pm_corr)


def doc_and_real(inp):
    """(corr module, document, implementation line) for a replay input (the stored disagreement)."""
    meta = inp.get('meta') or inp
    module = corr(inp.get('section'))
    doc = module.doc_from_json(meta['doc'])
    return module, doc, module.real_line(doc)


def conservation(section, doc, line, model_line=None):
    """C01 clause on the implementation's line. For out-of-flow documents whose model pagination (= the unchanged
    code) already loses or repeats out-of-flow lines - the recorded findings - only the flow is judged."""
    module = corr(section)
    if module is pm_col_corr:
        what = module.conservation_violation(doc, line, strict=True)
        if what:
            reference = model_line if model_line is not None else module.model_line('driver_c01', doc)
            if not reference.startswith('err:') and module.conservation_violation(doc, reference, strict=True):
                # the unchanged code loses content on this document too (column-span findings, fixed heights)
                what = module.conservation_violation(doc, line, strict=False)
        return what
    what = module.conservation_violation(doc, line)
    if module is pm_oof_corr and what:
        reference = model_line if model_line is not None else module.model_line('driver_c01', doc)
        if not reference.startswith('err:') and module.conservation_violation(doc, reference):
            what = module.conservation_violation(doc, line, flow_only=True)
    return what


def progress(section, doc, line):
    module = corr(section)
    if module is pm_oof_corr:
        return module.fit_violation(doc, line) or module.progress_violation(doc, line)
    if module is pm_foot_corr:
        return module.progress_violation(doc, line) or module.overlap_violation(doc, line)
    if module is pm_col_corr:
        return module.geometry_violation(doc, line) or module.progress_violation(doc, line)
    return module.progress_violation(doc, line)
