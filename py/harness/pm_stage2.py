"""Dispatch between the stage-1 pagination model and its stage-2 extensions (out-of-flow children, footnotes) for
the sections of C01, C02, C03: which harness turns the stored document into the implementation's canonical line."""
from harness import pm_col_corr, pm_corr, pm_foot_corr, pm_oof_corr

SECTIONS = {
    'pm-oof-documents': pm_oof_corr, 'pm-oof-outcomes': pm_oof_corr,
    'pm-foot-documents': pm_foot_corr, 'pm-foot-outcomes': pm_foot_corr,
    'pm-col-documents': pm_col_corr, 'pm-col-outcomes': pm_col_corr,
}


def corr(section):
    return SECTIONS.get(section, pm_corr)


def doc_and_real(inp):
    """(corr module, document, implementation line) for a replay input (the stored disagreement)."""
    meta = inp.get('meta') or inp
    module = corr(inp.get('section'))
    doc = module.doc_from_json(meta['doc'])
    return module, doc, module.real_line(doc)


def conservation(section, doc, line, model_line=None):
    """C01 clause on the implementation's line. For out-of-flow documents whose model pagination (= the unchanged
    code) already loses or repeats out-of-flow lines - the recorded findings - only the flow is judged."""
    module = corr(section)
    if module is pm_col_corr:
        what = module.conservation_violation(doc, line, strict=True)
        if what:
            reference = model_line if model_line is not None else module.model_line('driver_c01', doc)
            if not reference.startswith('err:') and module.conservation_violation(doc, reference, strict=True):
                # the unchanged code loses content on this document too (column-span findings, fixed heights)
                what = module.conservation_violation(doc, line, strict=False)
        return what
    what = module.conservation_violation(doc, line)
    if module is pm_oof_corr and what:
        reference = model_line if model_line is not None else module.model_line('driver_c01', doc)
        if not reference.startswith('err:') and module.conservation_violation(doc, reference):
            # the model (= the unchanged code) loses or repeats out-of-flow lines on this document too: the
            # recorded findings. Report only what the implementation loses or repeats beyond that.
            what = module.conservation_violation(doc, line, flow_only=True) or oof_delta(doc, line, reference)
    if module is pm_oof_corr and not what:
        # documents with a fixed height somewhere are not judged by the clause above (lines under a fixed height may
        # be forgotten: the recorded finding); compare with the pagination of the unchanged code instead
        reference = model_line if model_line is not None else module.model_line('driver_c01', doc)
        what = oof_delta(doc, line, reference)
    return what


def oof_delta(doc, line, reference):
    """Lines that the implementation shows a wrong number of times (0 or > 1) where the reference pagination (the
    model of the unchanged code, run on the same document) shows them a different number of times."""
    import collections
    if line.startswith('err:'):
        return None
    if reference.startswith('err:'):
        return None
    by_id = pm_oof_corr.box_index(doc)

    def counts(out):
        shown = []
        for page in pm_oof_corr.parse_pages(out):
            pm_oof_corr.frag_lines(page[-1], shown, by_id, False)
        return collections.Counter(shown)
    got, ref = counts(line), counts(reference)
    want = pm_oof_corr.expected_all_lines(doc['root'], [])
    bad = [(w, got[w], ref[w]) for w in want if got[w] != 1 and got[w] != ref[w]]
    if bad:
        return ('lines shown a wrong number of times (line, times, times in the unchanged pagination): '
                f'{bad[:6]}')
    return None


def progress(section, doc, line):
    module = corr(section)
    if module is pm_oof_corr:
        return module.fit_violation(doc, line) or module.progress_violation(doc, line)
    if module is pm_foot_corr:
        return module.progress_violation(doc, line) or module.overlap_violation(doc, line)
    if module is pm_col_corr:
        return module.geometry_violation(doc, line) or module.progress_violation(doc, line)
    return module.progress_violation(doc, line)


# finding id -> name of the witness document of pm_col_corr.WITNESSES (used when pm_col_corr has no FINDING_WITNESS
# table of its own)
COL_FINDINGS = {
    'column-group-dropped-span-duplicated': 'colspan_group_dropped',
    'find-earlier-break-in-columns-attribute-error': 'colspan_find_earlier_attribute_error',
    'columns-negative-margin-bottom-overflow': 'columns_negative_margin_bottom',
}


def finding_replays():
    """{finding id: replay} of the three stage-2 harnesses, whatever they list at present: a finding that its owner
    repaired and removed from the harness's table simply disappears here (the framework only looks up the ids that
    known_findings.txt lists for the property, so ids of another property are harmless)."""
    out = {}
    try:
        out.update(pm_oof_corr.finding_replays())
    except Exception:  # noqa: BLE001
        pass
    out.update(getattr(pm_foot_corr, 'FINDING_REPLAYS', {}))
    table = getattr(pm_col_corr, 'FINDING_WITNESS', COL_FINDINGS)
    for finding, name in table.items():
        if name in getattr(pm_col_corr, 'WITNESSES', {}):
            out[finding] = (lambda name=name: pm_col_corr.replay_witness(name))
    return out
