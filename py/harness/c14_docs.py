"""C14 document level: generated paged documents rendered by the real pipeline, observed
(`PageType`, `Page.width/height/bleed`, page box margins, page counters, MarginBox rectangles and
text, `/MediaBox /TrimBox /BleedBox`) and compared with the Lean model run on the same abstract
document.  Also: the property clauses stated directly on the observations (judge / search), replay.
"""
import collections
import re
from fractions import Fraction as F
import math

from harness import c14_gen as g
from harness import docs
from vlib import lean, sx

AUTO = 'auto'
SIDE_KW = [f'@{p}-{s}' for p, ss in (('top', ('left', 'center', 'right')), ('bottom', ('left', 'center', 'right')),
                                     ('left', ('top', 'middle', 'bottom')), ('right', ('top', 'middle', 'bottom')))
           for s in ss]
CORNER_KW = ['@top-left-corner', '@top-right-corner', '@bottom-left-corner', '@bottom-right-corner']
ALL_KW = SIDE_KW + CORNER_KW
WORDS = ['a', 'bb', 'ccc', 'dddd', 'eeeee', 'fffffff', 'gggggggggg', 'hh hh', 'ii jjj', 'k llll mm']
ROOT_FS = 16


def set_pieces(v):
    """A string-set value: a literal string, or a list of ('text', s) / ('counter', name) pieces."""
    return [('text', v)] if isinstance(v, str) else [tuple(p) for p in v]


# ---- abstract documents ----------------------------------------------------------------------------

def px(rng, top, quarter=True):
    den = rng.choice([1, 1, 2, 4]) if quarter else 1
    return F(rng.randrange(0, top * den + 1), den)


def dim(rng, top, auto=0.1, pct=0.15, pcts=(F(25, 4), F(25, 2), F(25), F(50))):
    r = rng.random()
    if r < auto:
        return AUTO
    if r < auto + pct:
        return ('pct', rng.choice(pcts))
    return px(rng, top)


def counters(rng, names=('page', 'pages', 'c')):
    n = rng.choice([1, 1, 2])
    return [(rng.choice(names), rng.choice([0, 1, 2, 3, 5, -2, 10])) for _ in range(n)]


def content_items(rng):
    items = []
    for _ in range(rng.choice([1, 1, 2, 3, 4])):
        r = rng.random()
        if r < 0.35:
            items.append(('text', rng.choice(WORDS)))
        elif r < 0.45:
            items.append(('text', ' '))
        elif r < 0.7:
            items.append(('counter', rng.choice(['page', 'page', 'pages', 'pages', 'c', 'zz'])))
        elif r < 0.9:
            items.append(('string', rng.choice(['h', 'h', 'k']),
                          rng.choice(['first', 'first', 'start', 'last', 'first-except', None])))
        else:
            items.append(('element', rng.choice(['h', 'k']),
                          rng.choice(['first', 'first', 'start', 'last', 'first-except', None])))
    return items


def margin_decls(rng):
    decls = []
    r = rng.random()
    if r < 0.82:
        decls.append(('content', ('content', content_items(rng))))
    elif r < 0.9:
        decls.append(('content', ('content', None)))
    elif r < 0.93:
        decls.append(('content', ('content', [])))
    for name, top in (('width', 120), ('height', 60)):
        if rng.random() < 0.3:
            decls.append((name, dim(rng, top, auto=0.2, pct=0.3)))
    for side in ('top', 'right', 'bottom', 'left'):
        if rng.random() < 0.2:
            decls.append((f'margin-{side}', dim(rng, 12, auto=0.3, pct=0.15)))
        if rng.random() < 0.15:
            decls.append((f'padding-{side}', dim(rng, 6, auto=0, pct=0.15)))
        if rng.random() < 0.1:
            decls.append((f'border-{side}-style', ('crop', rng.random() < 0.8, False)))
        if rng.random() < 0.1:
            decls.append((f'border-{side}-width', px(rng, 5)))
    if rng.random() < 0.3:
        decls.append(('font-size', F(rng.choice([8, 8, 12, 16, 20]))))
    if rng.random() < 0.08:
        decls.append((rng.choice(['counter-increment', 'counter-reset', 'counter-set']), ('counters', counters(rng))))
    return [(n, v, rng.random() < 0.1) for n, v in decls]


def page_decls(rng, base=False):
    decls = []
    if base or rng.random() < 0.3:
        decls.append(('size', ('size', F(rng.randrange(800, 1601), 4), F(rng.randrange(1200, 2001), 4))))
    for side in ('top', 'right', 'bottom', 'left'):
        if base or rng.random() < 0.35:
            # page margins stay small: every section must fit its page (content height >= 150px)
            small = (F(25, 4), F(25, 2))
            decls.append((f'margin-{side}', dim(rng, 50, auto=0.08, pct=0.12, pcts=small) if side in ('top', 'bottom')
                          else dim(rng, 60, auto=0.1, pct=0.12, pcts=small)))
        if rng.random() < 0.12:
            # (small percentages: sheet/64, sheet/128 — every section must still fit its page)
            decls.append((f'padding-{side}', dim(rng, 10, auto=0, pct=0.3, pcts=(F(25, 16), F(25, 32)))))
        if rng.random() < 0.1:
            decls.append((f'border-{side}-style', ('crop', rng.random() < 0.8, False)))
        if rng.random() < 0.1:
            decls.append((f'border-{side}-width', px(rng, 5)))
        if rng.random() < (0.25 if base else 0.1):
            decls.append((f'bleed-{side}', AUTO if rng.random() < 0.3 else px(rng, 24)))
    if rng.random() < 0.12:
        decls.append(('width', AUTO if rng.random() < 0.2 else px(rng, 200) + 100))
    if rng.random() < 0.12:
        decls.append(('height', AUTO if rng.random() < 0.2 else px(rng, 140) + 160))
    if rng.random() < 0.08:
        decls.append(('min-width', px(rng, 400)))
    if rng.random() < 0.08:
        decls.append(('max-width', 'inf' if rng.random() < 0.2 else px(rng, 300) + 100))
    if rng.random() < 0.08:
        decls.append(('min-height', px(rng, 500)))
    if rng.random() < 0.08:
        decls.append(('max-height', 'inf' if rng.random() < 0.2 else px(rng, 240) + 160))
    if rng.random() < 0.1:
        decls.append(('marks', ('crop', rng.random() < 0.6, rng.random() < 0.5)))
    if rng.random() < (0.1 if base else 0.12):
        decls.append((rng.choice(['counter-increment', 'counter-increment', 'counter-reset', 'counter-set']),
                      ('counters', counters(rng))))
    return [(n, v, rng.random() < 0.08) for n, v in decls]


def selector_text(rng, names, with_groups=True):
    parts = []
    if rng.random() < 0.35:
        parts.append(rng.choice(names))
    for _ in range(rng.choice([0, 1, 1, 1, 2])):
        r = rng.random()
        if r < 0.65:
            parts.append(':' + rng.choice(['left', 'right', 'first', 'blank', 'first', 'left', 'right']))
        elif r < 0.85 or not with_groups:
            parts.append(f":nth({rng.choice(['2n+1', 'odd', 'even', '3', 'n+2', '-n+3', '3n', '2n', '4n+1', '1'])})")
        else:
            parts.append(f":nth({rng.choice(['1', '2', 'n+2', '-n+2', '2n', 'odd'])} of {rng.choice(names)})")
    if rng.random() < 0.04:
        parts.append(rng.choice([':foo', ' x', ':', '::left', ':nth(foo)']))      # rule ignored
    text = ''.join(parts)
    if rng.random() < 0.12:
        text += ', ' + rng.choice([':first', ':left', ':blank', rng.choice(names)])
    return text


def random_doc(rng, max_sections=14):
    # two families: documents with page groups (wrappers, `:nth(… of name)`), whose pages are laid out
    # in a single pass, and documents with page-based counters in the content / in string-set values,
    # whose pages are re-made in later passes (there `PageType.groups` is not compared: known finding
    # page-groups-lost-on-remake)
    with_groups = rng.random() < 0.5
    names = ['', 'a', 'b']
    n = rng.randrange(1, max_sections + 1) if rng.random() < 0.9 else rng.randrange(20, 36)
    sections = []
    cur = rng.choice(['', '', 'a'])
    for i in range(n):
        if rng.random() < 0.2:
            cur = rng.choice(names)
        brk = 'auto' if i == 0 else rng.choice(['auto', 'auto', 'page', 'page', 'left', 'right', 'recto', 'verso'])

        def sets():
            if rng.random() < 0.75:
                return []
            # one assignment per name and element (build.compute_string_set keeps the last of duplicates)
            names_here = rng.sample(['h', 'k'], rng.choice([1, 1, 2])) if rng.random() < 0.7 else ['h']
            def value():
                # a literal, or a value mixing in page-based counters (computed again after pagination)
                if with_groups or rng.random() < 0.6:
                    return rng.choice(WORDS)
                pieces = [('text', rng.choice(['pg', 'a', 'sec']))]
                for _ in range(rng.choice([1, 1, 2])):
                    pieces.append(('counter', rng.choice(['page', 'page', 'pages', 'c'])))
                    if rng.random() < 0.6:
                        pieces.append(('text', rng.choice(['of', 'x', ' '])))
                return pieces
            return [(nm, value()) for nm in names_here]
        sections.append({'brk': brk, 'name': cur, 'sets': sets(), 'inner': sets(), 'late': sets(),
                         'pc': not with_groups and rng.random() < 0.2,
                         'running': ([(rng.choice(['h', 'k']), rng.choice(WORDS)) for _ in range(rng.choice([1, 1, 2]))]
                                     if rng.random() < 0.3 else [])})
    # wrappers: runs of consecutive sections inside one `<div style="page: name">` (page groups)
    k, wid = 0, 0
    while k < len(sections):
        if with_groups and rng.random() < 0.35:
            run_len = rng.choice([1, 2, 2, 3, 4])
            wname = rng.choice(['a', 'b'])
            for sec in sections[k:k + run_len]:
                sec['wrap'] = (wid, wname)
            wid += 1
            k += run_len
        else:
            k += 1
    # running elements only in sections whose used page name is '' (known finding
    # element-from-named-page-crashes-margin-box: a copy with a page name makes the margin-box layout assert)
    for sec in sections:
        if sec['name'] or sec.get('wrap'):
            sec['running'] = []
    rules = [{'sel': '', 'decls': page_decls(rng, base=True),
              'margin': [(kw, margin_decls(rng)) for kw in rng.sample(ALL_KW, rng.choice([0, 1, 2, 3, 4, 6, 16]))]}]
    for _ in range(rng.choice([0, 1, 2, 3, 4, 6])):
        rules.append({'sel': selector_text(rng, ['a', 'b'], with_groups), 'decls': page_decls(rng) if rng.random() < 0.8 else [],
                      'margin': [(kw, margin_decls(rng)) for kw in rng.sample(ALL_KW, rng.choice([0, 0, 1, 2, 3]))]})
    return {'groups': with_groups, 'ltr': rng.random() < 0.8, 'root_break': rng.choice(['auto'] * 6 + ['left', 'right', 'recto', 'verso', 'page']),
            'sections': sections, 'rules': rules}


# ---- CSS / HTML --------------------------------------------------------------------------------------

def css_num(q):
    q = F(q)
    return str(q.numerator) if q.denominator == 1 else repr(float(q))


def css_dim(v):
    if v == AUTO:
        return 'auto'
    if v == 'inf':
        return 'none'
    if isinstance(v, tuple) and v[0] == 'pct':
        return css_num(v[1]) + '%'
    return css_num(v) + 'px'


def css_value(name, v):
    if isinstance(v, tuple) and v[0] == 'size':
        return f'{css_num(v[1])}px {css_num(v[2])}px'
    if isinstance(v, tuple) and v[0] == 'crop' and name.endswith('-style'):
        return 'solid' if v[1] else 'none'
    if isinstance(v, tuple) and v[0] == 'crop':
        words = (['crop'] if v[1] else []) + (['cross'] if v[2] else [])
        return ' '.join(words) or 'none'
    if isinstance(v, tuple) and v[0] == 'counters':
        return ' '.join(f'{n} {val}' for n, val in v[1]) or 'none'
    if isinstance(v, tuple) and v[0] == 'content':
        if v[1] is None:
            return 'none'
        if not v[1]:
            return '""'
        out = []
        for item in v[1]:
            if item[0] == 'text':
                out.append(f'"{item[1]}"')
            elif item[0] == 'counter':
                out.append(f'counter({item[1]})')
            else:
                fn = 'element' if item[0] == 'element' else 'string'
                out.append(f'{fn}({item[1]})' if item[2] is None else f'{fn}({item[1]}, {item[2]})')
        return ' '.join(out)
    return css_dim(v)


def css_decls(decls):
    return ' '.join(f"{n}: {css_value(n, v)}{' !important' if imp else ''};" for n, v, imp in decls)


def doc_css(doc):
    root = f"font-family: weasyprint; font-size: {ROOT_FS}px; line-height: 1;"
    if not doc['ltr']:
        root += ' direction: rtl;'
    if doc['root_break'] != 'auto':
        root += f" break-before: {doc['root_break']};"
    out = [f'html {{ {root} }}', 'body { margin: 0; font-size: 4px }',
           '.pc::before { content: "p" counter(page) "of" counter(pages) "c" counter(c) }']
    for rule in doc['rules']:
        margin = ' '.join(f'{kw} {{ {css_decls(ds)} }}' for kw, ds in rule['margin'])
        out.append(f"@page {rule['sel']} {{ {css_decls(rule['decls'])} {margin} }}")
    return '\n'.join(out)


def doc_html(doc):
    body = []
    for i, sec in enumerate(doc['sections']):
        def ss(sets):
            if not sets:
                return ''
            def val(v):
                return ' '.join(f'"{p[1]}"' if p[0] == 'text' else f'counter({p[1]})' for p in set_pieces(v))
            return 'string-set: ' + ', '.join(f'{n} {val(v)}' for n, v in sets) + ';'
        style = ''
        if sec['brk'] != 'auto':
            style += f"break-before: {sec['brk']};"
        if sec['name']:
            style += f"page: {sec['name']};"
        style += ss(sec['sets'])
        wrap, prev = sec.get('wrap'), doc['sections'][i - 1].get('wrap') if i else None
        nxt = doc['sections'][i + 1].get('wrap') if i + 1 < len(doc['sections']) else None
        if wrap and (not prev or prev[0] != wrap[0]):
            body.append(f'<div style="page: {wrap[1]}">')
        running = ''.join(f'<div style="position: running({nm})">{txt}</div>' for nm, txt in sec.get('running', []))
        body.append(f'<div style=\'{style}\'><div style=\'{ss(sec["inner"])}\'>s{i}</div>{running}'
                    f'<div style=\'{ss(sec["late"])}\'>t{i}</div>'
                    f'{"<div class=pc></div>" if sec.get("pc") else ""}</div>')
        if wrap and (not nxt or nxt[0] != wrap[0]):
            body.append('</div>')
    return f'<style>{doc_css(doc)}</style><body>{"".join(body)}'


# ---- wire ----------------------------------------------------------------------------------------------

def wire_value(v):
    if isinstance(v, tuple) and v[0] == 'size':
        return ['size', v[1], v[2]]
    if isinstance(v, tuple) and v[0] == 'crop':
        return ['crop', v[1]]
    if isinstance(v, tuple) and v[0] == 'counters':
        return ['counters', [[g.s(n), val] for n, val in v[1]]]
    if isinstance(v, tuple) and v[0] == 'content':
        if v[1] is None:
            return ['content', 'none']
        items = []
        for item in v[1]:
            if item[0] == 'text':
                items.append(['text', g.s(item[1])])
            elif item[0] == 'counter':
                items.append(['counter', g.s(item[1])])
            else:
                items.append([item[0], g.s(item[1]), item[2] or 'first'])
        return ['content', items]
    if isinstance(v, tuple) and v[0] == 'pct':
        return ['pct', v[1]]
    return v   # 'auto' | 'inf' | Fraction


def wire_decls(decls):
    return [[g.s(n), wire_value(v), imp] for n, v, imp in decls]


UA_RULE = ['ua', [], g.s(''), [[g.s(f'bleed-{side}'), F(0), False] for side in ('top', 'right', 'bottom', 'left')]]


def prelude_tokens(sel):
    import tinycss2
    rule = tinycss2.parse_one_rule(f'@page {sel} {{}}')
    return g.wire_tokens(rule.prelude)


def doc_line(doc):
    def wsets(sets):
        return [[g.s(n), [[k, g.s(t)] for k, t in set_pieces(v)]] for n, v in sets]
    secs = [[s['brk'], g.s(s['name']), wsets(s['sets']), wsets(s['inner']), wsets(s['late']), bool(s.get('pc')),
             [s['wrap'][0], g.s(s['wrap'][1])] if s.get('wrap') else 'none',
             [[g.s(n), g.s(v)] for n, v in s.get('running', [])]]
            for s in doc['sections']]
    rules = [UA_RULE]
    for rule in doc['rules']:
        toks = prelude_tokens(rule['sel'])
        if toks is None:
            return None
        if rule['decls']:
            rules.append(['author', toks, g.s(''), wire_decls(rule['decls'])])
        for kw, ds in rule['margin']:
            if ds:
                rules.append(['author', toks, g.s(kw), wire_decls(ds)])
    return sx.line('doc', doc['ltr'], doc['root_break'], F(ROOT_FS), bool(doc.get('groups', True)), secs, rules)


# ---- observation ---------------------------------------------------------------------------------------

_captured = {}


def _capture_context():
    """Keep the LayoutContext of the last render (page_maker, string_set) — no source hook needed."""
    from weasyprint.document import Document
    if getattr(Document, '_c14_wrapped', False):
        return
    original = Document._build_layout_context.__func__

    def wrapper(cls, *args, **kwargs):
        context = original(cls, *args, **kwargs)
        _captured['context'] = context
        return context
    Document._build_layout_context = classmethod(wrapper)
    Document._c14_wrapped = True


def render(doc):
    _capture_context()
    document = docs.render(doc_html(doc))
    return document, _captured.get('context')


def observe(document, context):
    """Per page: the observable furniture as nested Python values (numbers stay floats)."""
    from weasyprint.formatting_structure import boxes
    pages = []
    for i, page in enumerate(document.pages):
        pb = page._page_box
        pt = pb.page_type
        state = context.page_maker[i + 1][3]
        margin = []
        for child in pb.children:
            if isinstance(child, boxes.MarginBox):
                words = [w for b in child.descendants() if isinstance(b, boxes.TextBox) for w in b.text.split()]
                margin.append({'kw': child.at_keyword, 'nums': [
                    child.position_x, child.position_y, child.margin_left, child.width, child.margin_right,
                    child.margin_top, child.height, child.margin_bottom], 'text': ' '.join(words),
                    'ppb': [child.padding_left + child.padding_right + child.border_left_width + child.border_right_width,
                            child.padding_top + child.padding_bottom + child.border_top_width + child.border_bottom_width]})
        texts = [b.text for b in pb.children[0].descendants() if isinstance(b, boxes.TextBox)]
        pages.append({
            'head': [pt.side, bool(pt.blank), pt.name, pt.index],
            'groups': [[n, i] for n, i in pt.groups],
            'box': [page.width, page.height, pb.width, pb.height, pb.margin_top, pb.margin_right, pb.margin_bottom,
                    pb.margin_left],
            'padding': [pb.padding_top, pb.padding_right, pb.padding_bottom, pb.padding_left],
            'pad': [pb.padding_top + pb.border_top_width, pb.padding_right + pb.border_right_width,
                    pb.padding_bottom + pb.border_bottom_width, pb.padding_left + pb.border_left_width],
            'bleed': [page.bleed[s] for s in ('top', 'right', 'bottom', 'left')],
            'counters': ({k: list(v) for k, v in state[1].items()}, set(state[2][-1])),
            'margin': margin, 'texts': texts})
    return pages


def render_observed(pages, model_pages, snap):
    """The driver's rendering of the observations; numbers snapped to the model's where within 1e-9."""
    out = []
    for i, p in enumerate(pages):
        m = model_pages[i] if model_pages is not None and i < len(model_pages) else None

        def nums(values, atoms):
            if atoms is None or len(atoms) != len(values):
                return ' '.join(sx.atom(F(v) if isinstance(v, float) else v) for v in values)
            return ' '.join(snap.num(v, a) for v, a in zip(values, atoms))
        mbox = m[2][1:] if m else None
        mbleed = m[3][1:] if m else None
        mmargin = m[5][1:] if m else []
        head = p['head']
        margin = []
        for j, mb in enumerate(p['margin']):
            matoms = mmargin[j][1:9] if j < len(mmargin) and len(mmargin[j]) == 10 else None
            margin.append(f"({g.s(mb['kw'])} {nums(mb['nums'], matoms)} {g.s(mb['text'])})")
        out.append(
            f"(page ({head[0]} {str(head[1]).lower()} {g.s(head[2])} {head[3]} "
            f"({' '.join(f'({g.s(n)} {i})' for n, i in p.get('groups', []))})) (box {nums(p['box'], mbox)}) "
            f"(bleed {nums(p['bleed'], mbleed)}) (counters {g.show_state(*p['counters'])}) "
            f"(margin {' '.join(margin)}) "
            f"(body {' '.join(g.s(t.strip()) for t in p['texts'] if t.strip()[:1] == 'p')}))")
    return ' '.join(out)


def pdf_boxes(document, zoom):
    import weasyprint
    from weasyprint.pdf import generate_pdf
    pdf = generate_pdf(document, None, zoom, **weasyprint.DEFAULT_OPTIONS)
    pages = [o for o in pdf.objects if isinstance(o, dict) and o.get('Type') == '/Page']
    return [[list(p['MediaBox']), list(p['TrimBox']), list(p['BleedBox'])] for p in pages]


# ---- correspondence ------------------------------------------------------------------------------------

def correspondence(prop, run, collect=False):
    rng = run.rng
    sec = run.section(
        'documents', 'generated documents of 1..40 pages (forced left/right/recto/verso breaks, named pages, root '
        'break-before, rtl; @page rule sets mixing :first/:left/:right/:blank/:nth/names/!important; 0..16 margin '
        'boxes with counter()/string() content, sizes, margins, paddings, %; @page counter-*; bleed/marks) rendered by '
        'the real pipeline vs the model: PageType, Page.width/height, page box, bleed, page_state, every MarginBox '
        'rectangle and text; non-trivial = more than one page or a margin box')
    sec_pdf = run.section(
        'pdf-boxes', 'generate_pdf on the rendered documents at zooms {1/2, 1, 3/2, 2, 4}: /MediaBox /TrimBox '
        '/BleedBox of every page vs the model on the observed Page.width/height/bleed; non-trivial = some bleed')
    snap = g.Snap()
    cases = []
    n_docs = run.n(300, 5000)
    for k in range(n_docs):
        doc = random_doc(rng)
        line = doc_line(doc)
        if line is None:
            continue
        zoom = rng.choice([F(1, 2), F(1), F(3, 2), F(2), F(4)]) if k % 3 == 0 else None
        try:
            document, context = render(doc)
            pages = observe(document, context)
            if not doc.get('groups', True):
                for pg in pages:
                    pg['groups'] = []
            boxes = pdf_boxes(document, float(zoom)) if zoom is not None else None
            boxes1 = pdf_boxes(document, 1.0) if zoom is not None else None
        except Exception as exc:  # an exception of the implementation is an outcome
            pages, boxes, boxes1, err = None, None, None, f'err:{type(exc).__name__}'
        cases.append((doc, line, pages, (boxes, boxes1), zoom, None if pages is not None else err))
    model = [None] * len(cases) if collect else lean.run_driver(prop.driver, [c[1] for c in cases])
    pdf_cases = []
    for (doc, line, pages, (boxes, boxes1), zoom, err), mout in zip(cases, model):
        meta = {'fn': 'doc', 'doc': doc, 'html': doc_html(doc)}
        if pages is None:
            sec.add(line, err, meta=meta, tags=['raised'])
            continue
        model_pages = None
        if mout is not None and mout.startswith('(page'):
            try:
                model_pages = sx.loads_line(mout)
            except ValueError:
                model_pages = None
        meta['observed'] = jsonable(pages)
        out = render_observed(pages, model_pages, snap)
        nblank = sum(1 for p in pages if p['head'][1])
        nboxes = sum(len(p['margin']) for p in pages)
        sec.add(line, out, meta=meta, nontrivial=len(pages) > 1 or nboxes > 0,
                tags=[f'pages{min(len(pages), 10) if len(pages) <= 10 else "10+"}', f'blank{min(nblank, 3)}',
                      'boxes0' if nboxes == 0 else 'boxes+', 'ltr' if doc['ltr'] else 'rtl',
                      'family-groups' if doc.get('groups', True) else 'family-counters'] +
                     (['group-index>0'] if any(i > 0 for p in pages for _, i in p.get('groups', [])) else []) +
                     (['nth-of-selector'] if any(' of ' in r['sel'] for r in doc['rules']) else []) +
                     (['running-elements'] if any(sec.get('running') for sec in doc['sections']) else []) +
                     (['element()-content'] if any(it[0] == 'element' for r in doc['rules'] for _, ds in r['margin']
                                                   for nm, v, _ in ds if nm == 'content' and v[1] for it in v[1]) else []) +
                     (['string-set-with-counters'] if any(not isinstance(v, str) for sec in doc['sections']
                                                          for _, v in sec['sets'] + sec['inner'] + sec['late']) else []) +
                     (['body-page-counters'] if any(sec.get('pc') for sec in doc['sections']) else []))
        if boxes is not None:
            for i, (p, rects) in enumerate(zip(pages, boxes)):
                w, h = p['box'][0], p['box'][1]
                pline = sx.line('pdfboxes', F(w), F(h), [F(b) for b in p['bleed']], zoom)
                pdf_cases.append((pline, rects, {'fn': 'pdf', 'args': [w, h, p['bleed'], str(zoom)], 'html': meta['html'],
                                                 'page': i, 'rects1': [[float(v) for v in r] for r in boxes1[i]]},
                                  any(p['bleed'])))
    pmodel = [None] * len(pdf_cases) if collect else lean.run_driver(prop.driver, [c[0] for c in pdf_cases])
    for (pline, rects, meta, nontrivial), mout in zip(pdf_cases, pmodel):
        matoms = None
        if mout is not None and mout.startswith('('):
            matoms = [a for grp in sx.loads_line(mout) for a in grp]
        flat = [v for r in rects for v in r]
        if matoms is not None and len(matoms) == len(flat):
            atoms = [snap.num(v, a) for v, a in zip(flat, matoms)]
        else:
            atoms = [sx.atom(F(v)) for v in flat]
        meta['rects'] = [[float(v) for v in r] for r in rects]
        out = ' '.join('(' + ' '.join(atoms[k:k + 4]) + ')' for k in (0, 4, 8))
        sec_pdf.add(pline, out, meta=meta, nontrivial=nontrivial)
    run.extra['float_rounding_documents'] = snap.rounded
    run.extra['exact_numbers_documents'] = snap.exact


def jsonable(x):
    if isinstance(x, F):
        return str(x)
    if isinstance(x, dict):
        return {str(k): jsonable(v) for k, v in x.items()}
    if isinstance(x, (list, tuple)):
        return [jsonable(v) for v in x]
    if isinstance(x, set):
        return sorted(x)
    return x


def int_keys(x):
    """resume_at dicts read back from JSON: keys are page-child indexes."""
    if isinstance(x, dict):
        return {int(k): int_keys(v) for k, v in x.items()}
    if isinstance(x, list):
        return [int_keys(v) for v in x]
    return x


def revive(x):
    """Inverse of the JSON encoding of replay files for Fractions written as strings."""
    if isinstance(x, str):
        try:
            if x not in ('auto', 'inf') and (x.lstrip('-').replace('/', '').isdigit()):
                return F(x)
        except ValueError:
            pass
        return x
    if isinstance(x, list):
        return [revive(v) for v in x]
    if isinstance(x, dict):
        return {k: revive(v) for k, v in x.items()}
    return x


# ---- the property clauses on observations (judge / search) -------------------------------------------

def judge_remake(args, impl):
    index, brk, name, right_page, ltr, fn = args
    side, blank, nm, idx, stored = impl.split()
    want_side = {'left': 'left', 'right': 'right', 'recto': 'right' if ltr else 'left',
                 'verso': 'left' if ltr else 'right'}.get(brk)
    have = 'right' if right_page else 'left'
    if side != have:
        return f'page side {side} although right_page={right_page}'
    if stored != str(not right_page).lower():
        return f'sides do not alternate: next right_page={stored} after right_page={right_page}'
    want_blank = (want_side is not None and want_side != have) or fn
    if (blank == 'true') != bool(want_blank):
        return f'blank={blank} for requested side {want_side} on a {have} page (pending footnotes: {fn})'
    if blank == 'true' and g.uns(nm) != '':
        return 'a blank page has a page name'
    if blank == 'false' and g.uns(nm) != name:
        return f'page name {nm} instead of {name}'
    if int(idx) != index:
        return f'page index {idx} instead of {index}'
    return None


def spec_page_counters(styles):
    """css-lists on the page context, stated directly: per page, counter-reset creates / resets, then
    counter-set assigns, then counter-increment adds (a counter that does not exist starts at 0); `page` is
    incremented by 1 unless the page's style touches it; `pages` cannot be touched."""
    values, out = {}, []
    for cset, creset, cincr in styles:
        lists = [() if x == AUTO else [tuple(p) for p in x] for x in (creset, cset, cincr)]
        touched = any(nm == 'page' for lst in lists for nm, _ in lst)
        for nm, v in lists[0]:
            if nm != 'pages':
                values[nm] = v
        for nm, v in lists[1]:
            if nm != 'pages':
                values[nm] = v
        incr = ([] if touched else [('page', 1)]) + [p for p in lists[2]]
        for nm, v in incr:
            if nm != 'pages':
                values[nm] = values.get(nm, 0) + v
        out.append(dict(values))
    return out


def judge_pagestates(styles, impl):
    if impl.startswith('err:'):
        return f'page counters raised {impl}'
    states = sx.loads_line(impl)
    n = len(styles)
    for i, (st, want) in enumerate(zip(states, spec_page_counters(styles))):
        have = {g.uns(name): [int(v) for v in stack] for name, stack in st[0]}
        for nm, v in want.items():
            if have.get(nm, [None])[-1] != v:
                return f'counter({nm}) is {have.get(nm)} on page {i + 1}, css-lists gives {v} for the @page styles {styles[:i + 1]}'
    touched = any(name in ('page',) for st in styles for lst in st if lst != AUTO for name, _ in lst)
    for i, st in enumerate(states):
        values = {g.uns(name): [int(v) for v in stack] for name, stack in st[0]}
        if values.get('pages') != [n]:
            return f'counter(pages) is {values.get("pages")} on page {i + 1} of {n}'
        if not touched and values.get('page') != [i + 1]:
            return f'counter(page) is {values.get("page")} on page {i + 1} without counter-* on @page'
    return None


def spec_string(store, current, keyword, first_on_page):
    """css-gcpm string(): the value for `keyword` on page `current` given {page: [assignments]}."""
    here = store.get(current)
    earlier = [store[p][-1] for p in sorted(store) if 0 < p < current and store[p]]
    entry = earlier[-1] if earlier else None
    if here:
        if keyword == 'first':
            return here[0]
        if keyword == 'last':
            return here[-1]
        if keyword == 'first-except':
            return None
        if keyword == 'start':
            return here[0] if first_on_page else entry
    return entry


def judge_getstring(args, impl):
    store_pages, current, keyword, chain = args
    if any(not vals for _, vals in store_pages) or keyword not in ('first', 'start', 'last', 'first-except'):
        return None
    if impl.startswith('err:'):
        return f'get_string_or_element_for raised {impl}'
    store = {p: vals for p, vals in store_pages}
    first_on_page = any(c is not None and 'h' in c for c in chain)
    want = spec_string(store, current, keyword, first_on_page)
    have = None if impl == 'none' else g.uns(impl)
    if want != have:
        return f'string(h, {keyword}) on page {current} with {store}: {have!r} instead of {want!r}'
    return None


def spec_nth(a, b, index):
    """an+b matches the 1-based page number index+1 for some n >= 0."""
    target = index + 1
    for n in range(0, 200):
        if a * n + b == target:
            return True
    return False


def judge_match(args, impl):
    sel, pt = args
    want = True
    if sel['side'] is not None and sel['side'] != pt['side']:
        want = False
    if sel['blank'] and not pt['blank']:
        want = False
    if sel['first'] and pt['index'] != 0:
        want = False
    if sel['name'] is not None and sel['name'] != pt['name']:
        want = False
    if sel['index'] is not None:
        a, b, name = sel['index']
        if name is None:
            want = want and spec_nth(a, b, pt['index'])
        else:
            want = want and name == pt['name'] and any(n == name and spec_nth(a, b, i) for n, i in pt['groups'])
    if (impl == 'true') != want:
        return f'page selector {sel} on page {pt}: matched={impl}, css-page-3 says {want}'
    return None


def judge_parsesel(text, impl):
    """Only the clauses that need no second parser: well-formed simple selectors are accepted with
    the specificity triple (names, :first/:blank/:nth, :left/:right)."""
    import re
    if impl.startswith('err:'):
        return f'parse_page_selectors raised {impl} on {text!r}'
    simple = re.fullmatch(r'\s*([a-zA-Z][a-zA-Z0-9-]*)?((?::(?:left|right|first|blank))*)\s*', text)
    if not simple or not text.strip():
        return None
    pcs = [p for p in simple.group(2).split(':') if p]
    if 'left' in pcs and 'right' in pcs:
        return None if impl == 'none' else f'{text!r} (:left:right) accepted'
    want = (1 if simple.group(1) else 0, sum(p in ('first', 'blank') for p in pcs), sum(p in ('left', 'right') for p in pcs))
    if impl == 'none':
        return f'well-formed page selector {text!r} rejected'
    sels = sx.loads_line(impl)[0]
    spec = tuple(int(x) for x in sels[0][5])
    if len(sels) != 1 or spec != want:
        return f'page selector {text!r}: specificity {spec}, expected {want}'
    return None


def judge_cascade(args, impl):
    pt, pseudo, rules = args
    from props.c14 import impl_match
    prec = {('ua', False): 1, ('ua', True): 1, ('user', False): 2, ('author', False): 3, ('author', True): 4,
            ('user', True): 5}
    best = {}
    for order, (origin, sel, spec, ps, decls) in enumerate(rules):
        if ps != pseudo or judge_match([sel, pt], 'true') is not None:
            continue
        for k, (name, value, imp) in enumerate(decls):
            weight = (prec[(origin, bool(imp))], tuple(spec), order, k)
            if name not in best or best[name][0] <= weight:
                best[name] = (weight, value)
    have = {g.uns(e[0]): e[1] for e in sx.loads_line(impl)[0]} if impl.startswith('(') else None
    if have is None:
        return f'add_page_declarations: {impl}'
    want = {n: v for n, (_, v) in best.items()}
    if have != want:
        return f'page cascade on {pt} / {pseudo!r}: {have} instead of {want}'
    return None


def chain_path(ra):
    """The key path of a single-path resume_at ({k: {…: None}}), else None."""
    path = []
    while ra is not None:
        if not isinstance(ra, dict) or len(ra) != 1:
            return None
        (k, ra), = ra.items()
        path.append(int(k))
    return path or None


def resume_has_path(resume, path):
    """css-gcpm page groups: the page resumes inside the element at `path` (every key present on the way)."""
    for i, k in enumerate(path):
        if not isinstance(resume, dict):
            return False
        keys = {int(x): v for x, v in resume.items()}
        if k not in keys:
            return False
        resume = keys[k]
    return True


def judge_includes(args, impl):
    resume, group = args
    path = chain_path(group)
    if path is None:
        return None
    if impl.startswith('err:'):
        return f'_includes_resume_at raised {impl} on a single-path group {group}'
    want = resume_has_path(resume, path)
    if (impl == 'true') != want:
        return f'page group at {path} and resume_at {resume}: included={impl}, expected {want}'
    return None


def judge_groups(args, impl):
    groups, resume, brk, name, tree = args
    paths = [chain_path(r) for _, _, r in groups]
    if any(p is None for p in paths) or impl.startswith('err:'):
        return None
    have = sx.loads_line(impl)[0]
    want = [(n, int(i) + 1) for (n, i, _), p in zip(groups, paths) if resume_has_path(resume, p)]
    got = [(g.uns(e[0]), int(e[1])) for e in have]
    if got[:len(want)] != want or len(got) > len(want) + 1:
        return (f'page groups {[(n, i) for n, i, _ in groups]} on a page resuming at {resume}: kept {got}, expected '
                f'{want} (a group continues, index + 1, exactly while the page resumes inside its element)')
    return None


def strip_of(kw):
    """(axis that is fixed, is start side) for a margin box keyword."""
    if kw in CORNER_KW:
        return 'corner', None
    prefix = kw[1:].split('-')[0]
    return ('v' if prefix in ('top', 'bottom') else 'h'), prefix


def doc_oracle(doc, pages):
    """Clauses of C14 stated on the observed pages of one document; -> first violation or None."""
    eps = 1e-6
    n = len(pages)
    if n == 0:
        return 'no page'
    ltr = doc['ltr']
    first_right = {'right': True, 'left': False, 'recto': ltr, 'verso': not ltr}.get(doc['root_break'], ltr)
    if (pages[0]['head'][0] == 'right') != first_right:
        return f"first page is a {pages[0]['head'][0]} page (root break-before {doc['root_break']}, ltr={ltr})"
    for i in range(n):
        side, blank, name, index = pages[i]['head']
        if index != i:
            return f'page {i} has index {index}'
        if i and side == pages[i - 1]['head'][0]:
            return f'pages {i - 1} and {i} are both {side} pages'
        if i and blank and pages[i - 1]['head'][1]:
            return f'two consecutive blank pages {i - 1}, {i}'
        if blank and any(t.strip() for t in pages[i]['texts']):
            return f'blank page {i} has content {pages[i]["texts"]}'
    # where each section landed, from the rendered text
    where = {}
    for i, p in enumerate(pages):
        for t in p['texts']:
            t = t.strip()
            if t[:1] == 's' and t[1:].isdigit():
                where[int(t[1:])] = i
    if len(where) != len(doc['sections']):
        return f'sections lost: {sorted(set(range(len(doc["sections"]))) - set(where))}'
    for i, p in enumerate(pages):
        for t in p['texts']:
            t = t.strip()
            if t[:1] == 't' and t[1:].isdigit() and where.get(int(t[1:])) != i:
                return None        # a section was split across pages: outside the documents' assumption
    for k, sec in enumerate(doc['sections']):
        want = {'left': 'left', 'right': 'right', 'recto': 'right' if ltr else 'left',
                'verso': 'left' if ltr else 'right'}.get(sec['brk'])
        if k and sec['brk'] != 'auto' and where[k] == where[k - 1]:
            return f'forced break before section {k} not taken'
        if k and want and pages[where[k]]['head'][0] != want:
            return f"section {k} (break-before {sec['brk']}) starts on a {pages[where[k]]['head'][0]} page"
        if k and want is None and where[k] != where[k - 1] and pages[where[k] - 1]['head'][1]:
            return f'blank page {where[k] - 1} although section {k} requests no side'
        eff = sec['name'] or (sec['wrap'][1] if sec.get('wrap') else '')
        if where[k] != where.get(k - 1, -1) and not pages[where[k]]['head'][1] and eff and \
                pages[where[k]]['head'][2] != eff:
            return f"page {where[k]} starting with section {k} (page: {eff}) is named {pages[where[k]]['head'][2]!r}"
    # page groups: consecutive pages that start inside the same wrapper element continue its group
    if doc.get('groups', True):
        starts = {}
        for k in sorted(where):
            starts.setdefault(where[k], k)
        for i in range(1, n):
            a, b = starts.get(i - 1), starts.get(i)
            if a is None or b is None or pages[i]['head'][1]:
                continue
            wa, wb = doc['sections'][a].get('wrap'), doc['sections'][b].get('wrap')
            plain = wa and all(not sec['name'] for sec in doc['sections'] if sec.get('wrap') and sec['wrap'][0] == wa[0])
            first = min(k for k, sec in enumerate(doc['sections']) if sec.get('wrap') and wa and sec['wrap'][0] == wa[0]) if wa else 0
            # (known finding page-group-not-started-on-first-page: not judged for the element the document starts in)
            # … nor for an element that does not start on a new page (the group is then created at the child
            # a later page resumes at, same finding)
            if wa and wb and wa[0] == wb[0] and plain and first > 0 and where[first] != where[first - 1]:     # (a child with its own page name starts its own group)
                ga = [idx for nm, idx in pages[i - 1].get('groups', []) if nm == wb[1]]
                gb = [idx for nm, idx in pages[i].get('groups', []) if nm == wb[1]]
                if not ga or not gb or gb[0] != ga[0] + 1:
                    return (f'pages {i - 1} and {i} both start inside the same element with page: {wb[1]}, but their '
                            f'page groups are {pages[i - 1].get("groups")} then {pages[i].get("groups")}')
    # counters
    counter_decl = any(nm.startswith('counter-') for r in doc['rules'] for nm, _, _ in r['decls'])
    for i, p in enumerate(pages):
        values = p['counters'][0]
        if values.get('pages') != [n]:
            return f"counter(pages) = {values.get('pages')} on page {i + 1} of {n}"
        if not counter_decl and values.get('page') != [i + 1]:
            return f"counter(page) = {values.get('page')} on page {i + 1}"
        for t in p['texts']:
            m = re.fullmatch(r'p(-?\d+)of(-?\d+)c(-?\d+)', t.strip())
            if m and int(m.group(2)) != n:
                return f'content on page {i + 1} of {n} shows counter(pages) = {m.group(2)}'
            if m and not counter_decl and int(m.group(1)) != i + 1:
                return f'content on page {i + 1} shows counter(page) = {m.group(1)}'
    # bleed: given by the @page rules; `auto` is 8px with crop marks, else 0 (only judged when every rule
    # that sets marks / bleed is unconditional, so that no selector matching is needed)
    bleed_rules = [r for r in doc['rules'] if any(nm == 'marks' or nm.startswith('bleed-') for nm, _, _ in r['decls'])]
    if all(not r['sel'].strip() for r in bleed_rules):
        def winner(name):
            cands = [(bool(imp), idx, k, v) for idx, r in enumerate(bleed_rules)
                     for k, (nm, v, imp) in enumerate(r['decls']) if nm == name]
            return max(cands)[3] if cands else None
        marks = winner('marks')
        crop = bool(marks and marks[1])
        want = []
        for side in ('top', 'right', 'bottom', 'left'):
            v = winner(f'bleed-{side}')
            want.append(0.0 if v is None else ((8.0 if crop else 0.0) if v == AUTO else float(F(v))))
        for i, p in enumerate(pages):
            if [float(b) for b in p['bleed']] != want:
                return f"page {i}: bleed (top, right, bottom, left) is {p['bleed']}, the @page rules give {want}"
    # page size: with `width` / `height` auto (and no min/max) the page box fills the sheet given by `size`
    sizing = {'width', 'height', 'min-width', 'max-width', 'min-height', 'max-height'}
    size_rules = [r for r in doc['rules'] if any(nm == 'size' for nm, _, _ in r['decls'])]
    if (not any(nm in sizing for r in doc['rules'] for nm, _, _ in r['decls']) and size_rules and
            all(not r['sel'].strip() for r in size_rules)):
        cands = [(bool(imp), idx, k, v) for idx, r in enumerate(size_rules)
                 for k, (nm, v, imp) in enumerate(r['decls']) if nm == 'size']
        _, sw, sh = max(cands)[3]
        for i, p in enumerate(pages):
            if abs(p['box'][0] - float(F(sw))) > eps or abs(p['box'][1] - float(F(sh))) > eps:
                return f"page {i}: Page.width x height = {p['box'][0]} x {p['box'][1]}, @page size is {float(F(sw))} x {float(F(sh))}"
    # paddings of the page box: a length is itself, a percentage refers to the sheet width (left / right) or the
    # sheet *height* (top / bottom) — css-page-3 §7; judged when every rule declaring the padding is unconditional
    # and the page box fills the sheet (no width / height / min / max)
    if not any(nm in sizing for r in doc['rules'] for nm, _, _ in r['decls']):
        for k, side in enumerate(('top', 'right', 'bottom', 'left')):
            pad_rules = [r for r in doc['rules'] if any(nm == f'padding-{side}' for nm, _, _ in r['decls'])]
            if not pad_rules or any(r['sel'].strip() for r in pad_rules):
                continue
            cands = [(bool(imp), idx, j, v) for idx, r in enumerate(pad_rules)
                     for j, (nm, v, imp) in enumerate(r['decls']) if nm == f'padding-{side}']
            v = max(cands, key=lambda c: c[:3])[3]
            for i, p in enumerate(pages):
                if 'padding' not in p:
                    continue
                sheet = p['box'][1] if side in ('top', 'bottom') else p['box'][0]
                want = sheet * float(F(v[1])) / 100 if isinstance(v, tuple) else float(F(v))
                if abs(p['padding'][k] - want) > eps:
                    return (f"page {i}: padding-{side}: {css_dim(v)} of the page box on a {p['box'][0]} x {p['box'][1]} "
                            f"sheet is {p['padding'][k]}, expected {want} (percentages refer to the sheet "
                            f"{'height' if side in ('top', 'bottom') else 'width'})")
    # page box = what remains; margin boxes fill their strip
    for i, p in enumerate(pages):
        w, h, cw, ch, mt, mr, mb, ml = p['box']
        pt_, pr_, pb_, pl_ = p.get('pad', [0, 0, 0, 0])
        if abs(ml + pl_ + cw + pr_ + mr - w) > eps or abs(mt + pt_ + ch + pb_ + mb - h) > eps:
            return f'page {i}: content area is not what remains: {p["box"]}'
        bw, bh = pl_ + cw + pr_, pt_ + ch + pb_
        seen = []
        if min(mt, mr, mb, ml) < 0:
            continue        # a page margin of negative size (over-constrained page box): no area to fill
        for mbx in p['margin']:
            kw = mbx['kw']
            x, y, bml, bwid, bmr, bmt, bhei, bmb = mbx['nums']
            ppb_h, ppb_v = mbx.get('ppb', [0, 0])
            mw, mh = bml + ppb_h + bwid + bmr, bmt + ppb_v + bhei + bmb
            if kw in seen:
                return f'page {i}: {kw} generated twice'
            seen.append(kw)
            axis, prefix = strip_of(kw)
            if axis == 'corner':
                ex = 0 if 'left' in kw else ml + bw
                ey = 0 if 'top' in kw else mt + bh
                ew = ml if 'left' in kw else mr
                eh = mt if 'top' in kw else mb
                if max(abs(x - ex), abs(y - ey), abs(mw - ew), abs(mh - eh)) > eps:
                    return f'page {i}: {kw} is not its corner area: {mbx["nums"]}'
            elif axis == 'v':
                ey, eh = (0, mt) if prefix == 'top' else (mt + bh, mb)
                if abs(y - ey) > eps or abs(mh - eh) > eps:
                    return f'page {i}: {kw} does not fill its margin strip vertically: {mbx["nums"]}'
                suffix = kw.split('-')[-1]
                if suffix == 'left' and abs(x - ml) > eps:
                    return f'page {i}: {kw} does not start at the left border edge'
                if suffix == 'right' and abs(x + mw - (ml + bw)) > eps:
                    return f'page {i}: {kw} does not end at the right border edge'
                if suffix == 'center' and abs(x + mw / 2 - (ml + bw / 2)) > eps:
                    return f'page {i}: {kw} is not centred'
            else:
                ex, ew = (0, ml) if prefix == 'left' else (ml + bw, mr)
                if abs(x - ex) > eps or abs(mw - ew) > eps:
                    return f'page {i}: {kw} does not fill its margin strip horizontally: {mbx["nums"]}'
                suffix = kw.split('-')[-1]
                if suffix == 'top' and abs(y - mt) > eps:
                    return f'page {i}: {kw} does not start at the top border edge'
                if suffix == 'bottom' and abs(y + mh - (mt + bh)) > eps:
                    return f'page {i}: {kw} does not end at the bottom border edge'
                if suffix == 'middle' and abs(y + mh / 2 - (mt + bh / 2)) > eps:
                    return f'page {i}: {kw} is not centred'
    # css-page-3 5.3.2 rule 3: when the fixed dimension of a margin box is over-constrained (size and both
    # margins given) the margin towards the outside of the page gives way: boxes in the top / left half
    # recompute margin-top / margin-left, the others margin-bottom / margin-right; the other margin and the
    # size keep their specified values.  Judged for boxes declared by unconditional rules only, px values.
    cond_kw = {kw for r in doc['rules'] if r['sel'].strip() for kw, _ in r['margin']}

    def declared(kw, name):
        cands = [(bool(imp), idx, k, v) for idx, r in enumerate(doc['rules']) if not r['sel'].strip()
                 for bkw, ds in r['margin'] if bkw == kw for k, (nm, v, imp) in enumerate(ds) if nm == name]
        return max(cands)[3] if cands else None

    def px_of(v, default, refer=None):
        if v is None:
            return default
        if isinstance(v, tuple) and v[0] == 'pct' and refer is not None:
            return refer * float(F(v[1])) / 100      # percentages refer to the box's margin / corner area
        if v == AUTO or isinstance(v, tuple):
            return None
        return float(F(v))
    for i, p in enumerate(pages):
        for mbx in p['margin']:
            kw = mbx['kw']
            if kw in cond_kw:
                continue
            x, y, bml, bwid, bmr, bmt, bhei, bmb = mbx['nums']
            axis, prefix = strip_of(kw)
            checks = []
            if axis in ('corner', 'h'):       # the width is the fixed dimension
                start = ('left' in kw) if axis == 'corner' else prefix == 'left'
                checks.append(('width', 'margin-left', 'margin-right', bwid, bml, bmr, start))
            if axis in ('corner', 'v'):       # the height is the fixed dimension
                start = ('top' in kw) if axis == 'corner' else prefix == 'top'
                checks.append(('height', 'margin-top', 'margin-bottom', bhei, bmt, bmb, start))
            # containing block of the box: its corner, or its margin strip
            pw, ph, pcw, pch, pmt, pmr, pmb, pml = p['box']
            ppt, ppr, ppb, ppl = p.get('pad', [0, 0, 0, 0])
            if axis == 'corner':
                cbw, cbh = (pml if 'left' in kw else pmr), (pmt if 'top' in kw else pmb)
            elif axis == 'v':
                cbw, cbh = ppl + pcw + ppr, (pmt if prefix == 'top' else pmb)
            else:
                cbw, cbh = (pml if prefix == 'left' else pmr), ppt + pch + ppb
            for size_name, a_name, b_name, size, ma, mb_, start in checks:
                dsize = px_of(declared(kw, size_name), None, cbw if size_name == 'width' else cbh)
                da, db = px_of(declared(kw, a_name), 0.0, cbw), px_of(declared(kw, b_name), 0.0, cbw)
                if dsize is None or da is None or db is None:
                    continue
                if abs(size - dsize) > eps and not (size_name == 'height' and dsize < 0):
                    return f'page {i}: {kw} {size_name} {size} instead of the specified {dsize}'
                if start and abs(mb_ - db) > eps:
                    return (f'page {i}: {kw} is over-constrained in its fixed dimension and lies in the top/left '
                            f'half: {b_name} must keep {db} ({a_name} gives way), but it is {mb_} ({a_name} = {ma})')
                if not start and abs(ma - da) > eps:
                    return (f'page {i}: {kw} is over-constrained in its fixed dimension and lies in the bottom/right '
                            f'half: {a_name} must keep {da} ({b_name} gives way), but it is {ma} ({b_name} = {mb_})')
    # margin-box text where a single unconditional rule defines it
    single = {}
    for r in doc['rules']:
        for kw, ds in r['margin']:
            for nm, v, imp in ds:
                if nm == 'content':
                    single.setdefault(kw, []).append((r['sel'], v))
    store = collections.defaultdict(lambda: collections.defaultdict(list))
    unknown = set()         # names with an assignment whose value this oracle cannot state
    for k, sec in enumerate(doc['sections']):
        for nm, v in sec['sets'] + sec['inner'] + sec['late']:
            # the value of an assignment uses the counters of the page the element is on
            value = ''
            for kind, t in set_pieces(v):
                if kind == 'text':
                    value += t
                elif t == 'pages':
                    value += str(n)
                elif t == 'page' and not counter_decl:
                    value += str(where[k] + 1)
                else:
                    unknown.add(nm)
            store[nm][where[k] + 1].append(value)
    rstore = collections.defaultdict(lambda: collections.defaultdict(list))      # running elements
    for k, sec in enumerate(doc['sections']):
        for nm, v in sec.get('running', []):
            rstore[nm][where[k] + 1].append(v)
    margin_counters = any(nm.startswith('counter-') for r in doc['rules'] for _, ds in r['margin'] for nm, _, _ in ds)
    for kw, defs in single.items():
        if len(defs) != 1 or defs[0][0] != '' or defs[0][1][1] is None:
            continue
        items = defs[0][1][1]
        for i, p in enumerate(pages):
            secs_here = [k for k in sorted(where) if where[k] == i]
            text, ok, done = '', True, []
            for item in items:
                if item[0] == 'element':
                    # a running element is a block of its own between the inline text around it; `start` is
                    # not judged (known finding element-start-ignores-running-elements)
                    kwd = item[2] or 'first'
                    if kwd == 'start':
                        ok = False
                        continue
                    value = spec_string({pg: vals for pg, vals in rstore[item[1]].items()}, i + 1, kwd, False)
                    if value is not None:
                        done += text.split() + value.split()
                        text = ''
                elif item[0] == 'text':
                    text += item[1]
                elif item[0] == 'counter':
                    if item[1] == 'pages':
                        text += str(n)
                    elif item[1] == 'page' and not counter_decl and not margin_counters:
                        text += str(i + 1)
                    else:
                        ok = False
                elif item[1] in unknown:
                    ok = False
                else:
                    kwd = item[2] or 'first'
                    first_sec = doc['sections'][secs_here[0]] if secs_here else None
                    first_on_page = bool(first_sec) and any(nm == item[1] for nm, _ in first_sec['sets'] + first_sec['inner'])
                    text += spec_string({pg: vals for pg, vals in store[item[1]].items()}, i + 1, kwd, first_on_page) or ''
            if not ok:
                continue
            have = [m['text'] for m in p['margin'] if m['kw'] == kw]
            if not have:
                return f'page {i}: {kw} has content but was not generated'
            if ' '.join(done + text.split()) != have[0]:
                return f'page {i}: {kw} shows {have[0]!r}, expected {" ".join(done + text.split())!r}'
    # boxes are generated only when they have content
    for i, p in enumerate(pages):
        for m in p['margin']:
            if not any(v[1] is not None for _, v in single.get(m['kw'], [])):
                return f"page {i}: {m['kw']} generated although no rule gives it content"
    return None


def pdf_oracle(w, h, bleed, zoom, rects, rects1=None):
    """MediaBox = image of the CSS bleed area, TrimBox = image of the page box (PDF y axis up); zoom is a
    uniform scale: every box at zoom z is z times the same box at zoom 1 (`rects1`, when given)."""
    eps = 1e-6
    if rects1 is not None:
        for name, at_z, at_1 in zip(('MediaBox', 'TrimBox', 'BleedBox'), rects, rects1):
            if max(abs(a - float(zoom) * b) for a, b in zip(at_z, at_1)) > eps:
                return (f'{name} {list(at_z)} at zoom {zoom} is not {zoom} times the {name} {list(at_1)} of the same '
                        f'page at zoom 1')
    s = 0.75 * float(zoom)
    bt, br, bb, bl = [float(b) for b in bleed]
    media, trim, bleed_box = rects
    want_trim = [0, 0, w * s, h * s]
    if max(abs(a - b) for a, b in zip(trim, want_trim)) > eps:
        return f'TrimBox {trim} is not the page box {want_trim} (zoom {zoom})'
    want_media = [-bl * s, -bb * s, (w + br) * s, (h + bt) * s]
    if max(abs(a - b) for a, b in zip(media, want_media)) > eps:
        return f'MediaBox {media} is not the bleed area {want_media} (zoom {zoom}, bleed t/r/b/l {bleed})'
    for lo, hi, mid in zip(media[:2] + trim[2:], trim[:2] + media[2:], bleed_box[:2] + bleed_box[2:]):
        if not (lo - eps <= mid <= hi + eps):
            return f'BleedBox {bleed_box} is not between TrimBox and MediaBox'
    return None


def is_known_mirror(bleed):
    """known finding media-box-vertical-mirror: bleed-top != bleed-bottom."""
    return float(bleed[0]) != float(bleed[2])


def judge_doc(meta, d):
    if meta.get('fn') == 'pdf':
        w, h, bleed, zoom = meta['args']
        what = pdf_oracle(float(w), float(h), bleed, F(zoom), meta['rects'], meta.get('rects1'))
        if what and is_known_mirror(bleed):
            # only the listed defect? check again with the top/bottom bleeds exchanged
            swapped = [bleed[2], bleed[1], bleed[0], bleed[3]]
            if pdf_oracle(float(w), float(h), swapped, F(zoom), meta['rects'], meta.get('rects1')) is None:
                return None
        return what
    if d['impl'].startswith('err:'):
        return f"rendering raised {d['impl']}"
    if 'observed' not in meta:
        return None
    return doc_oracle(meta['doc'], meta['observed'])


def replay_doc(meta):
    meta = dict(meta)
    if meta.get('fn') == 'pdf':
        document = docs.render(meta['html'])
        zoom = F(meta['args'][3])
        rects = pdf_boxes(document, float(zoom))[meta.get('page', 0)]
        rects1 = pdf_boxes(document, 1.0)[meta.get('page', 0)]
        page = document.pages[meta.get('page', 0)]
        bleed = [page.bleed[s] for s in ('top', 'right', 'bottom', 'left')]
        what = pdf_oracle(page.width, page.height, bleed, zoom, rects, rects1)
        if what and is_known_mirror(bleed) and pdf_oracle(
                page.width, page.height, [bleed[2], bleed[1], bleed[0], bleed[3]], zoom, rects, rects1) is None:
            return None
        return what
    doc = revive_doc(meta['doc'])
    try:
        document, context = render(doc)
        pages = observe(document, context)
    except Exception as exc:
        return f'rendering raised {type(exc).__name__}: {exc}'
    return doc_oracle(doc, jsonable(pages))


def revive_doc(doc):
    def val(v):
        if isinstance(v, list):
            if v and v[0] in ('size', 'pct'):
                return tuple([v[0]] + [F(x) for x in v[1:]])
            if v and v[0] == 'crop':
                return tuple(v)
            if v and v[0] == 'counters':
                return ('counters', [tuple(p) for p in v[1]])
            if v and v[0] == 'content':
                return ('content', None if v[1] is None else [tuple(i) for i in v[1]])
        if isinstance(v, str) and v not in ('auto', 'inf'):
            return F(v)
        return v
    out = dict(doc)
    def sets(lst):
        return [(n, v if isinstance(v, str) else [tuple(p) for p in v]) for n, v in lst]
    out['sections'] = [{**s, 'sets': sets(s['sets']), 'inner': sets(s['inner']), 'late': sets(s['late'])}
                       for s in doc['sections']]
    out['rules'] = [{'sel': r['sel'], 'decls': [(n, val(v), imp) for n, v, imp in r['decls']],
                     'margin': [(kw, [(n, val(v), imp) for n, v, imp in ds]) for kw, ds in r['margin']]}
                    for r in doc['rules']]
    return out


# ---- search --------------------------------------------------------------------------------------------

class _Collector:
    """A Run look-alike whose sections judge every queued case on the implementation's output."""

    def __init__(self, prop, run, limit=3):
        self.prop, self.rng, self.tier, self.extra = prop, run.rng, 'quick', {}
        self.found, self.limit, self.stats = [], limit, run.search_stats
        self.seen = set()

    thorough = False

    def n(self, quick, thorough):
        return max(20, quick // 3)

    def section(self, name, rule):
        collector = self

        class Sec:
            def add(self, line, impl_out, meta=None, nontrivial=True, tags=()):
                if len(collector.found) >= collector.limit:
                    return
                collector.stats['evaluations'] += 1
                d = {'section': name, 'line': line, 'impl': impl_out, 'model': '', 'meta': meta}
                try:
                    what = collector.prop.judge(d)
                except Exception:
                    what = None
                sig = (name, what.split(':')[0] if what else None)
                if what and sig not in collector.seen:
                    collector.seen.add(sig)
                    collector.found.append({'what': what, 'input': {'section': name, 'line': line[:2000],
                                                                    'impl': impl_out[:2000], 'meta': meta},
                                            'signature': f'{name}:{line[:200]}'})
        return Sec()


def search(prop, run, failures):
    """Re-run every generator family on the implementation alone, judging each output with the
    property clauses (function level and rendered documents)."""
    docs.quiet()
    collector = _Collector(prop, run)
    names = {f['name'] for f in failures if f['kind'] == 'correspondence'}
    from harness import c14_marks, c14_percent, c14_regress, c14_sheet
    marks = lambda run, rng: c14_marks.correspondence(prop, run)           # noqa: E731
    sheet = lambda run, rng: c14_sheet.correspondence(prop, run)           # noqa: E731
    regress = lambda run, rng: c14_regress.correspondence(prop, run)       # noqa: E731
    percent = lambda run, rng: c14_percent.correspondence(prop, run)       # noqa: E731
    order = [('fixed-regressions', regress), ('fixed-regressions-pdf', regress),
             ('resolve-percentages', percent), ('page-box-percentages', percent),
             ('size-values', sheet), ('marks-bleed-values', sheet), ('sheet-documents', sheet),
             ('sheet-page-boxes', sheet),
             ('page-marks', marks),
             ('page-box', prop._page_box), ('page-min-max', prop._page_box), ('fixed-dimension', prop._fixed),
             ('variable-dimension', prop._variable), ('init-side', prop._sides), ('remake-side', prop._sides),
             ('page-states', prop._counters), ('update-counters', prop._counters),
             ('standardize-counters', prop._counters), ('named-strings', prop._strings),
             ('parse-page-selectors', prop._selectors), ('page-type-match', prop._selectors),
             ('page-cascade', prop._cascade), ('page-groups', prop._groups), ('includes-resume-at', prop._groups)]
    done = set()
    for name, fn in order:
        if fn is None or fn in done or (names and name not in names):
            continue
        done.add(fn)
        try:
            fn(collector, collector.rng)
        except Exception:
            continue
        if len(collector.found) >= collector.limit:
            return collector.found
    try:
        correspondence(prop, collector, collect=True)
    except Exception:
        pass
    return collector.found


# ---- known findings -------------------------------------------------------------------------------------

def finding_media_box_mirror():
    html = ('<style>@page { size: 100px 200px; margin: 0; bleed-top: 40px; bleed-bottom: 4px; bleed-left: 0; '
            'bleed-right: 0 }</style><body>')
    document = docs.render(html)
    rects = pdf_boxes(document, 1.0)[0]
    return pdf_oracle(100.0, 200.0, [40, 0, 4, 0], 1, rects) is not None


def finding_margin_boxes_overlap():
    """Two auto-width boxes on a side narrower than their min-content sizes: kept at min-content, overlapping."""
    from weasyprint.formatting_structure import boxes
    html = ('<style>html { font-family: weasyprint; font-size: 16px } body { margin: 0 } '
            '@page { size: 200px; margin: 50px; @top-left { content: "aaaaaaaa" } @top-right { content: "bbbbbbbb" } }'
            '</style><body>')
    page = docs.render(html).pages[0]._page_box
    found = {c.at_keyword: c for c in page.children if isinstance(c, boxes.MarginBox)}
    a, c = found['@top-left'], found['@top-right']
    return a.position_x + a.margin_width() > c.position_x + 1e-6


def finding_page_groups_lost_on_remake():
    """The third page of page group `a` shows counter(page) in its content: it is re-made in a second
    pass that starts with empty page groups."""
    html = ('<style>@page{size:200px;margin:10px} @page :nth(3 of a){margin:30px} .pc::before{content:counter(page)}'
            '</style><div>x</div><div style="page:a"><div>s0</div><div style="break-before:page">s1</div>'
            '<div style="break-before:page"><span class=pc></span>s2</div><div style="break-before:page">s3</div></div>')
    page = docs.render(html).pages[3]._page_box
    return tuple(page.page_type.groups) != (('a', 2),) or page.margin_left != 30


def finding_page_group_counts_blank():
    """A named group starting with a forced right break after a right page: the blank page takes index 0."""
    html = ('<style>@page{size:200px;margin:10px} @page :nth(1 of a){margin:30px}</style>'
            '<div>x</div><div style="page:a;break-before:right"><div>s0</div><div style="break-before:page">s1</div></div>')
    pages = docs.render(html).pages
    first = [p._page_box for p in pages if p._page_box.page_type.name == 'a'][0]
    return tuple(first.page_type.groups) != (('a', 0),) or first.margin_left != 30


def finding_page_group_first_page():
    """A document starting inside a named element: no group on its first page, a fresh one on every later page."""
    html = ('<style>@page{size:200px;margin:10px} @page :nth(1 of a){margin:30px}</style>'
            '<div style="page:a"><div>s0</div><div style="break-before:page">s1</div>'
            '<div style="break-before:page">s2</div></div>')
    pages = [p._page_box for p in docs.render(html).pages]
    return [tuple(p.page_type.groups) for p in pages] != [(('a', 0),), (('a', 1),), (('a', 2),)]


def finding_element_named_page_crash():
    html = ('<style>@page{size:200px;margin:30px; @top-left{content: "x" element(h)}}</style>'
            '<div style="page:b"><p style="position:running(h)">r</p>s</div>')
    try:
        docs.render(html)
    except AssertionError:
        return True
    return False


def finding_element_start():
    """element(name, start) on a page whose first content is the running element: shows the previous page's."""
    from weasyprint.formatting_structure import boxes
    html = ('<style>@page{size:200px;margin:30px; @top-left{content: element(h, start)}}</style>'
            '<div><p style="position:running(h)">aa</p>s0</div>'
            '<div style="break-before:page"><p style="position:running(h)">bb</p>s1</div>')
    page = docs.render(html).pages[1]._page_box
    texts = [b.text for c in page.children if isinstance(c, boxes.MarginBox)
             for b in c.descendants() if isinstance(b, boxes.TextBox)]
    return texts != ['bb']


def finding_replays():
    return {'element-from-named-page-crashes-margin-box': finding_element_named_page_crash,
            'element-start-ignores-running-elements': finding_element_start,'page-group-not-started-on-first-page': finding_page_group_first_page,'page-group-index-counts-blank-page': finding_page_group_counts_blank,'page-groups-lost-on-remake': finding_page_groups_lost_on_remake,'margin-boxes-overlap-at-min-content': finding_margin_boxes_overlap,'media-box-vertical-mirror': finding_media_box_mirror}
