"""The PM stage-2a document-level correspondence (out-of-flow children), in the style of pm_corr."""
from harness import docs, pm_corr, pm_oof
from vlib import sx

doc_json = pm_corr.doc_json
doc_from_json = pm_corr.doc_from_json


def real_line(doc):
    import traceback
    try:
        with docs.time_limit(20):
            return pm_oof.run_real(doc)
    except docs.Hang:
        return 'err:Hang@layout'
    except Exception as exc:  # noqa: BLE001
        frames = [f for f in traceback.extract_tb(exc.__traceback__) if '/weasyprint/' in f.filename]
        where = f'{frames[-1].filename.split("/")[-1]}:{frames[-1].name}' if frames else 'harness'
        if isinstance(exc, AssertionError) and where == 'page.py:make_page':
            return 'err:pagination'
        return f'err:{type(exc).__name__}@{where}'


def model_line(driver, doc):
    """The model's pagination of `doc` (one driver call)."""
    from vlib import lean
    return lean.run_driver(driver, [pm_oof.doc_line(doc)])[0]


def add_cases(run, sec, count, gen=None, skip_errors=True, mode='mixed'):
    """Queue the corpus documents (the open finding and the regression cases of the repaired ones) and then
    `count` generated documents: protocol line `pmoof …`, the implementation's canonical output.
    `skip_errors`: an exception of the implementation is C02's business; C01/C03 only count it."""
    docs.quiet()
    gen = gen or (lambda rng: pm_oof.gen_doc(rng, mode=mode))
    corpus = [(name, corpus_doc(name)[0]) for name in corpus_names()] if count else []
    generated = [(None, None)] * count
    for name, doc in corpus + generated:
        if doc is None:
            doc = gen(run.rng)
        out = real_line(doc)
        if skip_errors and out.startswith('err:') and out != 'err:pagination':
            sec.tags['implementation raised (left to C02)'] += 1
            continue
        pages = out.count('(page ')
        tags = pm_oof.features(doc) + [f'pages{min(pages, 10)}']
        if '(bk (' in out:
            tags.append('out-of-flow-cut')
        if name:
            tags.append('corpus')
        sec.add(pm_oof.doc_line(doc), out, meta={'doc': doc_json(doc), **({'corpus': name} if name else {})},
                nontrivial=pages >= 2, tags=tags)


# ---------------------------------------------------------------------------------------------
# oracles on the implementation's canonical output (they judge a disagreement; they never use the model)

def parse_pages(line):
    return sx.loads_line(line)


def box_index(doc):
    by_id = {}
    for box, _, _, inside in pm_oof.all_boxes(doc):
        by_id[box['id']] = (box, inside)
    return by_id


def frag_lines(frag, out, by_id, flow_only):
    """(para id, line) in tree order; `flow_only`: skip fragments of out-of-flow boxes (and placeholders)."""
    if frag[0] == 'ph':
        return out
    box, _ = by_id[int(frag[1])]
    if flow_only and box['pos'] != 'static':
        return out
    if frag[0] == 'p':
        out.extend((int(frag[1]), int(i)) for i, _ in frag[-1])
    else:
        for kid in frag[-1]:
            frag_lines(kid, out, by_id, flow_only)
    return out


def expected_flow_lines(box, out):
    """Lines of the box's own flow (out-of-flow children excluded)."""
    if box['kind'] == 'para':
        out.extend((box['id'], i) for i in range(box['n']))
    else:
        for kid in box['kids']:
            if kid['pos'] == 'static':
                expected_flow_lines(kid, out)
    return out


def expected_all_lines(box, out):
    if box['kind'] == 'para':
        out.extend((box['id'], i) for i in range(box['n']))
    else:
        for kid in box['kids']:
            expected_all_lines(kid, out)
    return out


def has_lossy_path(box):
    if box['st']['height'] != 'auto':
        return True
    return any(has_lossy_path(k) for k in box['kids'])


def conservation_violation(doc, impl_out, flow_only=False):
    """C01 on the implementation's output.  Flow: the in-flow lines of all pages, concatenated, are the
    in-flow lines of the document, in order.  Out of flow (unless `flow_only`): every line of every
    out-of-flow box is shown exactly once, its fragments in order on consecutive pages.
    Fixed heights (known finding `fixed-height-forgets-overflow`) excuse a loss."""
    if impl_out.startswith('err:'):
        return f'pagination raised {impl_out}'
    pages = parse_pages(impl_out)
    by_id = box_index(doc)
    lossy = has_lossy_path(doc['root'])
    got = []
    for page in pages:
        frag_lines(page[-1], got, by_id, True)
    want = expected_flow_lines(doc['root'], [])
    if got != want and not lossy:
        missing = [w for w in want if w not in got]
        dup = sorted({g for g in got if got.count(g) > 1})
        return f'in-flow lines lost {missing[:5]} duplicated {dup[:5]} or reordered (got {len(got)} of {len(want)})'
    if flow_only or lossy:
        return None
    per_page = [frag_lines(page[-1], [], by_id, False) for page in pages]
    shown = [line for lines in per_page for line in lines]
    for box, inside in by_id.values():
        if box['pos'] == 'static' or inside:
            continue
        ids = {b['id'] for b, _, _, _ in pm_oof.all_boxes({'root': box}) if b['kind'] == 'para'}
        mine = [line for line in shown if line[0] in ids]
        want = expected_all_lines(box, [])
        if mine != want:
            missing = [w for w in want if w not in mine]
            dup = sorted({g for g in mine if mine.count(g) > 1})
            kind = 'float' if box['pos'] == 'float' else 'absolute box'
            return (f'{kind} n{box["id"]}: lines lost {missing[:5]} duplicated {dup[:5]} or reordered '
                    f'(shown {len(mine)} of {len(want)})')
        where = [i for i, lines in enumerate(per_page) if any(line[0] in ids for line in lines)]
        if where and where != list(range(where[0], where[-1] + 1)):
            return f'out-of-flow box n{box["id"]} not on consecutive pages: {where}'
    return None


def progress_violation(doc, impl_out):
    """C03 progress clause on the implementation's output: bounded page count, every non-blank page shows
    something no earlier page showed (a line or a box fragment, out-of-flow ones included), no two
    consecutive blank pages."""
    if impl_out.startswith('err:'):
        return f'pagination raised {impl_out}'
    pages = parse_pages(impl_out)
    by_id = box_index(doc)
    n_lines = len(expected_all_lines(doc['root'], []))
    bound = 2 * (n_lines + len(by_id)) + 8
    if len(pages) > bound:
        return f'{len(pages)} pages for {n_lines} lines'
    seen = set()
    shown = set()
    previous_blank = False
    for number, page in enumerate(pages):
        blank = page[3] == 'true'
        items = set(frag_lines(page[-1], [], by_id, False)) | box_ids(page[-1], set())
        # a page that CSS asked for (forced break or change of page name before or after it) may hold empty boxes only
        asked = (number > 0 and (pages[number - 1][6] != 'any' or pages[number - 1][4] != page[4])) or (
            page[6] != 'any' or (number + 1 < len(pages) and pages[number + 1][4] != page[4]))
        if (number > 0 and not blank and not asked and only_flow_blocks(page[-1], by_id)
                and not (visible(page[-1], by_id) - shown)):
            return f'page {page[1]} shows nothing (no line, no box with a height, padding or border) that is new'
        shown |= visible(page[-1], by_id)
        if not blank and not (items - seen):
            return f'page {page[1]} shows nothing new'
        if blank and previous_blank:
            return f'two consecutive blank pages at {page[1]}'
        seen |= items
        previous_blank = blank
    return None


def only_flow_blocks(frag, by_id):
    """The fragment tree holds in-flow blocks only (no paragraph, placeholder, float or absolutely positioned box: a
    page made for an empty float or for the continuation of an out-of-flow box is not judged by the clause below)."""
    if frag[0] != 'b' or by_id[int(frag[1])][0]['pos'] != 'static':
        return False
    return all(only_flow_blocks(kid, by_id) for kid in frag[-1])


def visible(frag, by_id, out=None):
    """What a fragment tree shows: its lines, and the boxes that take room of their own (height of a childless box,
    padding, border) - an empty box with margins only shows nothing."""
    out = set() if out is None else out
    if frag[0] == 'ph':
        return out
    if frag[0] == 'p':
        out.update(('line', int(frag[1]), int(i)) for i, _ in frag[-1])
    pt, pb, bt, bb, h = (sx.rat(x) for x in frag[6:11])
    if pt or pb or bt or bb or (h > 0 and not frag[-1]):
        out.add(('box', int(frag[1])))
    if frag[0] == 'b':
        for kid in frag[-1]:
            visible(kid, by_id, out)
    return out


def box_ids(frag, out):
    if frag[0] == 'ph':
        out.add(('ph', int(frag[1])))
    elif frag[0] == 'p':
        out.add(('box', int(frag[1]), tuple(sorted(int(i) for i, _ in frag[-1]))))
    else:
        out.add(('box', int(frag[1])))
        for kid in frag[-1]:
            box_ids(kid, out)
    return out


def fit_violation(doc, impl_out):
    """C03 geometry clauses for the flow, on the implementation's output. With "placed before" = an in-flow line or
    a float laid out in the flow of this page earlier in tree order (the continuation of a box cut on the previous
    page, which `make_page` puts in front of the root's children, and absolutely positioned boxes do not count:
    `page_is_empty` ignores them):
    (1) an in-flow line ends below the page bottom only if nothing was placed before it on its page;
    (2) so does the content box of an in-flow box that holds lines of its flow, or has no children but a height,
        padding or border;
    (3) the bottom padding + border of a paragraph fragment that is drawn under its last line on this page (last
        line of the paragraph, or box-decoration-break: clone) fits as well, same exemption;
    (4) a box continued on the next page that keeps its bottom padding/border (clone) has its bottom border edge
        inside the page, unless it lies on the chain of first content of the page and holds at most one leaf (not judged:
        boxes with a fixed height inside, documents with out-of-flow boxes: the forced first content has any size / is pushed
        down by any amount).
    Out-of-flow subtrees are not judged (they are laid out with page_is_empty). Documents with box-decoration-break:
    clone and a negative margin-bottom are not judged (known finding clone-negative-margin-bottom)."""
    if impl_out.startswith('err:'):
        return None
    by_id = box_index(doc)
    if any(box['st']['clone'] and box['st']['mb'] < 0 for box, _ in by_id.values()):
        return None
    bottom = doc['pageH'] * (1 + pm_oof.Fraction(1, 10 ** 9))

    def in_flow(frag):
        return frag[0] != 'ph' and by_id[int(frag[1])][0]['pos'] == 'static'

    def has_lines(frag, flow=True):
        """lines of the fragment's own flow (`flow=False`: of a float, whatever it holds in its flow)"""
        if frag[0] == 'ph' or (flow and not in_flow(frag)):
            return False
        if frag[0] == 'p':
            return bool(frag[-1])
        return any(has_lines(kid) for kid in frag[-1])

    def leaves(frag):
        if not in_flow(frag):
            return 0
        if frag[0] == 'p':
            return len(frag[-1])
        return sum(leaves(kid) for kid in frag[-1]) if frag[-1] else 1

    def flow_ids(frag, out):
        if in_flow(frag):
            out.add(int(frag[1]))
            if frag[0] == 'b':
                for kid in frag[-1]:
                    flow_ids(kid, out)
        return out

    pages = parse_pages(impl_out)
    for number, page in enumerate(pages):
        placed = [False]
        continued = flow_ids(pages[number + 1][-1], set()) if number + 1 < len(pages) else set()
        # floats push the (forced) first content of a page, or a box that clears them, down by any amount, and a box
        # holding only placeholders is kept where it is: clause (4) is judged on documents without out-of-flow boxes
        pushed = any(box['pos'] != 'static' for box, _ in by_id.values())

        def walk(frag, top, first_chain):
            if frag[0] == 'ph':
                return None
            box = by_id[int(frag[1])][0]
            if box['pos'] == 'abs':
                return None
            if box['pos'] == 'float':
                if not top:              # a float of this page's flow (not a continuation in front of the root)
                    placed[0] = placed[0] or has_lines(frag, False) or sx.rat(frag[10]) > 0
                return None
            y, mt, _, pt, pb, bt, bb, h = (sx.rat(x) for x in frag[3:11])
            # judged: boxes holding lines of their flow, and childless boxes with a height, padding or border (the
            # empty fragment of a box whose first child is a float, kept below the page bottom, is the known finding
            # empty-fragment-below-page-bottom)
            solid = has_lines(frag) or (box['kind'] == 'block' and not box['kids'] and bool(
                pt or pb or bt or bb or (h and box['st']['height'] != 'auto')))
            if placed[0] and solid and y + mt + bt + pt + h > bottom:
                return (f'page {page[1]}: the content box of n{frag[1]} ends at {y + mt + bt + pt + h} > '
                        f'{doc["pageH"]} although it is not the first content placed on the page')
            if ((pb or bb) and box['st']['clone'] and int(frag[1]) in continued and not has_lossy_path(box)
                    and not pushed and y + mt + bt + pt + h + pb + bb > bottom and not (first_chain and leaves(frag) <= 1)):
                return (f'page {page[1]}: bottom padding/border of the fragmented box n{frag[1]} ends at '
                        f'{y + mt + bt + pt + h + pb + bb} below the page bottom')
            if frag[0] == 'p':
                line_h = box['lineH']
                for i, ly in frag[-1]:
                    ly = sx.rat(ly)
                    end = ly + line_h
                    what = 'ends'
                    if int(i) == box['n'] - 1 or box['st']['clone']:
                        end, what = end + pb + bb, "with the paragraph's bottom padding and border ends"
                    if end > bottom and placed[0]:
                        return (f'page {page[1]}: line {i} of n{frag[1]} {what} at {end} > {doc["pageH"]} '
                                'although it is not the first content placed on the page')
                    placed[0] = True
                return None
            for k, kid in enumerate(frag[-1]):
                bad = walk(kid, False, first_chain and not placed[0])
                if bad:
                    return bad
            return None

        for kid in page[-1][-1]:
            # the continuations in front of the root's children are out of flow: `walk(kid, True, …)` passes over them
            bad = walk(kid, True, not placed[0])
            if bad:
                return bad
    return None


# ---------------------------------------------------------------------------------------------
# corpus: the open finding (its witness is in lean/WpModel/Witness/C01Oof.lean) and, as regression cases, the
# inputs of the findings repaired in /repo (regression theorems in the same Lean file). Every corpus document
# is also the first case of each pm-oof section, so a repaired defect that comes back is a disagreement with
# the model on a committed input, judged like any other (-> VIOLATION).

CORPUS = {
    'out-of-flow-lost-at-document-end': 'oof_lost_at_end',
    'wrapper-of-empty-box-opens-empty-page': 'oof_empty_wrapper_page',        # filed under C03
}

# finding id -> (corpus file, commit that repaired it)
REGRESSIONS = {
    'float-fragment-duplicated': ('oof_float_duplicated', 'cdccac3'),
    'absolute-placeholder-survives-abort': ('oof_abs_survives_abort', 'e3ac9f0'),
    'float-zero-height-to-origin': ('oof_zero_height_float', '50ab141'),
    'cut-float-dropped-by-later-float': ('oof_float_dropped_by_later_float', 'cdccac3'),
    'nested-placeholder-survives-abort': ('oof_nested_abs_abort', 'e3ac9f0'),
    'nested-out-of-flow-in-postponed-float': ('oof_nested_float_postponed', '0d665d0'),
    'zero-height-float-ignores-other-floats': ('oof_zero_height_float_inside', '1bc67ce'),
    'earlier-break-keeps-bottom-decoration': ('oof_earlier_break_cut_block', '24ce8bf'),
}


def corpus_names():
    return list(CORPUS.values()) + [name for name, _ in REGRESSIONS.values()]


def corpus_doc(name):
    import json
    import pathlib
    path = pathlib.Path(__file__).resolve().parents[2] / 'corpus' / 'C01' / f'{name}.json'
    data = json.loads(path.read_text())
    return doc_from_json(data['doc']), data


def duplication_violation(doc, impl_out):
    """A line shown more than once (the defect of the repaired findings; independent of the loss at the end of
    the document, which is the open finding)."""
    if impl_out.startswith('err:'):
        return f'pagination raised {impl_out}'
    by_id = box_index(doc)
    shown = []
    for page in parse_pages(impl_out):
        frag_lines(page[-1], shown, by_id, False)
    dup = sorted({g for g in shown if shown.count(g) > 1})
    return f'lines shown more than once: {dup[:6]}' if dup else None


def replay_corpus(name):
    """Violation text while the implementation still fails on the corpus document, else None."""
    doc, data = corpus_doc(name)
    out = real_line(doc)
    return conservation_violation(doc, out) or duplication_violation(doc, out) or progress_violation(doc, out)


def replay_regression(name):
    """Violation text if the repaired defect is back on the corpus document: the implementation's pagination is
    no longer the one recorded after the repair and shows a line twice / loses one that was shown."""
    doc, data = corpus_doc(name)
    out = real_line(doc)
    if out == data['implementation']:
        return None
    return duplication_violation(doc, out) or conservation_violation(doc, out)


def finding_replays():
    """Replay functions by finding id (the repaired ones included: props/c01.py names them; a `fixed:` entry is
    never replayed as a known finding)."""
    replays = {finding: (lambda name=name: replay_corpus(name)) for finding, name in CORPUS.items()}
    replays.update({finding: (lambda name=name: replay_regression(name))
                    for finding, (name, _) in REGRESSIONS.items()})
    return replays
