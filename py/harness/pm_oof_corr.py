"""The PM stage-2a document-level correspondence (out-of-flow children), in the style of pm_corr."""
from harness import docs, pm_corr, pm_oof
from vlib import sx

doc_json = pm_corr.doc_json
doc_from_json = pm_corr.doc_from_json


def real_line(doc):
    import traceback
    try:
        with docs.time_limit(20):
            return pm_oof.run_real(doc)
    except docs.Hang:
        return 'err:Hang@layout'
    except Exception as exc:  # noqa: BLE001
        frames = [f for f in traceback.extract_tb(exc.__traceback__) if '/weasyprint/' in f.filename]
        where = f'{frames[-1].filename.split("/")[-1]}:{frames[-1].name}' if frames else 'harness'
        if isinstance(exc, AssertionError) and where == 'page.py:make_page':
            return 'err:pagination'
        return f'err:{type(exc).__name__}@{where}'


def model_line(driver, doc):
    """The model's pagination of `doc` (one driver call)."""
    from vlib import lean
    return lean.run_driver(driver, [pm_oof.doc_line(doc)])[0]


def add_cases(run, sec, count, gen=None, skip_errors=True, mode='mixed'):
    """Queue `count` generated documents: protocol line `pmoof …`, the implementation's canonical output.
    `skip_errors`: an exception of the implementation is C02's business; C01/C03 only count it."""
    docs.quiet()
    gen = gen or (lambda rng: pm_oof.gen_doc(rng, mode=mode))
    for _ in range(count):
        doc = gen(run.rng)
        out = real_line(doc)
        if skip_errors and out.startswith('err:') and out != 'err:pagination':
            sec.tags['implementation raised (left to C02)'] += 1
            continue
        pages = out.count('(page ')
        tags = pm_oof.features(doc) + [f'pages{min(pages, 10)}']
        if '(bk (' in out:
            tags.append('out-of-flow-cut')
        sec.add(pm_oof.doc_line(doc), out, meta={'doc': doc_json(doc)}, nontrivial=pages >= 2, tags=tags)


# ---------------------------------------------------------------------------------------------
# oracles on the implementation's canonical output (they judge a disagreement; they never use the model)

def parse_pages(line):
    return sx.loads_line(line)


def box_index(doc):
    by_id = {}
    for box, _, _, inside in pm_oof.all_boxes(doc):
        by_id[box['id']] = (box, inside)
    return by_id


def frag_lines(frag, out, by_id, flow_only):
    """(para id, line) in tree order; `flow_only`: skip fragments of out-of-flow boxes (and placeholders)."""
    if frag[0] == 'ph':
        return out
    box, _ = by_id[int(frag[1])]
    if flow_only and box['pos'] != 'static':
        return out
    if frag[0] == 'p':
        out.extend((int(frag[1]), int(i)) for i, _ in frag[-1])
    else:
        for kid in frag[-1]:
            frag_lines(kid, out, by_id, flow_only)
    return out


def expected_flow_lines(box, out):
    """Lines of the box's own flow (out-of-flow children excluded)."""
    if box['kind'] == 'para':
        out.extend((box['id'], i) for i in range(box['n']))
    else:
        for kid in box['kids']:
            if kid['pos'] == 'static':
                expected_flow_lines(kid, out)
    return out


def expected_all_lines(box, out):
    if box['kind'] == 'para':
        out.extend((box['id'], i) for i in range(box['n']))
    else:
        for kid in box['kids']:
            expected_all_lines(kid, out)
    return out


def has_lossy_path(box):
    if box['st']['height'] != 'auto':
        return True
    return any(has_lossy_path(k) for k in box['kids'])


def conservation_violation(doc, impl_out, flow_only=False):
    """C01 on the implementation's output.  Flow: the in-flow lines of all pages, concatenated, are the
    in-flow lines of the document, in order.  Out of flow (unless `flow_only`): every line of every
    out-of-flow box is shown exactly once, its fragments in order on consecutive pages.
    Fixed heights (known finding `fixed-height-forgets-overflow`) excuse a loss."""
    if impl_out.startswith('err:'):
        return f'pagination raised {impl_out}'
    pages = parse_pages(impl_out)
    by_id = box_index(doc)
    lossy = has_lossy_path(doc['root'])
    got = []
    for page in pages:
        frag_lines(page[-1], got, by_id, True)
    want = expected_flow_lines(doc['root'], [])
    if got != want and not lossy:
        missing = [w for w in want if w not in got]
        dup = sorted({g for g in got if got.count(g) > 1})
        return f'in-flow lines lost {missing[:5]} duplicated {dup[:5]} or reordered (got {len(got)} of {len(want)})'
    if flow_only or lossy:
        return None
    per_page = [frag_lines(page[-1], [], by_id, False) for page in pages]
    shown = [line for lines in per_page for line in lines]
    for box, inside in by_id.values():
        if box['pos'] == 'static' or inside:
            continue
        ids = {b['id'] for b, _, _, _ in pm_oof.all_boxes({'root': box}) if b['kind'] == 'para'}
        mine = [line for line in shown if line[0] in ids]
        want = expected_all_lines(box, [])
        if mine != want:
            missing = [w for w in want if w not in mine]
            dup = sorted({g for g in mine if mine.count(g) > 1})
            kind = 'float' if box['pos'] == 'float' else 'absolute box'
            return (f'{kind} n{box["id"]}: lines lost {missing[:5]} duplicated {dup[:5]} or reordered '
                    f'(shown {len(mine)} of {len(want)})')
        where = [i for i, lines in enumerate(per_page) if any(line[0] in ids for line in lines)]
        if where and where != list(range(where[0], where[-1] + 1)):
            return f'out-of-flow box n{box["id"]} not on consecutive pages: {where}'
    return None


def progress_violation(doc, impl_out):
    """C03 progress clause on the implementation's output: bounded page count, every non-blank page shows
    something no earlier page showed (a line or a box fragment, out-of-flow ones included), no two
    consecutive blank pages."""
    if impl_out.startswith('err:'):
        return f'pagination raised {impl_out}'
    pages = parse_pages(impl_out)
    by_id = box_index(doc)
    n_lines = len(expected_all_lines(doc['root'], []))
    bound = 2 * (n_lines + len(by_id)) + 8
    if len(pages) > bound:
        return f'{len(pages)} pages for {n_lines} lines'
    seen = set()
    previous_blank = False
    for page in pages:
        blank = page[3] == 'true'
        items = set(frag_lines(page[-1], [], by_id, False)) | box_ids(page[-1], set())
        if not blank and not (items - seen):
            return f'page {page[1]} shows nothing new'
        if blank and previous_blank:
            return f'two consecutive blank pages at {page[1]}'
        seen |= items
        previous_blank = blank
    return None


def box_ids(frag, out):
    if frag[0] == 'ph':
        out.add(('ph', int(frag[1])))
    elif frag[0] == 'p':
        out.add(('box', int(frag[1]), tuple(sorted(int(i) for i, _ in frag[-1]))))
    else:
        out.add(('box', int(frag[1])))
        for kid in frag[-1]:
            box_ids(kid, out)
    return out


def fit_violation(doc, impl_out):
    """C03 geometry clause for the flow: an in-flow line ends below the page bottom only if it is the first
    in-flow line of its page."""
    if impl_out.startswith('err:'):
        return None
    by_id = box_index(doc)
    bottom = doc['pageH'] * (1 + pm_oof.Fraction(1, 10 ** 9))
    for page in parse_pages(impl_out):
        first = [True]

        def walk(frag):
            if frag[0] == 'ph' or by_id[int(frag[1])][0]['pos'] != 'static':
                return None
            if frag[0] == 'p':
                line_h = by_id[int(frag[1])][0]['lineH']
                for i, y in frag[-1]:
                    y = sx.rat(y)
                    if y + line_h > bottom and not first[0]:
                        return f'page {page[1]}: line {i} of n{frag[1]} ends at {y + line_h} > {doc["pageH"]}'
                    first[0] = False
                return None
            for kid in frag[-1]:
                bad = walk(kid)
                if bad:
                    return bad
            return None
        bad = walk(page[-1])
        if bad:
            return bad
    return None


# ---------------------------------------------------------------------------------------------
# corpus (reproduction of the witnesses of lean/WpModel/Witness/C01Oof.lean on the implementation)

CORPUS = {
    'out-of-flow-lost-at-document-end': 'oof_lost_at_end',
    'float-fragment-duplicated': 'oof_float_duplicated',
    'absolute-placeholder-survives-abort': 'oof_abs_survives_abort',
}


def corpus_doc(name):
    import json
    import pathlib
    path = pathlib.Path(__file__).resolve().parents[2] / 'corpus' / 'C01' / f'{name}.json'
    data = json.loads(path.read_text())
    return doc_from_json(data['doc']), data


def replay_corpus(name):
    """Violation text while the implementation still fails on the corpus document, else None."""
    doc, data = corpus_doc(name)
    return conservation_violation(doc, real_line(doc))


def finding_replays():
    return {finding: (lambda name=name: replay_corpus(name)) for finding, name in CORPUS.items()}
