"""The footnote pagination model (PM stage 2b) document-level correspondence + independent judges."""
from harness import docs, pm_corr, pm_foot
from vlib import sx

DRIVER = 'driver_s2foot'


def real_line(doc):
    import traceback
    if 'ops' in doc:        # a sequence of calls of the footnote methods of LayoutContext (harness/pm_foot_ops.py)
        from harness import pm_foot_ops
        return pm_foot_ops.real_line(doc['ops'])
    try:
        with docs.time_limit(20):
            return pm_foot.run_real(doc)
    except docs.Hang:
        return 'err:Hang@layout'
    except Exception as exc:  # noqa: BLE001
        frames = [f for f in traceback.extract_tb(exc.__traceback__) if '/weasyprint/' in f.filename]
        where = f'{frames[-1].filename.split("/")[-1]}:{frames[-1].name}' if frames else 'harness'
        if isinstance(exc, AssertionError) and where == 'page.py:make_page':
            return 'err:pagination'
        return f'err:{type(exc).__name__}@{where}'


def model_line(doc, driver=DRIVER):
    from vlib import lean
    if 'ops' in doc:
        from harness import pm_foot_ops
        return lean.run_driver(driver, [pm_foot_ops.case_line(doc['ops'])])[0]
    return lean.run_driver(driver, [pm_foot.doc_line(doc)])[0]


def reference_line(doc):
    """The model's pagination of `doc` (= the pagination of the unchanged code) through the most recently built
    driver that serves `pmfoot` (the check of the running property has just built its own), or None."""
    from vlib import lean
    bin_dir = lean.LEAN / '.lake' / 'build' / 'bin'
    found = [bin_dir / name for name in ('driver_c01', 'driver_c02', 'driver_c03', DRIVER) if (bin_dir / name).exists()]
    for path in sorted(found, key=lambda f: -f.stat().st_mtime):
        try:
            out = lean.run_driver(path.name, [pm_foot.doc_line(doc)])[0]
        except Exception:  # noqa: BLE001
            continue
        if out != 'bad-op':
            return out
    return None


def corpus_docs():
    """(name, document) of every stored footnote document (`corpus/C0x/footnote_*.json` holding a `doc` with a
    footnote `area`): the inputs of the findings of this grammar, those repaired in /repo included - they stay in
    the correspondence as regression cases (the model now states the repaired behaviour)."""
    import json
    from vlib.paths import CORPUS
    out = []
    for prop in ('C01', 'C02', 'C03'):
        for path in sorted((CORPUS / prop).glob('footnote_*.json')):
            data = json.loads(path.read_text())
            if isinstance(data.get('doc'), dict) and 'area' in data['doc']:
                out.append((f'{prop}/{path.stem}', doc_from_json(data['doc'])))
    return out


def add_cases(run, sec, count, gen=None, skip_errors=True):
    """Queue the stored footnote documents (corpus first), the deterministic families, then `count` generated
    documents: protocol line for `driver_s2foot`, real layout canonicalised.

    `skip_errors`: an exception of the implementation other than the known `assert root_box` or a hang is C02's
    business; C01/C03 only count it."""
    docs.quiet()
    gen = gen or pm_foot.gen_doc
    fixed = [(name, doc) for name, doc in corpus_docs()]
    fixed += pm_foot.family_docs(thorough=bool(run.n(0, 1)))
    for index in range(len(fixed) + count):
        if index < len(fixed):
            name, doc = fixed[index]
        else:
            name, doc = None, gen(run.rng)
        out = real_line(doc)
        if skip_errors and out.startswith('err:') and out != 'err:pagination' and not out.startswith('err:Hang'):
            sec.tags['implementation raised (left to C02)'] += 1
            continue        # (a hang is kept: the model terminates - C03Foot.paginateFoot_total - and no page is shown)
        pages = out.count('(page ')
        tags = pm_foot.features(doc) + [f'pages{min(pages, 10)}']
        if '(fa ' in out and out.count('(fa none)') < pages:
            tags.append('footnote-area-shown')
        if name is not None:
            tags.append('corpus' if '/' in name else 'family')
        meta = {'doc': pm_corr.doc_json(doc)}
        if name is not None:
            meta['name'] = name
        sec.add(pm_foot.doc_line(doc), out, meta=meta,
                nontrivial=pages >= 2 and pm_foot.n_footnotes(doc) > 0, tags=tags)
    # function level: sequences of layout_footnote / report_footnote / unlayout_footnote calls on a real LayoutContext,
    # in orders that documents do not produce (model: applyOps of Model/PaginateFootOps.lean)
    from harness import pm_foot_ops
    for _ in range(run.n(25, 400)):
        case = pm_foot_ops.gen_case(run.rng)
        out = pm_foot_ops.real_line(case)
        sec.add(pm_foot_ops.case_line(case), out, meta={'doc': {'ops': pm_corr.doc_json(case)}},
                nontrivial=out.count('(s ') >= 3, tags=['context-method-calls'] + (['calls-stop'] if '(stop)' in out else []))


doc_json = pm_corr.doc_json


def doc_from_json(data):
    from fractions import Fraction
    if 'ops' in data:
        case = pm_corr.doc_from_json(data['ops'])
        case['fns'] = [dict(f, h=Fraction(f['h'])) for f in case['fns']]
        case['area'] = {k: (v if v == 'inf' else Fraction(v)) for k, v in case['area'].items()}
        return {'ops': case}
    doc = pm_corr.doc_from_json(data)

    def conv(x):
        return Fraction(x) if x != 'inf' and not isinstance(x, Fraction) else x
    doc['area'] = {k: conv(v) for k, v in doc['area'].items()}

    def walk(box):
        for c in box.get('calls', []):
            c['h'] = Fraction(c['h'])
        for k in box['kids']:
            walk(k)
    walk(doc['root'])
    return doc


# ---------------------------------------------------------------------------------------------
# judges on the implementation's canonical output (state the property clause, independent of the model)

def parse(impl_out):
    items = sx.loads_line(impl_out)
    pages = [p for p in items if p and p[0] == 'page']
    left = [p for p in items if p and p[0] == 'left']
    return pages, (left[0][1:] if left else [])


def page_lines(page):
    return pm_corr.frag_lines(page[8], [])


def page_foots(page):
    area = page[9]
    if len(area) < 7:
        return []
    return [int(k[0]) for k in area[6]]


def expected_calls(box, out):
    """(paragraph id, line, fid) in call order."""
    if box['kind'] == 'para':
        out.extend((box['id'], c['line'], c['fid']) for c in box.get('calls', []))
    for kid in box['kids']:
        expected_calls(kid, out)
    return out


def conservation_violation(doc, impl_out):
    """C01 on the extended grammar: every line exactly once and in order (as stage 1), and every footnote body
    whose call line is rendered exactly once, on the page of its call or on a later one, bodies in call order."""
    if 'ops' in doc:
        from harness import pm_foot_ops
        return pm_foot_ops.trace_violation(doc['ops'], impl_out)

    if impl_out.startswith('err:'):
        return f'pagination raised {impl_out}'
    pages, _left = parse(impl_out)
    got = []
    for page in pages:
        got.extend(page_lines(page))
    want = pm_corr.expected_lines(doc['root'], [])
    lossy = pm_corr.has_lossy_path(doc['root'])
    if got != want and not lossy:
        missing = [w for w in want if w not in got]
        dup = sorted({g for g in got if got.count(g) > 1})
        return f'lines lost {missing[:5]} duplicated {dup[:5]} or reordered (got {len(got)} of {len(want)})'
    line_page = {}
    for index, page in enumerate(pages):
        for line in page_lines(page):
            line_page.setdefault(line, index)
    foot_pages = {}
    order = []
    for index, page in enumerate(pages):
        for fid in page_foots(page):
            foot_pages.setdefault(fid, []).append(index)
            order.append(fid)
    calls = expected_calls(doc['root'], [])
    for pid, line, fid in calls:
        shown = foot_pages.get(fid, [])
        if (pid, line) not in line_page:
            if shown and not lossy:
                return f'footnote {fid} rendered but its call line {(pid, line)} is not'
            continue
        if len(shown) == 0:
            return f'footnote {fid} (called on page {line_page[(pid, line)]}) is never rendered'
        if len(shown) > 1:
            return f'footnote {fid} rendered {len(shown)} times (pages {shown})'
        if shown[0] < line_page[(pid, line)]:
            return f'footnote {fid} rendered on page {shown[0]} before its call on page {line_page[(pid, line)]}'
    wanted_order = [fid for _, _, fid in calls if fid in foot_pages]
    if order != wanted_order and not lossy:
        return f'footnote bodies out of call order: {order[:12]} instead of {wanted_order[:12]}'
    return None


def progress_violation(doc, impl_out):
    """C03 on the extended grammar: every non-blank page shows something new (a line, a box or a footnote body);
    a blank page is followed by a non-blank one unless it carries postponed footnotes; bounded page count."""
    if 'ops' in doc:
        from harness import pm_foot_ops
        return pm_foot_ops.trace_violation(doc['ops'], impl_out)

    if impl_out.startswith('err:'):
        return f'pagination raised {impl_out}'
    pages, _left = parse(impl_out)
    n_lines = len(pm_corr.expected_lines(doc['root'], []))
    n_foot = pm_foot.n_footnotes(doc)

    def count_boxes(b):
        return 1 + sum(count_boxes(k) for k in b['kids'])
    bound = 2 * (n_lines + count_boxes(doc['root'])) + 8 + 2 * n_foot
    if len(pages) > bound:
        return f'{len(pages)} pages for {n_lines} lines and {n_foot} footnotes'
    seen = set()
    previous_empty_blank = False
    for page in pages:
        blank = page[3] == 'true'
        lines = page_lines(page)
        ids = pm_corr.box_ids(page[8], set())
        foots = {('foot', f) for f in page_foots(page)}
        new = (set(lines) | ids | foots) - seen
        if not blank and not new:
            return f'page {page[1]} shows nothing new'
        if not blank and not (set(lines) | foots) - seen and not visible_boxes(page[8]) and len(pages) > 1:
            # only boxes without any extent are new on the page: no content is shown. The unchanged code makes such
            # pages too (an empty box after a forced break), so this is judged against its pagination (the model)
            reference = reference_line(doc)
            if reference is not None and not reference.startswith('err:') and reference.count('(page ') < len(pages):
                return (f'page {page[1]} shows no content (only boxes without height, padding or border); the '
                        f'unchanged pagination has {reference.count("(page ")} pages, not {len(pages)}')
        if blank and not foots and previous_empty_blank:
            return f'two consecutive empty blank pages at {page[1]}'
        if blank and foots and not (foots - seen):
            return f'blank page {page[1]} repeats footnotes'
        seen |= set(lines) | ids | foots
        previous_empty_blank = blank and not foots
    return None


def unjudged_geometry(doc):
    """Documents whose boxes overflow by design or by a recorded finding of the block model (not of footnotes)."""
    if any(b['st']['height'] != 'auto' or b['st']['maxH'] != 'inf' for b in pm_foot.all_boxes(doc['root'])):
        return True
    return any(b['st']['clone'] and b['st']['mb'] < 0
               for b in pm_foot.all_boxes(doc['root']))     # known finding clone-negative-margin-bottom (C03)


def placed_lines(doc, page):
    """(paragraph id, line, top, bottom) of the lines of a page, in tree order."""
    from fractions import Fraction
    heights = {b['id']: b['lineH'] for b in pm_foot.all_boxes(doc['root']) if b['kind'] == 'para'}

    def lines_y(frag, out):
        if frag[0] == 'p':
            for i, y in frag[-1]:
                out.append((int(frag[1]), int(i), Fraction(y), Fraction(y) + heights[int(frag[1])]))
        else:
            for kid in frag[-1]:
                lines_y(kid, out)
        return out
    return lines_y(page[8], [])


def unbreakable_violation(doc, impl_out):
    """C03 "no unbreakable block ends below the bottom edge unless it is the first content placed on the page": the
    border box of a block with a fixed height that is shown whole on the page (neither continued from the previous
    page nor on the next one), and is not on the chain of first content, ends above the page bottom and above the
    footnote area."""
    from fractions import Fraction
    if impl_out.startswith('err:'):
        return None
    fixed = {b['id'] for b in pm_foot.all_boxes(doc['root']) if b['st']['height'] != 'auto'}
    if not fixed:
        return None
    pages, _ = parse(impl_out)
    for number, page in enumerate(pages):
        area = page[9]
        limit = doc['pageH']
        if len(area) >= 7 and area[6]:
            limit = min(limit, Fraction(area[1]))
        limit = limit * (1 + Fraction(1, 10**9))
        other = set()
        for k in (number - 1, number + 1):
            if 0 <= k < len(pages):
                frag_ids(pages[k][8], other)

        def walk(frag, on_first_chain):
            y, mt, mb, pt, pb, bt, bb, h = (Fraction(x) for x in frag[3:11])
            bottom = y + mt + bt + pt + h + pb + bb
            ident = int(frag[1])
            if ident in fixed and ident not in other and not on_first_chain and bottom > limit:
                return (f'page {page[1]}: the fixed-height block {ident} is not the first content of the page and '
                        f'its border box ends at {bottom}, below {limit.limit_denominator(1000)}')
            if frag[0] == 'b':
                for i, kid in enumerate(frag[-1]):
                    bad = walk(kid, on_first_chain and i == 0)
                    if bad:
                        return bad
            return None
        bad = walk(page[8], True)
        if bad:
            return bad
    return None


def visible_boxes(frag):
    """Does the fragment (or a descendant) have an extent: a line, a height, a padding or a border?"""
    from fractions import Fraction
    if frag[0] == 'p' and frag[-1]:
        return True
    _y, _mt, _mb, pt, pb, bt, bb, h = (Fraction(x) for x in frag[3:11])
    if frag[0] == 'p':
        return bool(pt or pb or bt or bb or h)
    if not frag[-1]:
        return bool(pt or pb or bt or bb or h)
    return bool(pt or pb or bt or bb) or any(visible_boxes(kid) for kid in frag[-1])


def overlap_violation(doc, impl_out):
    """Geometry (C03): no line of the page (other than the first line placed on it) ends below the top of the margin
    box of the page's footnote area, i.e. body text and footnote area do not overlap; the footnotes of the area are
    stacked without gap or overlap, the area ends at the page bottom; and no such line ends below the page box.
    Documents with fixed / maximal heights (content overflows its box by design) are not judged.  Every `@footnote`
    style is judged, negative margins included (the excuses for the findings footnote-area-negative-margin-overflow
    and -box went with the repairs 84e5b27 and 2efefde: `page_bottom` never exceeds the page box nor the area top)."""
    if 'ops' in doc:
        from harness import pm_foot_ops
        return None

    if impl_out.startswith('err:'):
        return None
    if unjudged_geometry(doc):
        what = unbreakable_violation(doc, impl_out)
        if what is not None:
            reference = reference_line(doc)
            if reference is None or reference.startswith('err:') or unbreakable_violation(doc, reference):
                return None
            what += ' (not so in the unchanged pagination)'
        return what
    from fractions import Fraction
    pages, _ = parse(impl_out)
    limit = doc['pageH'] * (1 + Fraction(1, 10**9))
    for page in pages:
        area = page[9]
        placed = placed_lines(doc, page)
        for pid, i, _y, bottom in placed[1:]:
            if bottom > limit:
                return f'page {page[1]}: line {(pid, i)} ends at {bottom} below the page box ({doc["pageH"]})'
        if len(area) < 7 or not area[6]:
            continue
        top = Fraction(area[1])
        for pid, i, _y, bottom in placed[1:]:
            if bottom > top:
                return f'page {page[1]}: line {(pid, i)} ends at {bottom} below the footnote top {top}'
        # the area box: margin box from `top` to the page bottom, children stacked from its content top
        a = pm_foot.area_for(doc, page[4])
        height, mb, pb, bb = (Fraction(area[k]) for k in (2, 3, 4, 5))
        if top + a['mt'] + a['bt'] + a['pt'] + height + pb + bb + mb != doc['pageH']:
            return f'page {page[1]}: the footnote area (top {top}, height {height}) does not end at the page bottom'
        y = top + a['mt'] + a['bt'] + a['pt']
        for fid, ky, kh in area[6]:
            if Fraction(ky) != y:
                return f'page {page[1]}: footnote {fid} starts at {ky}, the previous one ends at {y}'
            y += Fraction(kh)
    # "a fragmented box's own bottom padding/border also fits": judged against the pagination of the unchanged code
    # (the model) - on the chain of first content, and for a box continued by an empty fragment only, the unchanged
    # code itself lets a bottom padding overflow
    for continued_only in (True, False):
        what = decoration_violation(doc, impl_out, continued_only)
        if what is not None:
            reference = reference_line(doc)
            if (reference is None or reference.startswith('err:') or
                    decoration_violation(doc, reference, continued_only)):
                return None
            return what + ' (the unchanged pagination keeps the bottom paddings/borders of this document inside)'
    return None


# ---------------------------------------------------------------------------------------------
# replays of the findings of the footnote grammar (corpus/C01/footnote_*.json), on the real layout

def corpus_doc(name):
    import json
    from vlib.paths import CORPUS
    for prop in ('C01', 'C02', 'C03'):
        path = CORPUS / prop / f'{name}.json'
        if path.exists():
            return doc_from_json(json.loads(path.read_text())['doc'])
    raise FileNotFoundError(name)


def replay_policy_block_crash():
    """(fixed 67bf2ca) footnote-policy: block on the first paragraph of a page: AssertionError in make_page."""
    return real_line(corpus_doc('footnote_policy_block_crash')) == 'err:pagination'


def replay_named_page_lost():
    """(fixed 8db5909) Footnotes of two page names in one footnote area: the second is never rendered."""
    doc = corpus_doc('footnote_named_page_lost')
    return bool(conservation_violation(doc, real_line(doc)))


def replay_named_page_overlap():
    """(fixed 8db5909) page_bottom drifts when a fragmented footnote area with bottom decoration is updated."""
    doc = corpus_doc('footnote_named_page_overlap')
    return bool(overlap_violation(doc, real_line(doc)))


def replay_page_groups_none():
    """Extra footnote page after a forgotten (fixed-height) rest with a pending named forced break: AttributeError."""
    return real_line(corpus_doc('footnote_page_groups_none')).startswith('err:AttributeError@page.py:_update_page_groups')


def leaf_count(frag):
    if frag[0] == 'p':
        return len(frag[-1])
    return sum(leaf_count(k) for k in frag[-1]) if frag[-1] else 1


def frag_ids(frag, out):
    out.add(int(frag[1]))
    if frag[0] == 'b':
        for kid in frag[-1]:
            frag_ids(kid, out)
    return out


def decoration_violation(doc, impl_out, continued_only=True):
    """C03 "a fragmented box's own bottom padding/border also fits", on the footnote grammar: the bottom border
    edge of a box that is continued on the next page and keeps its bottom padding/border on this one
    (box-decoration-break: clone) is not below the page box nor below the top of the page's footnote area - unless
    the box lies on the chain of first content of the page and holds at most one line (it was forced onto the page).
    (`continued_only=False` also judges the boxes that end on the page: on the chain of first content the unchanged
    code lets their bottom paddings overflow - nothing is laid out again there - so that is not judged.)"""
    from fractions import Fraction
    if impl_out.startswith('err:') or unjudged_geometry(doc):
        return None
    pages, _ = parse(impl_out)
    for number, page in enumerate(pages):
        area = page[9]
        limit = doc['pageH']
        if len(area) >= 7 and area[6]:
            limit = min(limit, Fraction(area[1]))
        limit = limit * (1 + Fraction(1, 10**9))
        continued = frag_ids(pages[number + 1][8], set()) if number + 1 < len(pages) else set()

        def walk(frag, on_first_chain):
            y, mt, mb, pt, pb, bt, bb, h = (Fraction(x) for x in frag[3:11])
            bottom = y + mt + bt + pt + h + pb + bb
            forced_only = on_first_chain and leaf_count(frag) <= 1
            judged = int(frag[1]) in continued or not continued_only
            if (pb or bb) and judged and bottom > limit and not forced_only:
                return (f'page {page[1]}: bottom padding/border of box {frag[1]} ends at {bottom} below '
                        f'{"the footnote area top / " if limit < doc["pageH"] else ""}the page bottom {limit.limit_denominator(1000)}')
            if frag[0] == 'b':
                for i, kid in enumerate(frag[-1]):
                    bad = walk(kid, on_first_chain and i == 0)
                    if bad:
                        return bad
            return None
        bad = walk(page[8], True)
        if bad:
            return bad
    return None


def page_box_overflow(doc, impl_out):
    """A line that is not the first of its page ends below the page box (whatever the footnote area's style)."""
    from fractions import Fraction
    if impl_out.startswith('err:') or unjudged_geometry(doc):
        return None
    limit = doc['pageH'] * (1 + Fraction(1, 10**9))
    pages, _ = parse(impl_out)
    for page in pages:
        for pid, i, _y, bottom in placed_lines(doc, page)[1:]:
            if bottom > limit:
                return f'page {page[1]}: line {(pid, i)} ends at {bottom} below the page box ({doc["pageH"]})'
    return None


def replay_area_negative_margin():
    """(fixed 84e5b27) @footnote{margin-top:-4px}: the emptied area raised page_bottom above the page box."""
    doc = corpus_doc('footnote_area_negative_margin')
    return bool(page_box_overflow(doc, real_line(doc)))


def replay_area_negative_margin_box():
    """(fixed 2efefde) @footnote{margin-top:-14px} over a 10px footnote: the margin box of the non-empty area is
    -4px high, page_bottom ended below the page box and a line overflowed it."""
    doc = corpus_doc('footnote_area_negative_margin_box')
    return bool(page_box_overflow(doc, real_line(doc)))


FINDING_REPLAYS = {
    'footnote-page-groups-attributeerror': replay_page_groups_none,        # C02 (variant of page-groups-indexerror)
    # repaired in /repo (`fixed:` lines of known_findings.txt); kept so that the checks that still name them keep
    # working - the documents are regression cases of add_cases (corpus first)
    'footnote-policy-block-crash': replay_policy_block_crash,              # C02, fixed 67bf2ca
    'footnote-named-page-lost': replay_named_page_lost,                    # C01, fixed 8db5909
    'footnote-named-page-area-overlap': replay_named_page_overlap,         # C03, fixed 8db5909
    'footnote-area-negative-margin-overflow': replay_area_negative_margin,  # C03, fixed 84e5b27
    'footnote-area-negative-margin-box': replay_area_negative_margin_box,  # C03, fixed 2efefde
}


def classify(doc, impl_out):
    """Finding id explaining a clause violation of `impl_out` on `doc`, or None (a new violation).  Only findings
    that are still open: the repaired ones (policy-block crash, named-page loss / overlap) explain nothing."""
    if impl_out.startswith('err:AttributeError@page.py:_update_page_groups'):
        return 'footnote-page-groups-attributeerror'
    return None
