"""The footnote pagination model (PM stage 2b) document-level correspondence + independent judges."""
from harness import docs, pm_corr, pm_foot
from vlib import sx

DRIVER = 'driver_s2foot'


def real_line(doc):
    import traceback
    try:
        with docs.time_limit(20):
            return pm_foot.run_real(doc)
    except docs.Hang:
        return 'err:Hang@layout'
    except Exception as exc:  # noqa: BLE001
        frames = [f for f in traceback.extract_tb(exc.__traceback__) if '/weasyprint/' in f.filename]
        where = f'{frames[-1].filename.split("/")[-1]}:{frames[-1].name}' if frames else 'harness'
        if isinstance(exc, AssertionError) and where == 'page.py:make_page':
            return 'err:pagination'
        return f'err:{type(exc).__name__}@{where}'


def model_line(doc, driver=DRIVER):
    from vlib import lean
    return lean.run_driver(driver, [pm_foot.doc_line(doc)])[0]


def add_cases(run, sec, count, gen=None, skip_errors=True):
    """Queue `count` generated documents: protocol line for `driver_s2foot`, real layout canonicalised.

    `skip_errors`: an exception of the implementation other than the known `assert root_box` is C02's
    business; C01/C03 only count it."""
    docs.quiet()
    gen = gen or pm_foot.gen_doc
    for _ in range(count):
        doc = gen(run.rng)
        out = real_line(doc)
        if skip_errors and out.startswith('err:') and out != 'err:pagination':
            sec.tags['implementation raised (left to C02)'] += 1
            continue
        pages = out.count('(page ')
        tags = pm_foot.features(doc) + [f'pages{min(pages, 10)}']
        if '(fa ' in out and out.count('(fa none)') < pages:
            tags.append('footnote-area-shown')
        sec.add(pm_foot.doc_line(doc), out, meta={'doc': pm_corr.doc_json(doc)},
                nontrivial=pages >= 2 and pm_foot.n_footnotes(doc) > 0, tags=tags)


doc_json = pm_corr.doc_json


def doc_from_json(data):
    from fractions import Fraction
    doc = pm_corr.doc_from_json(data)

    def conv(x):
        return Fraction(x) if x != 'inf' and not isinstance(x, Fraction) else x
    doc['area'] = {k: conv(v) for k, v in doc['area'].items()}

    def walk(box):
        for c in box.get('calls', []):
            c['h'] = Fraction(c['h'])
        for k in box['kids']:
            walk(k)
    walk(doc['root'])
    return doc


# ---------------------------------------------------------------------------------------------
# judges on the implementation's canonical output (state the property clause, independent of the model)

def parse(impl_out):
    items = sx.loads_line(impl_out)
    pages = [p for p in items if p and p[0] == 'page']
    left = [p for p in items if p and p[0] == 'left']
    return pages, (left[0][1:] if left else [])


def page_lines(page):
    return pm_corr.frag_lines(page[8], [])


def page_foots(page):
    area = page[9]
    if len(area) < 7:
        return []
    return [int(k[0]) for k in area[6]]


def expected_calls(box, out):
    """(paragraph id, line, fid) in call order."""
    if box['kind'] == 'para':
        out.extend((box['id'], c['line'], c['fid']) for c in box.get('calls', []))
    for kid in box['kids']:
        expected_calls(kid, out)
    return out


def conservation_violation(doc, impl_out):
    """C01 on the extended grammar: every line exactly once and in order (as stage 1), and every footnote body
    whose call line is rendered exactly once, on the page of its call or on a later one, bodies in call order."""
    if impl_out.startswith('err:'):
        return f'pagination raised {impl_out}'
    pages, _left = parse(impl_out)
    got = []
    for page in pages:
        got.extend(page_lines(page))
    want = pm_corr.expected_lines(doc['root'], [])
    lossy = pm_corr.has_lossy_path(doc['root'])
    if got != want and not lossy:
        missing = [w for w in want if w not in got]
        dup = sorted({g for g in got if got.count(g) > 1})
        return f'lines lost {missing[:5]} duplicated {dup[:5]} or reordered (got {len(got)} of {len(want)})'
    line_page = {}
    for index, page in enumerate(pages):
        for line in page_lines(page):
            line_page.setdefault(line, index)
    foot_pages = {}
    order = []
    for index, page in enumerate(pages):
        for fid in page_foots(page):
            foot_pages.setdefault(fid, []).append(index)
            order.append(fid)
    calls = expected_calls(doc['root'], [])
    for pid, line, fid in calls:
        shown = foot_pages.get(fid, [])
        if (pid, line) not in line_page:
            if shown and not lossy:
                return f'footnote {fid} rendered but its call line {(pid, line)} is not'
            continue
        if len(shown) == 0:
            return f'footnote {fid} (called on page {line_page[(pid, line)]}) is never rendered'
        if len(shown) > 1:
            return f'footnote {fid} rendered {len(shown)} times (pages {shown})'
        if shown[0] < line_page[(pid, line)]:
            return f'footnote {fid} rendered on page {shown[0]} before its call on page {line_page[(pid, line)]}'
    wanted_order = [fid for _, _, fid in calls if fid in foot_pages]
    if order != wanted_order and not lossy:
        return f'footnote bodies out of call order: {order[:12]} instead of {wanted_order[:12]}'
    return None


def progress_violation(doc, impl_out):
    """C03 on the extended grammar: every non-blank page shows something new (a line, a box or a footnote body);
    a blank page is followed by a non-blank one unless it carries postponed footnotes; bounded page count."""
    if impl_out.startswith('err:'):
        return f'pagination raised {impl_out}'
    pages, _left = parse(impl_out)
    n_lines = len(pm_corr.expected_lines(doc['root'], []))
    n_foot = pm_foot.n_footnotes(doc)

    def count_boxes(b):
        return 1 + sum(count_boxes(k) for k in b['kids'])
    bound = 2 * (n_lines + count_boxes(doc['root'])) + 8 + 2 * n_foot
    if len(pages) > bound:
        return f'{len(pages)} pages for {n_lines} lines and {n_foot} footnotes'
    seen = set()
    previous_empty_blank = False
    for page in pages:
        blank = page[3] == 'true'
        lines = page_lines(page)
        ids = pm_corr.box_ids(page[8], set())
        foots = {('foot', f) for f in page_foots(page)}
        new = (set(lines) | ids | foots) - seen
        if not blank and not new:
            return f'page {page[1]} shows nothing new'
        if blank and not foots and previous_empty_blank:
            return f'two consecutive empty blank pages at {page[1]}'
        if blank and foots and not (foots - seen):
            return f'blank page {page[1]} repeats footnotes'
        seen |= set(lines) | ids | foots
        previous_empty_blank = blank and not foots
    return None


def overlap_violation(doc, impl_out):
    """Geometry: no line of the page (other than the first line placed on it) ends below the top of the margin
    box of the page's footnote area, i.e. body text and footnote area do not overlap.  Documents with fixed /
    maximal heights (content overflows its box by design) are not judged."""
    if impl_out.startswith('err:'):
        return None
    if any(b['st']['height'] != 'auto' or b['st']['maxH'] != 'inf' for b in pm_foot.all_boxes(doc['root'])):
        return None
    if any(b['st']['clone'] and b['st']['pb'] + b['st']['bb'] + b['st']['mb'] < 0
           for b in pm_foot.all_boxes(doc['root'])):
        return None     # known finding clone-negative-margin-bottom (C03)
    from fractions import Fraction
    pages, _ = parse(impl_out)
    heights = {}

    def walk(box):
        if box['kind'] == 'para':
            heights[box['id']] = box['lineH']
        for k in box['kids']:
            walk(k)
    walk(doc['root'])

    def lines_y(frag, out):
        if frag[0] == 'p':
            for i, y in frag[-1]:
                out.append((int(frag[1]), int(i), Fraction(y)))
        else:
            for kid in frag[-1]:
                lines_y(kid, out)
        return out
    for page in pages:
        area = page[9]
        if len(area) < 7 or not area[6]:
            continue
        top = Fraction(area[1])
        placed = lines_y(page[8], [])
        for pid, i, y in placed[1:]:
            if y + heights[pid] > top:
                return f'page {page[1]}: line {(pid, i)} ends at {y + heights[pid]} below the footnote top {top}'
    return None


# ---------------------------------------------------------------------------------------------
# replays of the findings of the footnote grammar (corpus/C01/footnote_*.json), on the real layout

def corpus_doc(name):
    import json
    from vlib.paths import CORPUS
    return doc_from_json(json.loads((CORPUS / 'C01' / f'{name}.json').read_text())['doc'])


def replay_policy_block_crash():
    """footnote-policy: block on the first paragraph of a page: AssertionError in make_page (still failing?)."""
    return real_line(corpus_doc('footnote_policy_block_crash')) == 'err:pagination'


def replay_named_page_lost():
    """Footnotes of two page names in one footnote area: the second is never rendered."""
    doc = corpus_doc('footnote_named_page_lost')
    return bool(conservation_violation(doc, real_line(doc)))


def replay_named_page_overlap():
    """page_bottom drifts up when a fragmented footnote area with bottom decoration is updated: a line overlaps it."""
    doc = corpus_doc('footnote_named_page_overlap')
    return bool(overlap_violation(doc, real_line(doc)))


def replay_page_groups_none():
    """Extra footnote page after a forgotten (fixed-height) rest with a pending named forced break: AttributeError."""
    return real_line(corpus_doc('footnote_page_groups_none')).startswith('err:AttributeError@page.py:_update_page_groups')


FINDING_REPLAYS = {
    'footnote-policy-block-crash': replay_policy_block_crash,              # C02 (also C03 first_content_accepted)
    'footnote-named-page-lost': replay_named_page_lost,                    # C01
    'footnote-named-page-area-overlap': replay_named_page_overlap,         # C03
    'footnote-page-groups-attributeerror': replay_page_groups_none,        # C02 (variant of page-groups-indexerror)
}

KNOWN_SIGNATURES = {
    # judge text prefix -> finding id (to classify a clause violation met by add_cases' documents)
    'pagination raised err:pagination': 'footnote-policy-block-crash',
    'is never rendered': 'footnote-named-page-lost',
}


def classify(doc, impl_out):
    """Finding id explaining a clause violation of `impl_out` on `doc`, or None (a new violation)."""
    names = {b['st']['page'] for b in pm_foot.all_boxes(doc['root'])}
    has_block = any(c['policy'] == 'block' for b in pm_foot.all_boxes(doc['root']) for c in b.get('calls', []))
    if impl_out == 'err:pagination' and has_block:
        return 'footnote-policy-block-crash'
    if impl_out.startswith('err:AttributeError@page.py:_update_page_groups'):
        return 'footnote-page-groups-attributeerror'
    what = conservation_violation(doc, impl_out)
    if what and 'never rendered' in what and len(names - {''}) >= 1 and len(names) >= 2:
        return 'footnote-named-page-lost'
    if overlap_violation(doc, impl_out) and len(names) >= 2:
        return 'footnote-named-page-area-overlap'
    return None
