"""Drive the real `weasyprint.pdf.stream.Stream` (real pydyf) with scripts of API calls; canonicalise like the driver.

A script is a list of world calls (tuples):
  ('on', h, name, *args)  a call on stream h      ('group', h) ('pattern', h) ('shading', h)
  ('image', h, id, interpolate, ratio) ('alphastate', h) ('clone', h)
Numbers are Python ints or floats whose value is a dyadic rational (wire: `i5`, `f3/4`).
"""
from fractions import Fraction
import types

from vlib import sx

PAGE_RECT = (0, 0, 100, 100)


def num(x):
    """Wire atom of a Python number (`None` — a CSS `none` component kept by tinycss2 — is the atom `none`)."""
    if x is None:
        return 'none'
    if isinstance(x, bool):
        raise TypeError(x)
    if isinstance(x, int):
        return f'i{x}'
    fr = Fraction(x)
    return f'f{fr.numerator}' if fr.denominator == 1 else f'f{fr.numerator}/{fr.denominator}'


def opt(x, conv=lambda v: v):
    return 'none' if x is None else conv(x)


RGB_TARGET = {'srgb': 'srgb', 'hsl': 'srgb', 'hwb': 'srgb',
              'xyz-d65': 'lab', 'oklab': 'lab', 'oklch': 'lab', 'xyz-d50': 'lab', 'lab': 'lab', 'lch': 'lab'}


def make_colour(space, coords, alpha):
    from tinycss2.color4 import Color
    return Color(space, coords, alpha)


def colour_wire(color):
    """space c1 c2 c3 alpha k1 k2 k3: the converted coordinates are tinycss2's (an input of the model)."""
    target = RGB_TARGET.get(color.space)
    conv = color.to(target).coordinates if target else color.coordinates
    return [color.space, *map(num, color.coordinates), num(color.alpha), *map(num, conv)]


def wire_call(call):
    """World call -> S-expression (nested lists of atoms)."""
    kind = call[0]
    if kind != 'on':
        if kind == 'image':
            _, h, image_id, interpolate, ratio = call
            return ['image', h, image_id, interpolate, num(ratio)]
        return [kind, call[1]]
    _, h, name, *args = call
    if name in ('push', 'pop', 'bt', 'et', 'em'):
        return ['on', h, name]
    if name == 'tr':
        return ['on', h, 'tr', *map(num, args)]
    if name == 'color':
        color, stroke = args
        return ['on', h, 'color', *colour_wire(color), stroke]
    if name == 'font':
        return ['on', h, 'font', args[0], num(args[1])]
    if name == 'alpha':
        alpha, stroke, fill = args
        return ['on', h, 'alpha', num(alpha), stroke, opt(fill)]
    if name == 'state':
        ca, ca_stroke, kind_ = args
        return ['on', h, 'state', opt(ca, num), opt(ca_stroke, num), kind_]
    if name == 'blend':
        return ['on', h, 'blend', args[0]]
    if name == 'bm':
        element_tag, mcid, tag = args
        return ['on', h, 'bm', element_tag, mcid, opt(tag)]
    if name == 'dox':
        return ['on', h, 'dox', args[0]]
    if name == 'doi':
        return ['on', h, 'doi', args[0], args[1]]
    if name == 'sh':
        return ['on', h, 'sh', args[0]]
    if name == 'cs':
        return ['on', h, 'cs', args[0], args[1]]
    if name == 'scn':
        pattern, stroke, operands = args
        return ['on', h, 'scn', opt(pattern), stroke, [num(o) for o in operands]]
    if name == 'raw':
        method, operands, flag, text = args
        return ['on', h, 'raw', method, [num(o) for o in operands], flag, text]
    raise ValueError(call)


def script_line(mark, pages, script):
    return sx.line('script', mark, pages, *[wire_call(c) for c in script])


class RealWorld:
    """The objects `generate_pdf` creates before painting, and everything the script creates."""

    def __init__(self, mark, pages):
        import pydyf
        from weasyprint.pdf.stream import Stream
        self.pydyf = pydyf
        color_space = pydyf.Dictionary({'lab-d50': pydyf.Array(), 'lab-d65': pydyf.Array()})
        self.resources = pydyf.Dictionary({
            'ExtGState': pydyf.Dictionary(), 'XObject': pydyf.Dictionary(), 'Pattern': pydyf.Dictionary(),
            'Shading': pydyf.Dictionary(), 'ColorSpace': color_space})
        self.images, self.fonts = {}, {}
        self.res_list = [self.resources]
        self.streams = [
            Stream(self.fonts, PAGE_RECT, self.resources, self.images, mark, compress=False)
            for _ in range(pages)]
        self.events = []   # peephole / cache-hit observations, for the evidence histogram

    def _new_stream(self, stream, new_resources=True):
        self.streams.append(stream)
        if new_resources:
            self.res_list.append(stream._resources)

    def box(self, element_tag):
        from weasyprint.formatting_structure import boxes
        return boxes.BlockBox(element_tag, {}, None, [])

    def apply(self, call):
        pydyf = self.pydyf
        kind = call[0]
        if kind == 'group':
            self._new_stream(self.streams[call[1]].add_group(*PAGE_RECT))
        elif kind == 'pattern':
            from weasyprint.matrix import Matrix
            self._new_stream(self.streams[call[1]].add_pattern(0, 0, 10, 10, 10, 10, Matrix()))
        elif kind == 'shading':
            self.streams[call[1]].add_shading(2, 'RGB', (0, 1), (0, 0, 1, 1), True, pydyf.Dictionary())
        elif kind == 'image':
            _, h, image_id, interpolate, ratio = call
            self.streams[h].add_image(types.SimpleNamespace(id=image_id), interpolate, ratio)
        elif kind == 'alphastate':
            self._new_stream(self.streams[call[1]].set_alpha_state(*PAGE_RECT))
        elif kind == 'clone':
            self._new_stream(self.streams[call[1]].clone(), new_resources=False)
        else:
            _, h, name, *args = call
            stream = self.streams[h]
            before = len(stream.stream)
            self._on(stream, name, args)
            after = len(stream.stream)
            if name == 'pop' and after < before:
                self.events.append('pop-drops-q')
            elif name == 'bt' and after < before:
                self.events.append('bt-merges')
            elif name in ('color', 'alpha', 'font') and after == before:
                self.events.append(f'{name}-cache-hit')

    def _on(self, stream, name, args):
        pydyf = self.pydyf
        if name == 'push':
            stream.push_state()
        elif name == 'pop':
            stream.pop_state()
        elif name == 'tr':
            stream.transform(*args)
        elif name == 'bt':
            stream.begin_text()
        elif name == 'et':
            stream.end_text()
        elif name == 'color':
            stream.set_color(args[0], args[1])
        elif name == 'font':
            stream.set_font_size(args[0], args[1])
        elif name == 'alpha':
            stream.set_alpha(args[0], args[1], args[2])
        elif name == 'state':
            ca, ca_stroke, kind = args
            state = pydyf.Dictionary({'Type': '/ExtGState', 'X': kind})
            if ca is not None:
                state['ca'] = ca
            if ca_stroke is not None:
                state['CA'] = ca_stroke
            stream.set_state(state)
        elif name == 'blend':
            stream.set_blend_mode(args[0])
        elif name == 'bm':
            element_tag, mcid, tag = args
            stream.begin_marked_content(self.box(element_tag), mcid=mcid, tag=tag)
        elif name == 'em':
            stream.end_marked_content()
        elif name == 'dox':
            stream.draw_x_object(f'x{args[0]}')
        elif name == 'doi':
            stream.draw_x_object(f'i{args[0]}{int(args[1])}')
        elif name == 'sh':
            stream.paint_shading(f's{args[0]}')
        elif name == 'cs':
            stream.set_color_space(args[0], args[1])
        elif name == 'scn':
            pattern, stroke, operands = args
            stream.set_color_special(None if pattern is None else f'p{pattern}', stroke, *operands)
        elif name == 'raw':
            method, operands, flag, text = args
            fn = getattr(stream, method)
            if method in ('clip', 'fill', 'fill_and_stroke'):
                fn(flag)
            elif method == 'show_text':
                fn(text)
            else:
                fn(*operands)
        else:
            raise ValueError(name)

    # canonical form ------------------------------------------------------------------------------------------
    @staticmethod
    def token(item):
        if isinstance(item, bytes):
            text = item.decode('latin-1')
        elif isinstance(item, str):
            text = item
        else:
            text = item.data.decode('latin-1')
        return text.replace(' ', '_')

    def show(self):
        def rat(v):
            return sx.atom(Fraction(v))
        parts = []
        for stream in self.streams:
            res = next(i for i, r in enumerate(self.res_list) if r is stream._resources)
            ctm = ';'.join(','.join(rat(v) for v in m.values) for m in stream._ctm_stack)
            marked = ','.join(tag for tag, _ in stream.marked)
            toks = ''.join(' ' + self.token(item) for item in stream.stream)
            parts.append(f'S res={res} id={getattr(stream, "id", None) or "-"} marked={marked} ctm={ctm} :{toks}')
        res_parts = []
        for res in self.res_list:
            def handle(value):
                for i, s in enumerate(self.streams):
                    if s is value:
                        return str(i)
                return '-'
            xobj = ','.join(f'{k}:{handle(v)}' for k, v in res['XObject'].items())
            pattern = ','.join(handle(v) for v in res['Pattern'].values())
            # the model keeps patterns / shadings as `p0 p1 …` / a count: any other key set is printed as it is
            if list(res['Pattern']) != [f'p{i}' for i in range(len(res['Pattern']))]:
                pattern = 'keys:' + ','.join(res['Pattern'])
            shading = str(len(res['Shading']))
            if list(res['Shading']) != [f's{i}' for i in range(len(res['Shading']))]:
                shading = 'keys:' + ','.join(res['Shading'])
            res_parts.append(f'R E={",".join(res["ExtGState"])} X={xobj} P={pattern} Sh={shading}')
        images = ' '.join(
            f'{name}=' + ','.join(rat(r) for r in _ordered(data['dpi_ratios'], self.image_order.get(name, [])))
            for name, data in self.images.items())
        return 'ok | ' + ' | '.join(parts) + ' || ' + ' | '.join(res_parts) + ' || I ' + images

    image_order = {}

    def run(self, script):
        """Apply the script; a Python exception is the outcome (`err:<Class>`)."""
        self.image_order = {}
        for call in script:
            try:
                self.apply(call)
            except Exception as exc:  # noqa: BLE001
                return f'err:{type(exc).__name__}'
            if call[0] == 'image':
                name = f'i{call[2]}{int(call[3])}'
                order = self.image_order.setdefault(name, [])
                if Fraction(call[4]) not in order:
                    order.append(Fraction(call[4]))
        return self.show()


def _ordered(ratios, order):
    """`dpi_ratios` is a set: listed in first-insertion order (what the model keeps)."""
    assert {Fraction(r) for r in ratios} == set(order)
    return order


# ---------------------------------------------------------------------------------------------------------------
# Generators
# ---------------------------------------------------------------------------------------------------------------

HALVES = [0, 1, -1, 2, 0.5, 3, -0.5, 1.5]
COORDS = [0, 1, 2, 5, 10, 12.5, 0.25, 100, -3, 7.75, 0.015625, 50.5]
ALPHAS = [1.0, 0.5, 0.25, 0.75, 0.0, 0.125]
SPACES_COMMON = ['srgb', 'srgb', 'srgb', 'hsl', 'hwb', 'lab', 'lch', 'oklab', 'oklch', 'xyz-d50', 'xyz-d65',
                 'display-p3', 'srgb-linear', 'a98-rgb', 'prophoto-rgb', 'rec2020']
FONTS = ['fAbC', 'f1', 'ZaDb']
TAGS = ['div', 'span', 'p', 'h1', 'h3', 'ul', 'li', 'table', 'tr', 'td', 'thead', 'tfoot', 'a', 'img', 'section',
        'article', 'blockquote', 'dl', 'dt', 'em', 'x-foo']


def palette(rng, n=5):
    out = []
    for _ in range(n):
        space = rng.choice(SPACES_COMMON)
        if space in ('srgb', 'display-p3', 'srgb-linear', 'a98-rgb', 'prophoto-rgb', 'rec2020'):
            coords = [rng.choice([0, 1, 0.5, 0.25, 0.75, 0.125]) for _ in range(3)]
        elif space in ('hsl', 'hwb'):
            coords = [rng.choice([0, 90, 180, 30, 270]), rng.choice([0, 50, 100, 25]), rng.choice([0, 50, 100, 75])]
        else:
            coords = [rng.choice([0, 50, 100, 0.5, 25]), rng.choice([0, 0.25, -20, 40, 0.125]),
                      rng.choice([0, 30, -0.25, 90, 180])]
        if rng.random() < 0.3:      # CSS Color 4 `none` component: tinycss2 keeps it as None
            coords[rng.randrange(3)] = None
        out.append((space, coords))
    return out


class ScriptGen:
    """Random API-level well-bracketed scripts over several streams (plus an adversarial mode)."""

    def __init__(self, rng, mark, pages, max_calls=200, adversarial=False):
        self.rng, self.mark, self.pages = rng, mark, pages
        self.max_calls, self.adversarial = max_calls, adversarial
        self.script = []
        self.stacks = [[] for _ in range(pages)]        # API bracket stack per stream: 'q' 'T' 'M'
        self.res_of = [0] * pages
        self.xkeys = {0: []}                             # res index -> registered XObject keys ('x', n) / ('i', id, b)
        self.patterns = {0: 0}
        self.shadings = {0: 0}
        self.extg = {0: 0}
        self.n_res = 1
        self.transforms = 0
        self.palette = palette(rng)
        self.alphas = [rng.choice(ALPHAS) for _ in range(3)]

    def colour(self):
        space, coords = self.rng.choice(self.palette)
        return make_colour(space, coords, self.rng.choice(self.alphas))

    def in_text(self, h):
        return 'T' in self.stacks[h]

    def emit(self, *call):
        self.script.append(tuple(call))

    def new_stream(self, parent, new_res=True):
        self.stacks.append([])
        if new_res:
            self.res_of.append(self.n_res)
            self.xkeys[self.n_res] = []
            self.patterns[self.n_res] = self.shadings[self.n_res] = self.extg[self.n_res] = 0
            self.n_res += 1
        else:
            self.res_of.append(self.res_of[parent])
        return len(self.stacks) - 1

    def xlen(self, res):
        return len(self.xkeys[res])

    def text_run(self, h):
        """What draw_text does: set_color, begin_text, [Tm, Tf, TJ …], end_text."""
        rng = self.rng
        self.emit('on', h, 'color', self.colour(), False)
        self.emit('on', h, 'bt')
        if rng.random() < 0.8:
            self.emit('on', h, 'raw', 'set_text_matrix', [1, 0, 0, -1, rng.choice(COORDS), rng.choice(COORDS)], False, 'x')
            self.emit('on', h, 'font', rng.choice(FONTS), rng.choice([12, 16.0, 7.5]))
            self.emit('on', h, 'raw', 'show_text', [], False, rng.choice(['<0041>', '<00410042>-12.5<0043>']))
            if rng.random() < 0.2:
                self.emit('on', h, 'raw', 'set_text_rise', [rng.choice([0, 2, -1.5])], False, 'x')
        self.emit('on', h, 'et')

    def step(self):
        rng = self.rng
        live = len(self.stacks)
        h = rng.choice([live - 1, live - 1, rng.randrange(live)])
        stack = self.stacks[h]
        res = self.res_of[h]
        roll = rng.random()
        if self.in_text(h):
            choices = ['et', 'color', 'font', 'alpha', 'text', 'text', 'bm', 'em', 'state', 'gparam']
        else:
            choices = ['push', 'push', 'pop', 'pop', 'pushpop', 'bt', 'textrun', 'textrun', 'color', 'color', 'font',
                       'alpha', 'state', 'blend', 'bm', 'em', 'tr', 'path', 'paint', 'gparam', 'group', 'pattern',
                       'shading', 'image', 'alphastate', 'clone', 'dox', 'sh', 'cs', 'scn']
        act = rng.choice(choices)
        if act == 'push':
            stack.append('q'); self.emit('on', h, 'push')
        elif act == 'pop':
            if stack and stack[-1] == 'q':
                stack.pop(); self.emit('on', h, 'pop')
        elif act == 'pushpop':
            self.emit('on', h, 'push'); self.emit('on', h, 'pop')
        elif act == 'bt':
            stack.append('T'); self.emit('on', h, 'bt')
        elif act == 'et':
            if stack[-1] == 'T':
                stack.pop(); self.emit('on', h, 'et')
        elif act == 'textrun':
            self.text_run(h)
        elif act == 'color':
            self.emit('on', h, 'color', self.colour(), rng.random() < 0.3)
        elif act == 'font':
            self.emit('on', h, 'font', rng.choice(FONTS), rng.choice([12, 12.0, 16.0, 7.5]))
        elif act == 'alpha':
            stroke = rng.random() < 0.4
            self.emit('on', h, 'alpha', rng.choice(self.alphas + [1, 0]), stroke, rng.choice([None, None, True, False]))
        elif act == 'state':
            self.emit('on', h, 'state', rng.choice([None, None, 1, 0.5]), rng.choice([None, None, 0.25]), 'other')
            self.extg[res] += 1
        elif act == 'blend':
            self.emit('on', h, 'blend', rng.choice(['Multiply', 'Screen']))
        elif act == 'bm':
            stack.append('M')
            self.emit('on', h, 'bm', rng.choice(TAGS), rng.random() < 0.8, rng.choice([None, None, None, 'Link']))
        elif act == 'em':
            if stack and stack[-1] == 'M':
                stack.pop(); self.emit('on', h, 'em')
        elif act == 'tr':
            if self.transforms < 10:
                self.transforms += 1
                self.emit('on', h, 'tr', *[rng.choice(HALVES) for _ in range(4)], rng.choice(COORDS), rng.choice(COORDS))
        elif act == 'path':
            method = rng.choice(['rectangle', 'move_to', 'line_to', 'close', 'clip'])
            n = {'rectangle': 4, 'move_to': 2, 'line_to': 2}.get(method, 0)
            self.emit('on', h, 'raw', method, [rng.choice(COORDS) for _ in range(n)], rng.random() < 0.3, 'x')
        elif act == 'paint':
            self.emit('on', h, 'raw', rng.choice(['fill', 'stroke', 'end', 'fill_and_stroke']), [], rng.random() < 0.3, 'x')
        elif act == 'gparam':
            method = rng.choice(['set_line_width', 'set_line_cap', 'set_line_join', 'set_miter_limit'])
            self.emit('on', h, 'raw', method, [rng.choice([0, 1, 2, 0.5, 10])], False, 'x')
        elif act == 'text':
            method = rng.choice(['set_text_matrix', 'show_text', 'move_text_to', 'set_text_rise'])
            n = {'set_text_matrix': 6, 'move_text_to': 2, 'set_text_rise': 1}.get(method, 0)
            self.emit('on', h, 'raw', method, [rng.choice(COORDS) for _ in range(n)], False, '<00410042>')
        elif act == 'group':
            self.emit('group', h)
            self.xkeys[res].append(('x', self.xlen(res)))
            self.new_stream(h)
        elif act == 'pattern':
            self.emit('pattern', h)
            self.patterns[res] += 1
            self.new_stream(h)
        elif act == 'shading':
            self.emit('shading', h)
            self.shadings[res] += 1
        elif act == 'image':
            image_id = rng.choice(['7', 'ab12', '0'])
            interpolate = rng.random() < 0.5
            self.emit('image', h, image_id, interpolate, rng.choice([1, 2, 0.5, 1.5]))
            key = ('i', image_id, interpolate)
            if key not in self.xkeys[res]:
                self.xkeys[res].append(key)
        elif act == 'alphastate':
            self.emit('alphastate', h)
            self.xkeys[res].append(('x', self.xlen(res)))
            self.extg[res] += 1
            self.new_stream(h)
        elif act == 'clone':
            if live < 12:
                self.emit('clone', h)
                self.new_stream(h, new_res=False)
        elif act == 'dox':
            keys = self.xkeys[res]
            if keys:
                key = rng.choice(keys)
                if key[0] == 'x':
                    self.emit('on', h, 'dox', key[1])
                else:
                    self.emit('on', h, 'doi', key[1], key[2])
        elif act == 'sh':
            if self.shadings[res]:
                self.emit('on', h, 'sh', rng.randrange(self.shadings[res]))
        elif act == 'cs':
            self.emit('on', h, 'cs', rng.choice(['Pattern', 'lab-d50', 'lab-d65']), rng.random() < 0.3)
        elif act == 'scn':
            if self.patterns[res] and rng.random() < 0.6:
                self.emit('on', h, 'scn', rng.randrange(self.patterns[res]), rng.random() < 0.3, [])
            else:
                self.emit('on', h, 'scn', None, rng.random() < 0.3, [rng.choice(COORDS) for _ in range(3)])
        del roll

    def close_all(self):
        for h, stack in enumerate(self.stacks):
            while stack:
                top = stack.pop()
                self.emit('on', h, {'q': 'pop', 'T': 'et', 'M': 'em'}[top])

    def generate(self):
        target = self.rng.choice([10, 30, 60, 120, self.max_calls])
        while len(self.script) < target - sum(len(s) for s in self.stacks):
            self.step()
        self.close_all()
        if self.adversarial:
            self.break_it()
        return self.script

    def break_it(self):
        """Ill-bracketed and extreme variants: the model must still predict the real outcome exactly."""
        rng = self.rng
        script = self.script
        kind = rng.choice(['extra-pop', 'drop', 'dup', 'swap', 'huge', 'early-et'])
        if kind == 'extra-pop':
            pos = rng.randrange(len(script) + 1)
            script[pos:pos] = [('on', rng.randrange(self.pages), 'pop')] * rng.choice([1, 2, 3])
        elif kind == 'drop' and script:
            del script[rng.randrange(len(script))]
        elif kind == 'dup' and script:
            pos = rng.randrange(len(script))
            if script[pos][0] == 'on':
                script.insert(pos, script[pos])
        elif kind == 'swap' and len(script) > 1:
            i, j = rng.randrange(len(script)), rng.randrange(len(script))
            script[i], script[j] = script[j], script[i]
        elif kind == 'huge':
            big = rng.choice([2 ** 40, -2 ** 33, 2.0 ** 60, -2.0 ** -30, 2.0 ** -25, 10 ** 18, 0.0, -0.0])
            pos = rng.randrange(len(script) + 1)
            script[pos:pos] = [
                ('on', 0, 'raw', 'rectangle', [big, 0, -big, 1], False, 'x'),
                ('on', 0, 'raw', 'set_line_width', [big], False, 'x'),
                ('on', 0, 'alpha', rng.choice([2, -1, 2 ** 40, 3.5, -0.5, 1024.0]), True, True)]
        elif kind == 'early-et':
            pos = rng.randrange(len(script) + 1)
            script.insert(pos, ('on', rng.randrange(self.pages), rng.choice(['et', 'em', 'bt'])))
        # creation calls reference handles: a dropped / swapped creation may make a later handle invalid
        self.script = _valid_prefix(script, self.pages)


def _valid_prefix(script, pages):
    """Cut the script before the first call that refers to a stream that does not exist (yet)."""
    live = pages
    out = []
    for call in script:
        h = call[1]
        if h >= live:
            break
        out.append(call)
        if call[0] in ('group', 'pattern', 'alphastate', 'clone'):
            live += 1
    return out


def jsonable(script):
    out = []
    for call in script:
        row = []
        for a in call:
            if hasattr(a, 'space'):
                row.append({'space': a.space, 'coords': list(a.coordinates), 'alpha': a.alpha})
            else:
                row.append(a)
        out.append(row)
    return out


def from_json(rows):
    out = []
    for row in rows:
        call = []
        for a in row:
            if isinstance(a, dict) and 'space' in a:
                call.append(make_colour(a['space'], a['coords'], a['alpha']))
            else:
                call.append(a)
        out.append(tuple(call))
    return out
