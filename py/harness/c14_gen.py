"""Generators and wire helpers for C14 (paged-media furniture). Every random choice comes from the
`rng` passed in (the run's seeded PRNG)."""
from fractions import Fraction as F
import math

from vlib import sx

AUTO = 'auto'


def s(text):
    """A string atom: `s:<text>` with spaces written `_` (alphabet of generated strings: [A-Za-z0-9-@ ])."""
    assert '_' not in text and '(' not in text and ')' not in text, text
    return 's:' + text.replace(' ', '_')


def uns(atom):
    assert atom.startswith('s:'), atom
    return atom[2:].replace('_', ' ')


# ---- lengths -------------------------------------------------------------------------------------

def length(rng, auto=0.0, neg=0.05, big=0.02, zero=0.1, top=200):
    """A mostly-valid used length: small non-negative rationals, sometimes 0 / negative / huge / 'auto'."""
    r = rng.random()
    if r < auto:
        return AUTO
    r = rng.random()
    if r < zero:
        return F(0)
    if r < zero + big:
        return F(rng.choice([10 ** 6, 10 ** 9, 123456789])) + F(rng.randrange(4), 4)
    den = rng.choice([1, 1, 1, 2, 4, 3, 8, 7])
    v = F(rng.randrange(0, top * den + 1), den)
    if rng.random() < neg:
        v = -v
    return v


def dyadic(rng, top=200, auto=0.0, quarter=True):
    if rng.random() < auto:
        return AUTO
    den = rng.choice([1, 1, 2, 4]) if quarter else 1
    return F(rng.randrange(0, top * den + 1), den)


def pattern_lengths(rng, pattern, **kw):
    """Three values with a given auto pattern (bitmask: 1 = inner, 2 = margin_a, 4 = margin_b)."""
    return [AUTO if pattern & bit else length(rng, **kw) for bit in (1, 2, 4)]


# ---- page selectors ---------------------------------------------------------------------------------

NAMES = ['chap', 'toc', 'a', 'B', 'chap', 'toc', 'left', 'of']
PSEUDO = ['left', 'right', 'first', 'blank', 'LEFT', 'Right', 'FIRST', 'Blank', 'foo', 'nth']
NTH_ARGS = ['2n+1', 'odd', 'even', '3', 'n', '-n+3', '2n', '0', '3n-2', '-2n-1', '+5', 'n+0', 'N', '2N+1',
            '2n + 1', ' 2n+1 ', '4n+1', 'foo', '', '2n+', '1 2', '0n+2', '-0n+0', '+', '-', 'n-', '+n', '+ 1', '+/**/', '-n+ ']
OF_PARTS = [' of chap', ' of a', 'of a', ' of  a ', ' of a b', ' of', ' of 3', ' of /*c*/ a', ' OF a', ' of "a"', '/**/of a']
LITS = ['+', '>', '.', ';', '*', '~', '|', '=', '!', '/', '%', '&']


def nth_function(rng, valid=0.8):
    ok = rng.random() < valid
    name = 'nth' if ok else rng.choice(['nth'] * 4 + ['NTH', 'nth-child', 'not'])
    arg = rng.choice(NTH_ARGS[:14]) if ok else rng.choice(NTH_ARGS)
    if rng.random() < 0.4:
        arg += rng.choice(OF_PARTS[:4]) if ok else rng.choice(OF_PARTS)
    return f':{name}({arg})'


def simple_selector(rng, valid=0.8):
    parts = []
    if rng.random() < 0.5:
        parts.append(rng.choice(NAMES))
    for _ in range(rng.choice([0, 1, 1, 2, 3])):
        r = rng.random()
        if r < 0.6:
            pc = rng.choice(PSEUDO[:4]) if rng.random() < valid else rng.choice(PSEUDO)
            parts.append(':' + pc)
        elif r < 0.9:
            parts.append(nth_function(rng, valid))
        else:
            parts.append(rng.choice([' ', '/*x*/', ' ']))
    if rng.random() > valid:
        junk = rng.choice(LITS + [':', ',', ' x', '#h', '"s"', '12', '[a]', ':', '::'])
        parts.insert(rng.randrange(len(parts) + 1), junk)
    return ''.join(parts)


def prelude(rng, valid=0.8):
    n = rng.choice([1, 1, 1, 2, 2, 3])
    sep = [',', ', ', ' , ']
    text = simple_selector(rng, valid)
    for _ in range(n - 1):
        text += rng.choice(sep) + simple_selector(rng, valid)
    if rng.random() > valid:
        text += rng.choice([',', ' ,', ':', ' '])
    return rng.choice(['', ' ']) + text


def arg_tok(tok):
    if tok.type == 'ident':
        return ['id', s(tok.value)] if safe(tok.value) else 'ot'
    if tok.type == 'whitespace':
        return 'ws'
    if tok.type == 'comment':
        return 'cm'
    return 'ot'


def safe(text):
    return bool(text) and all(c.isalnum() or c == '-' for c in text) and text.isascii()


def wire_tokens(prelude_tokens):
    """tinycss2 prelude tokens -> wire tokens (attribute reading only; `parse_nth` enters as a table)."""
    import tinycss2.nth
    out = []
    for tok in prelude_tokens:
        if tok.type == 'ident':
            if not safe(tok.value):
                return None
            out.append(['id', s(tok.value), s(tok.lower_value)])
        elif tok.type == 'literal':
            out.append(['lit', s(tok.value if tok.value in (':', ',') else '+')])
        elif tok.type == 'function':
            if not safe(tok.name):
                return None
            args = [arg_tok(a) for a in tok.arguments]
            table = []
            for k in range(len(tok.arguments) + 1):
                try:
                    r = tinycss2.nth.parse_nth(tok.arguments[:k])
                except Exception as exc:  # tinycss2 1.5: AttributeError on a trailing sign (`2n+`)
                    table.append(['err', s(type(exc).__name__)])
                    continue
                table.append('none' if r is None else [r[0], r[1]])
            out.append(['fn', s(tok.name), args, table])
        elif tok.type == 'whitespace':
            out.append('ws')
        elif tok.type == 'comment':
            out.append('cm')
        else:
            out.append('ot')
    return out


def show_sel(data):
    """One dict of `parse_page_selectors` -> the driver's rendering of a `Sel`."""
    def opt(v):
        return 'none' if v is None else s(v)
    ix = 'none'
    if data['index'] is not None:
        a, b, g = data['index']
        ix = f'({a} {b} {opt(g)})'
    sp = data['specificity']
    return (f"({opt(data['side'])} {'true' if data['blank'] else 'false'} {'true' if data['first'] else 'false'} "
            f"{ix} {opt(data['name'])} ({sp[0]} {sp[1]} {sp[2]}))")


def sel_wire(side, blank, first, index, name, spec=(0, 0, 0)):
    def opt(v):
        return 'none' if v is None else s(v)
    ix = 'none' if index is None else [index[0], index[1], opt(index[2])]
    return [opt(side), bool(blank), bool(first), ix, opt(name), list(spec)]


def random_sel(rng):
    names = ['', 'a', 'b', 'chap']
    index = None
    if rng.random() < 0.5:
        a = rng.choice([0, 0, 1, 2, 3, -1, -2, 5, 7, -3])
        b = rng.choice([0, 1, 2, 3, -1, -4, 6, 10])
        index = (a, b, rng.choice([None, None, 'a', 'b', 'chap']))
    return dict(
        side=rng.choice([None, None, 'left', 'right']), blank=rng.choice([None, None, True]),
        first=rng.choice([None, None, True]), index=index, name=rng.choice([None, None, 'a', 'b', 'chap', '']))


def random_page_type(rng):
    names = ['', 'a', 'b', 'chap']
    groups = tuple((rng.choice(names[1:]), rng.randrange(0, 8)) for _ in range(rng.choice([0, 0, 1, 2, 3])))
    return dict(side=rng.choice(['left', 'right']), blank=rng.random() < 0.2, name=rng.choice(names),
                index=rng.choice([0, 0, 1, 2, 3, 4, 5, 6, 7, 10, 11, 39]), groups=groups)


def page_type_wire(pt):
    return [s(pt['side']), pt['blank'], s(pt['name']), pt['index'], [[s(n), i] for n, i in pt['groups']]]


# ---- counters -----------------------------------------------------------------------------------------

CNAMES = ['page', 'pages', 'c', 'sec', 'list-item']


def counter_list(rng, auto=0.0, names=CNAMES):
    if rng.random() < auto:
        return AUTO
    n = rng.choice([0, 0, 1, 1, 2, 3])
    return tuple((rng.choice(names), rng.choice([0, 1, 1, 2, 5, -1, -3, 10, 100])) for _ in range(n))


def pairs_wire(lst):
    if lst == AUTO:
        return AUTO
    return [[s(n), v] for n, v in lst]


def show_pairs(lst):
    return '(' + ' '.join(f'({s(n)} {v})' for n, v in lst) + ')'


def show_state(values, scope):
    vals = ' '.join(f"({s(n)} ({' '.join(str(v) for v in st)}))" for n, st in values.items())
    return f"({vals}) ({' '.join(s(n) for n in sorted(scope))})"


# ---- float snapping -----------------------------------------------------------------------------------

class Snap:
    """Compare implementation floats with the model's exact rationals: exactly equal, or within 1e-9
    relative (counted as float rounding, rendered as the model's value), or different."""

    def __init__(self):
        self.rounded = 0
        self.exact = 0

    def num(self, value, model_atom):
        """Canonical atom for an implementation number given the model's atom at the same place."""
        if isinstance(value, float):
            if math.isinf(value) or math.isnan(value):
                return sx.atom(value)
            value = F(value)
        elif isinstance(value, int):
            value = F(value)
        try:
            m = F(model_atom)
        except (ValueError, ZeroDivisionError):
            return sx.atom(value)
        if value == m:
            self.exact += 1
            return model_atom
        if abs(value - m) <= F(1, 10 ** 9) * max(1, abs(m)):
            self.rounded += 1
            return model_atom
        return sx.atom(value)
