"""pydyf's serializer against Model/PdfFile.lean: random pydyf values (`_to_bytes` / `.data`), random object lists
through the real `pydyf.PDF.write`, and the `pydyf.PDF` of rendered documents."""
import hashlib
import io

from vlib import sx

from . import pdfstream


def hx(data):
    return 'x' + bytes(data).hex()


def rolling(data):
    """Same polynomial hash as Drive/PdfFile.lean `rolling`."""
    h = 7
    for c in data:
        h = (h * 257 + c + 1) % 1000000007
    return h


# ---- values -----------------------------------------------------------------------------------------------------

KEYS = ['Type', 'Length', 'Kids', 'Count', 'Font', 'F1', 'A', 'Resources', 'X y'.replace(' ', ''), 'BBox']
TEXTS = ['/Page', '/Catalog', 'true', '/DeviceRGB', '0', '/a#20b']
RAWS = [b'3 0 R', b'12 0 R', b'true', b'null', b'<</A 1>>', b'', b'[1 2]', b'\xf0\x9f\x96\xa4']
STRINGS = [b'', b'abc', b'a(b)c', b'back\\slash', b'(((', b'x) y (z', 'title', 'D:2020', 'a\\b(c)']
NUMBERS = [0, 1, -1, 65535, 10 ** 12, 0.5, -0.25, 3.0, 1e-7, -2.0 ** -30, 595.275591, 12.000001, 0.0000005, None]


def random_value(rng, depth):
    """(real pydyf value, wire form)."""
    import pydyf
    roll = rng.random()
    if depth <= 0 or roll < 0.45:
        kind = rng.choice(['raw', 'text', 'num', 'num', 'pstr'])
        if kind == 'raw':
            b = rng.choice(RAWS)
            return b, ['raw', hx(b)]
        if kind == 'text':
            s = rng.choice(TEXTS)
            return s, ['text', hx(s.encode('ascii'))]
        if kind == 'num':
            n = rng.choice(NUMBERS)
            return n, ['num', pdfstream.num(n)]
        s = rng.choice(STRINGS)
        return pydyf.String(s), ['pstr', hx(s if isinstance(s, bytes) else s.encode('ascii'))]
    if roll < 0.65:
        items = [random_value(rng, depth - 1) for _ in range(rng.choice([0, 1, 2, 3, 4]))]
        return pydyf.Array([v for v, _ in items]), ['arr', *[w for _, w in items]]
    if roll < 0.88:
        keys = rng.sample(KEYS, rng.choice([0, 1, 2, 3]))
        items = [(k, random_value(rng, depth - 1)) for k in keys]
        return (pydyf.Dictionary({k: v for k, (v, _) in items}),
                ['dict', *[[hx(k.encode()), w] for k, (_, w) in items]])
    items = [random_value(rng, 0) for _ in range(rng.choice([0, 1, 2, 3]))]
    keys = rng.sample(KEYS, rng.choice([0, 1, 2, 3]))
    extra = [(k, random_value(rng, depth - 1)) for k in keys]
    stream = pydyf.Stream([v for v, _ in items], {k: v for k, (v, _) in extra}, compress=False)
    return stream, ['stream', [w for _, w in items], [[hx(k.encode()), w] for k, (_, w) in extra]]


def value_kind(wire):
    return wire[0]


# ---- files ------------------------------------------------------------------------------------------------------

def written_text(data, pdf):
    """Canonical form of a real `PDF.write` result, as `writefile` prints it."""
    offsets = ','.join(str(o.offset) for o in pdf.objects)
    return (f'len={len(data)} hash={rolling(data)} xref={pdf.xref_position} offsets={offsets} '
            f'check={len(pdf.objects)}@{pdf.xref_position}')


def writefile_line(pdf, version, identifier):
    """Protocol line for the state of `pdf` *after* `PDF.write(output, version, identifier, compress)` took the
    classic branch (the info object, if any, is already in `pdf.objects`)."""
    import pydyf
    version_b = pydyf._to_bytes(version or b'1.7')
    ident = 'none'
    if identifier:
        data = b''.join(o.data for o in pdf.objects if o.free != 'f')
        digest = hashlib.md5(data).hexdigest().encode()
        first = digest if identifier is True else pydyf._to_bytes(identifier)
        ident = [hx(first), hx(digest)]
    info = [pdf.info.number, pdf.info.generation] if any(o is pdf.info for o in pdf.objects) else 'none'
    objects = [[o.generation, o.free == 'f', hx(o.data if o.free != 'f' else b'')] for o in pdf.objects]
    return sx.line('writefile', hx(version_b), [pdf.catalog.number, pdf.catalog.generation], info, ident, *objects)


def random_pdf(rng):
    """A `pydyf.PDF` with random objects (some free, some with a generation), info or not; -> (pdf, version, id)."""
    import pydyf
    pdf = pydyf.PDF()
    for _ in range(rng.choice([0, 1, 3, 6, 12])):
        value, _ = random_value(rng, 2)
        if not isinstance(value, pydyf.Object):
            value = pydyf.Dictionary({'V': value})
        if rng.random() < 0.15:
            value.free = 'f'
        if rng.random() < 0.15:
            value.generation = rng.choice([1, 2, 65535])
        pdf.add_object(value)
    if rng.random() < 0.5:
        pdf.info['Title'] = pydyf.String(rng.choice(['t', 'a(b', '']))
    version = rng.choice([None, b'1.4', '1.7', b'2.0', '1.10', b'1.5'])
    identifier = rng.choice([False, False, True, b'abc', b'i(d)', None])
    return pdf, version, identifier


def write_real(pdf, version, identifier, compress=False):
    out = io.BytesIO()
    pdf.write(out, version, identifier, compress)
    return out.getvalue()
