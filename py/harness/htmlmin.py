"""Greedy HTML minimiser: drop elements, unwrap elements, drop style declarations while `fails(html)` stays true.
Used only to shrink a failing input before it is written to a replay file (bounded by `budget_s`)."""
import time
import re
from html.parser import HTMLParser

VOID = {'img', 'input', 'br', 'meta', 'link', 'hr'}

class Node:
    def __init__(self, tag=None, attrs=None, text=None):
        self.tag, self.attrs, self.text, self.kids = tag, attrs or [], text, []
    def render(self):
        if self.tag is None:
            return self.text
        attrs = ''.join(f' {k}="{v}"' if v is not None else f' {k}' for k, v in self.attrs)
        if self.tag in VOID:
            return f'<{self.tag}{attrs}>'
        return f'<{self.tag}{attrs}>' + ''.join(k.render() for k in self.kids) + f'</{self.tag}>'

class P(HTMLParser):
    def __init__(self):
        super().__init__(convert_charrefs=False)
        self.root = Node('root'); self.stack = [self.root]
    def handle_starttag(self, tag, attrs):
        n = Node(tag, list(attrs)); self.stack[-1].kids.append(n)
        if tag not in VOID: self.stack.append(n)
    def handle_endtag(self, tag):
        for i in range(len(self.stack) - 1, 0, -1):
            if self.stack[i].tag == tag:
                del self.stack[i:]; break
    def handle_data(self, data):
        self.stack[-1].kids.append(Node(text=data))
    def handle_entityref(self, name): self.handle_data(f'&{name};')
    def handle_charref(self, name): self.handle_data(f'&#{name};')

def parse(html):
    p = P(); p.feed(html); return p.root

def render(root):
    return ''.join(k.render() for k in root.kids)

def walk(node):
    for k in list(node.kids):
        yield node, k
        yield from walk(k)

def minimise(html, fails, budget_s=20.0):
    start = time.time()
    root = parse(html)
    if not fails(render(root)):
        return html
    changed = True
    while changed and time.time() - start < budget_s:
        changed = False
        for parent, kid in list(walk(root)):
            if kid not in parent.kids or (kid.tag in ('html', 'head', 'body', 'style')):
                continue
            if time.time() - start > budget_s:
                break
            i = parent.kids.index(kid)
            # remove
            parent.kids.pop(i)
            if fails(render(root)):
                changed = True; continue
            parent.kids.insert(i, kid)
            # unwrap
            if kid.tag and kid.kids:
                parent.kids[i:i + 1] = kid.kids
                if fails(render(root)):
                    changed = True; continue
                parent.kids[i:i + len(kid.kids)] = [kid]
            # style declarations
            if kid.tag:
                for ai, (k, v) in enumerate(kid.attrs):
                    if k == 'style' and v:
                        decls = [d for d in v.split(';') if d]
                        j = 0
                        while j < len(decls):
                            trial = decls[:j] + decls[j + 1:]
                            kid.attrs[ai] = (k, ';'.join(trial))
                            if fails(render(root)):
                                decls = trial; changed = True
                            else:
                                j += 1
                        kid.attrs[ai] = (k, ';'.join(decls))
                    elif k not in ('style',) :
                        pass
    return render(root)
