"""C20: weasyprint._select_source (every branch) — which source is read and which base URL relative references resolve
against — compared with Model/ResourcesSource.lean.  `path2url` of a name and whether the file opens are oracles."""
import io
import shutil
import tempfile
from pathlib import Path

from harness import c20_res as R
from harness import docs
from harness.c20_res import Spec, enc
from vlib import sx


class Named(io.BytesIO):
    """A file object with a `.name` attribute."""

    def __init__(self, data, name):
        super().__init__(data)
        self.name = name


def file_name(name, tmp):
    """Wire form (name, path2url(name), opens) of a file name."""
    from weasyprint.urls import path2url
    if name is None:
        return 'none'
    try:
        with open(name, 'rb'):
            opens = True
    except OSError as exc:
        opens = enc(type(exc).__name__)
    return [enc(str(name)), enc(path2url(name)), opens]


def gen_case(rng, tmp, serial):
    contents = R.bank()
    existing = tmp / f'doc{serial % 3}.css'
    existing.write_bytes(b'p{}')
    names = [str(existing), str(tmp / 'missing.css'), 'relative/x.css', str(tmp) + '/', 'x y.css']
    urls = ['http://src.test/a.css', 'file:///tmp/c20-named/b.css', 'data:text/css,p%7B%7D', 'https://cdn.test/x/c.css?q=1']
    args, table = {}, {}
    kinds = rng.choice([['guess'], ['guess'], ['filename'], ['url'], ['url'], ['file_obj'], ['string'], [],
                        ['url', 'string'], ['filename', 'file_obj'], ['guess', 'url']])
    wire = {'guess': 'none', 'filename': 'none', 'url': 'none', 'file_obj': 'absent', 'string': False}
    for kind in kinds:
        if kind == 'guess':
            which = rng.choice(['readable', 'path', 'text-url', 'text-file'])
            if which == 'readable':
                name = rng.choice([None, str(existing), '<stdin>', '', 'rel.css', 'http://named.test/s.css'])
                args['guess'] = Named(b'p{}', name) if name is not None else io.BytesIO(b'p{}')
                wire['guess'] = ['readable', file_name(name, tmp)]
            elif which == 'path':
                name = Path(rng.choice(names[:3]))
                args['guess'] = name
                wire['guess'] = ['path', file_name(name, tmp)]
            else:
                text = rng.choice(urls) if which == 'text-url' else rng.choice(names + ['a:b', 'C:x'])
                args['guess'] = text
                wire['guess'] = ['text', enc(text), file_name(text, tmp)]
                table[text] = None
        elif kind == 'filename':
            name = rng.choice(names)
            args['filename'] = Path(name) if rng.random() < 0.3 and not name.endswith('/') else name
            wire['filename'] = file_name(name, tmp)
        elif kind == 'url':
            url = rng.choice(urls)
            args['url'] = url
            wire['url'] = enc(url)
            table[url] = None
        elif kind == 'file_obj':
            name = rng.choice([None, str(existing), '<stdin>', '', 'rel.css'])
            args['file_obj'] = Named(b'p{}', name) if name is not None else io.BytesIO(b'p{}')
            wire['file_obj'] = file_name(name, tmp)
        else:
            args['string'] = 'p{}'
            wire['string'] = True
    for url in list(table):
        table[url] = R.random_spec(rng, ['css'], mimes=['text/css'] * 3 + ['text/html', None],
                                   redirects=[None, None, 'http://moved.test/m/s.css'])
    base = rng.choice([None, None, 'http://base.test/dir/', str(tmp) + '/', 'rel/dir', ''])
    check = rng.random() < 0.4
    return {'args': args, 'wire': wire, 'table': table, 'base': base, 'check': check}


def run_case(case):
    from weasyprint import _select_source
    recorder = R.Recorder(case['table'])
    by_data = {id(spec.content.data): spec.content.id for spec in case['table'].values() if spec.kind == 'resp'}
    try:
        with _select_source(base_url=case['base'], url_fetcher=recorder, check_css_mime_type=case['check'],
                            **case['args']) as (kind, source, base_url, _encoding):
            given = [v for v in case['args'].values() if hasattr(v, 'read')]
            if kind == 'string':
                if source == '':
                    origin = 'empty'
                elif id(source) in by_data:
                    origin = f'fetched:{by_data[id(source)]}'
                else:
                    origin = 'given-string'
            elif any(source is g for g in given):
                origin = 'given-file-obj'
            elif isinstance(source, R.FileObj):
                origin = f'fetched:{recorder.last_content.id}'
            else:
                origin = 'local:' + enc(source.name)
            out = f'{kind} {origin} base={enc(base_url)}'
    except Exception as exc:  # noqa: BLE001
        out = f'err:{type(exc).__name__}'
    return recorder.log() + ' ' + out


def wire_of(case, tmp):
    w = case['wire']
    base = 'none' if case['base'] is None else file_name(case['base'], tmp)
    if case['base'] is not None:
        base[2] = True       # never opened
    return sx.line('source', R.Recorder(case['table']).sx(), w['guess'], w['filename'], w['url'], w['file_obj'], w['string'],
                   base, case['check'])


def section(run):
    docs.quiet()
    sec = run.section('select-source', 'weasyprint._select_source with every combination of guess (file object / Path / URL '
                      'string / file name) / filename / url / file_obj / string, base_url given or not (URL, directory, relative '
                      'path), MIME check, recording fetcher with failure modes: fetch log, kind and origin of the source, the base '
                      'URL relative references resolve against, or the exception; non-trivial = the base URL is derived')
    tmp = Path(tempfile.mkdtemp(prefix='c20-source-'))
    try:
        for i in range(run.n(250, 4000)):
            case = gen_case(run.rng, tmp, i)
            out = run_case(case)
            sec.add(wire_of(case, tmp), out, meta={'wire': str(case['wire']), 'base': case['base']},
                    nontrivial=case['base'] is None and ' base=' in out and 'base=none' not in out,
                    tags=['err' if ' err:' in out else out.split(' ')[-3] if ' base=' in out else 'other'])
    finally:
        shutil.rmtree(tmp, ignore_errors=True)


def judge(d):
    """`… by calling the url_fetcher with the absolute URL`: the base URL a source gets must be absolute (or absent)."""
    from weasyprint.urls import url_is_absolute
    impl = d['impl']
    if ' base=' in impl:
        from harness.c20_doc import decode
        base = impl.split(' base=')[1]
        if base != 'none' and not url_is_absolute(decode(base)):
            return f'_select_source gives the base URL {decode(base)!r}, which is not absolute: relative references cannot resolve'
    return None
