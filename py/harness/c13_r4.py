"""C13, round 4: the `image-resolution` validator, the canvas background (`layout_backgrounds`: which style the
propagated background is laid out with), and the identity of raster images (`get_image_from_uri`: which uses of
an image share one `RasterImage.id`, hence one image XObject)."""
import base64
import io
from fractions import Fraction

from harness import c13_real as real
from harness import docs
from harness.c13_real import fmt, fmt_pair, fmt_rect, ok
from harness.exactq import Q
from vlib import sx

# ---------------------------------------------------------------------------------------------
# css/validation/properties.py::image_resolution

RES_UNITS = ('dppx', 'dppx', 'dppx', 'dpi', 'dpcm', 'px', 'x', 'DPPX', '', '%')


def run_image_resolution(text):
    """The real validator on the declaration value `text` -> (line, out)."""
    import tinycss2
    from weasyprint.css.utils import RESOLUTION_TO_DPPX
    from weasyprint.css.validation.properties import PROPERTIES
    tokens = tinycss2.parse_component_value_list(text)
    validator = PROPERTIES['image-resolution']

    def run():
        value = validator(tokens, None) if validator.wants_base_url else validator(tokens)
        return 'invalid' if value is None else value
    result = docs.outcome(lambda: run())
    token = tokens[0] if len(tokens) == 1 else None
    factor, value = None, Fraction(0)
    if token is not None and token.type == 'dimension':
        value = Fraction(token.representation) if 'e' not in token.representation.lower() else Fraction(token.value)
        if token.unit in RESOLUTION_TO_DPPX:
            factor = Fraction(RESOLUTION_TO_DPPX[token.unit])
    exact = factor is None or factor == 1
    if isinstance(result, str):
        out = result if result.startswith('err') else 'ok invalid'
    else:
        out = ok(fmt(Fraction(result))) if exact else 'ok valid'
    return sx.line('imgres', value, factor, exact), out


def case_image_resolution(rng, adversarial=False):
    unit = rng.choice(RES_UNITS)
    number = rng.choice(['0', '-1', '1', '2', '0.5', '-0.25', '96', '192', '300', '-0', '4', '1.5', '-96', '0.0',
                         str(rng.randint(-5, 400)), f'{rng.randint(-40, 40) / 8:g}'])
    text = number + unit
    if adversarial and rng.random() < 0.2:
        text = rng.choice(['auto', 'none', '2dppx 3dppx', 'from-image', 'snap', '2 dppx', 'calc(1dppx)'])
    line, out = run_image_resolution(text)
    return (line, out, {'fn': 'image_resolution', 'text': text}, unit in ('dppx', 'dpi', 'dpcm'),
            [f'imgres:{unit or "number"}', 'imgres:' + out.split()[1] if out in ('ok invalid', 'ok valid') else 'imgres:value'])


def regression_image_resolution():
    """Fixed finding image-resolution-zero-division (d011d54, filed under C07): `image-resolution: 0dppx` raised
    ZeroDivisionError in RasterImage.get_intrinsic_size, `-1dppx` gave a negative size.  -> regression cases: the
    validator on both values, and the former replay document rendered: the used size of the <img> through the
    `docimg` protocol line at the initial resolution (the declaration is dropped)."""
    from harness import c13_docs
    from weasyprint.formatting_structure import boxes
    cases = []
    for text in ('0dppx', '-1dppx', '0dpi', '-0dppx'):
        line, out = run_image_resolution(text)
        cases.append((line, out, {'fn': 'image_resolution', 'text': text,
                                  'regression': 'image-resolution-zero-division'}, True,
                      ['regression:image-resolution-zero-division']))
    for text in ('0dppx', '-1dppx'):
        html = ('<style>@page{size:400px;margin:0}body{margin:0}</style>'
                f'<div style="width:200px"><img src="{c13_docs.png_uri(8, 4, 0)}" '
                f'style="vertical-align:top;image-resolution:{text}"></div>')

        def run(html=html):
            document = docs.render(html)
            for box in document.pages[0]._page_box.descendants():
                if isinstance(box, boxes.ReplacedBox):
                    return ok(' '.join(fmt(Fraction(getattr(box, n))) for n in real.RBOX_OUT) +
                              f' at {fmt(Fraction(box.position_x))} {fmt(Fraction(box.position_y))}')
            return 'no-image-box'
        css = ['auto'] * 4 + ['none', 'none'] + ['auto'] * 4 + [['px', 0], ['px', 0], 0, 0]
        # margins of an <img> are 0 by default (computed), not auto
        css[6:10] = [['px', 0]] * 4
        line = sx.line('docimg', False, css, [200, False], 'auto', 0, 0, 8, 4, 1, Fraction(2))
        cases.append((line, docs.outcome(run), {'fn': 'docimg-resolution', 'html': html, 'text': text,
                                                'regression': 'image-resolution-zero-division'}, True,
                      ['regression:image-resolution-zero-division']))
    return cases


# ---------------------------------------------------------------------------------------------
# layout_backgrounds: the canvas background is laid out on the page box with the propagated element's style

class ResolutionStub:
    """A raster image of `pw` x `ph` pixels as `layout_background_layer` sees it: the intrinsic size depends on
    the resolution it is asked with."""

    def __init__(self, pw, ph):
        self.pw, self.ph = pw, ph
        self.asked = []

    def get_intrinsic_size(self, resolution, font_size):
        self.asked.append(resolution)
        return self.pw / resolution, self.ph / resolution, self.pw / self.ph

    def draw(self, stream, concrete_width, concrete_height, image_rendering):
        pass


def gen_bg_style(rng, adversarial, p_image=0.7):
    layer = real.gen_layer(rng, False)
    image = (Q(rng.choice([2, 4, 8, 16, 3, 10])), Q(rng.choice([2, 4, 8, 16, 5]))) if rng.random() < p_image else None
    return {'image': image, 'res': Q(rng.choice([1, 1, 2, 4, 3])) / rng.choice([1, 1, 2]),
            'colored': rng.random() < 0.15, 'hidden': rng.random() < 0.1, 'visibility': rng.choice(['hidden', 'collapse']),
            'size': layer['size'], 'clip': layer['clip'], 'repeat': layer['repeat'], 'origin': layer['origin'],
            'position': layer['position'], 'fixed': layer['fixed']}


def style_wire(s):
    return ['none' if s['image'] is None else list(s['image']), s['res'], s['colored'], s['hidden'],
            real.bg_size_wire(s['size']), s['clip'], s['repeat'][0], s['repeat'][1], s['origin'],
            real.position_wire(s['position']), s['fixed']]


def real_style(s):
    from tinycss2.color4 import parse_color
    style = real.base_style()
    image = None if s['image'] is None else ResolutionStub(*s['image'])
    style['background_image'] = [('none', None) if image is None else ('stub', image)]
    style['background_color'] = parse_color('red' if s['colored'] else 'transparent')
    # `hidden` of the wire = `style['visibility'] != 'visible'` (repair af29a5d): hidden or collapse
    style['visibility'] = s.get('visibility', 'hidden') if s['hidden'] else 'visible'
    style['image_resolution'] = s['res']
    style['background_size'] = [real.bg_size_real(s['size'])]
    style['background_clip'] = [s['clip']]
    style['background_origin'] = [s['origin']]
    style['background_repeat'] = [tuple(s['repeat'])]
    style['background_position'] = [real.position_real(s['position'])]
    style['background_attachment'] = ['fixed' if s['fixed'] else 'scroll']
    return style, image


def canvas_out(page, chosen_tag):
    """`page.canvas_background` -> what the driver prints."""
    canvas = page.canvas_background
    if canvas is None:
        return ok('none')
    return ok(chosen_tag + ''.join(' ' + real.layer_out(layer) for layer in canvas.layers))


def run_canvas(params):
    from weasyprint.formatting_structure import boxes
    from weasyprint.layout import background
    page_g, bleeds = params['page_g'], params['bleeds']
    pstyle, _ = real_style(params['page_style'])
    for side, value in zip(('top', 'right', 'bottom', 'left'), bleeds):
        pstyle[f'bleed_{side}'] = real.dimension(value, 'px')
    rstyle, _ = real_style(params['root_style'])
    children = []
    body_box = None
    if params['body'] is not None:
        bstyle, _ = real_style(params['body']['style'])
        body_box = real.apply_geom(boxes.BlockBox('body', bstyle, None, []), params['body']['g'])
        # a sibling before <body> that is not the body: `for child in root_box.children: if tag == 'body'`
        if params.get('head'):
            hstyle, _ = real_style(dict(params['body']['style'], image=None, colored=False))
            children.append(real.apply_geom(boxes.BlockBox('head', hstyle, None, []), params['body']['g']))
        children.append(body_box)
    root = real.apply_geom(boxes.BlockBox(params['root_tag'], rstyle, None, children), params['root_g'])
    page = real.apply_geom(boxes.PageBox('page', pstyle), page_g)
    page.children = [root]

    def run():
        for box in [page, root] + children:
            for corner in ('top_left', 'top_right', 'bottom_right', 'bottom_left'):
                setattr(box, f'border_{corner}_radius', (0, 0))
        background.layout_backgrounds(page, None)
        chosen = 'none'
        if page.canvas_background is not None:
            chosen = 'root' if root.background is None and (body_box is None or body_box.background is not None) else 'body'
            if root.background is None and body_box is not None and body_box.background is None:
                # both lost / never had one: tell them apart by who had one before the propagation
                chosen = 'root' if _has_background(params['root_style']) or params['root_tag'].lower() != 'html' else 'body'
        return canvas_out(page, chosen)
    out = docs.outcome(run)
    body = 'none' if params['body'] is None else [real.geom_wire(params['body']['g']), style_wire(params['body']['style'])]
    line = sx.line('canvasbg', real.geom_wire(page_g), list(bleeds), style_wire(params['page_style']),
                   real.geom_wire(params['root_g']), style_wire(params['root_style']),
                   params['root_tag'].lower() == 'html', body)
    return line, out


def _has_background(s):
    return not s['hidden'] and (s['colored'] or s['image'] is not None)


def case_canvas(rng, adversarial=False):
    """The real `layout_backgrounds` on a real PageBox > root (html / HTML / svg) > (head,) body with stub raster
    images; the three styles differ in every background property and in image-resolution."""
    params = {'page_g': real.gen_geom(rng, False), 'bleeds': [Q(rng.choice([0, 0, 3, 10])) for _ in range(4)],
              'page_style': gen_bg_style(rng, adversarial, p_image=0.2),
              'root_g': real.gen_geom(rng, False), 'root_style': gen_bg_style(rng, adversarial, p_image=0.35),
              'root_tag': rng.choice(['html', 'html', 'html', 'HTML', 'svg']),
              'body': None, 'head': rng.random() < 0.3}
    if rng.random() < 0.85:
        params['body'] = {'g': real.gen_geom(rng, False), 'style': gen_bg_style(rng, adversarial, p_image=0.8)}
    line, out = run_canvas(params)
    differs = params['body'] is not None and params['body']['style']['res'] != params['page_style']['res']
    tags = ['canvas:' + (out.split()[1] if out.startswith('ok') else 'err')]
    if differs and out.startswith('ok body') and 'size' in out:
        tags.append('canvas:body-resolution-differs-from-page')
    return line, out, {'fn': 'layout_backgrounds', 'params': params}, out.startswith(('ok body', 'ok root')), tags


def canvas_document_html(doc):
    def css(s, selector):
        if s is None:
            return ''
        from harness import c13_docs
        rules = [f'image-resolution:{float(s["res"]):g}dppx']
        if s['image'] is not None:
            rules += [f'background-image:url({c13_docs.png_uri(int(s["image"][0]), int(s["image"][1]), 0)})',
                      f'background-size:{s["size_css"]}', f'background-repeat:{s["repeat"][0]} {s["repeat"][1]}',
                      f'background-position:{s["position_css"]}', f'background-origin:{s["origin"]}',
                      f'background-clip:{s["clip"]}']
        return f'{selector}{{{";".join(rules)}}}'
    return (f'<style>@page{{size:{doc["page"][0]}px {doc["page"][1]}px;margin:{doc["margin"]}px}}'
            f'{css(doc["html"], "html")}{css(doc["body"], "body")}'
            f'body{{margin:{doc["body_margin"]}px;height:{doc["body_height"]}px}}</style><p></p>')


def gen_canvas_document(rng):
    from harness import c13_docs

    def style(p_image):
        spec = c13_docs.gen_bg(rng, 0)
        if 'round' in spec['repeat'] or 'space' in spec['repeat']:
            spec['repeat'] = ('repeat', 'no-repeat')
        image = (Fraction(spec['pw']), Fraction(spec['ph'])) if rng.random() < p_image else None
        return {'image': image, 'res': rng.choice([Fraction(1), Fraction(2), Fraction(4), Fraction(1, 2)]),
                'colored': False, 'hidden': False, 'size': spec['size'], 'size_css': spec['size_css'],
                'clip': spec['clip'], 'origin': spec['origin'], 'repeat': spec['repeat'],
                'position': spec['position'], 'position_css': spec['position_css'], 'fixed': False}
    return {'page': (rng.choice([128, 256, 200]), rng.choice([128, 256])), 'margin': rng.choice([0, 8, 16]),
            'html': style(0.25) if rng.random() < 0.6 else None, 'body': style(0.9),
            'body_margin': rng.choice([0, 4, 8]), 'body_height': rng.choice([32, 64])}


def run_canvas_document(doc):
    """Render; read `page.canvas_background` of the real page box; the `canvasbg` line is built from the CSS of
    the document (styles) and the geometry of the laid-out boxes."""
    from harness import c13_docs
    html = canvas_document_html(doc)

    def geom(box):
        return {name: Q(Fraction(getattr(box, name))) for name in real.GEOM_FIELDS}
    state = {}

    def run():
        document = docs.render(html)
        page = document.pages[0]._page_box
        root = page.children[0]
        body = next(child for child in root.children if child.element_tag == 'body')
        state.update(page=geom(page), root=geom(root), body=geom(body))
        had_root = doc['html'] is not None and doc['html']['image'] is not None
        return canvas_out(page, 'root' if had_root else 'body')
    out = docs.outcome(run)
    if not state:
        return None, out
    default = dict(doc['body'], image=None, res=Fraction(1))
    html_style = doc['html'] if doc['html'] is not None else default
    # @page inherits from the root element: its image-resolution is the root's
    page_style = dict(default, res=html_style['res'])

    def wire(s):
        return style_wire(dict(s, res=Q(s['res']), image=None if s['image'] is None else tuple(Q(v) for v in s['image'])))
    line = sx.line('canvasbg', real.geom_wire(state['page']), [0, 0, 0, 0], wire(page_style),
                   real.geom_wire(state['root']), wire(html_style), True, [real.geom_wire(state['body']), wire(doc['body'])])
    return line, out


def case_canvas_document(rng, adversarial=False):
    doc = gen_canvas_document(rng)
    line, out = run_canvas_document(doc)
    if line is None:
        return (sx.line('docok', 'x'), 'document-structure:' + out, {'fn': 'canvas-document', 'canvas_doc': doc,
                                                                    'html': canvas_document_html(doc)}, False,
                ['canvasdoc:structure-failed'])
    body_res = doc['body']['res'] != (doc['html'] or {'res': Fraction(1)})['res']
    return (line, out, {'fn': 'canvas-document', 'canvas_doc': doc, 'html': canvas_document_html(doc)}, True,
            ['canvasdoc:' + out.split()[1]] + (['canvasdoc:body-resolution-differs'] if body_res and out.startswith(
                'ok body') else []))


# ---------------------------------------------------------------------------------------------
# get_image_from_uri: which requests share one RasterImage.id (one image XObject, one set of cache slots)

ORIENTATION_CODES = ['from-image', 'none', (90, False), (180, False), (0, True), (270, True), (90, True)]
OPTION_SETS = [(False, None, None), (True, None, None), (False, 60, None), (False, None, 96), (True, 60, 96)]


def run_image_ids(requests):
    """`requests`: [(url index, orientation index, option-set index)] executed on ONE cache with the real
    `get_image_from_uri` -> (line, out): for each request the index of the first request whose image has the same
    `id`, and of the first request that returned the same object."""
    from harness import c13_docs
    from weasyprint import DEFAULT_OPTIONS
    from weasyprint.images import get_image_from_uri
    from weasyprint.urls import default_url_fetcher
    uris = [c13_docs.png_uri(4, 2, 0), c13_docs.png_uri(4, 2, 1), c13_docs.png_uri(2, 4, 0)]

    def run():
        cache, images = {}, []
        for url, orientation, option_set in requests:
            optimize, quality, dpi = OPTION_SETS[option_set]
            options = dict(DEFAULT_OPTIONS, optimize_images=optimize, jpeg_quality=quality, dpi=dpi)
            images.append(get_image_from_uri(cache, default_url_fetcher, options, uris[url],
                                             orientation=ORIENTATION_CODES[orientation]))
        assert all(image is not None for image in images)
        ids = [next(j for j, other in enumerate(images) if other.id == image.id) for image in images]
        objects = [next(j for j, other in enumerate(images) if other is image) for image in images]
        return ok('(' + ' '.join(map(str, ids)) + ') (' + ' '.join(map(str, objects)) + ')')
    out = docs.outcome(run)
    keys = []
    for url, orientation, option_set in requests:
        optimize, quality, dpi = OPTION_SETS[option_set]
        keys.append([url, orientation, int(optimize), 0 if quality is None else quality, 0 if dpi is None else dpi])
    return sx.line('imgids', keys), out


def case_image_ids(rng, adversarial=False):
    n = rng.choice([2, 3, 4, 6])
    pool = [(rng.randrange(3 if adversarial else 2), rng.randrange(len(ORIENTATION_CODES)),
             rng.choice([0, 0, 0, rng.randrange(len(OPTION_SETS))])) for _ in range(rng.choice([2, 3]))]
    requests = [rng.choice(pool) for _ in range(n)]
    line, out = run_image_ids(requests)
    same_url_other_orientation = any(a[0] == b[0] and a[1] != b[1] for a in requests for b in requests)
    return (line, out, {'fn': 'get_image_from_uri.ids', 'requests': [list(r) for r in requests]},
            same_url_other_orientation,
            ['imgids:same-url-other-orientation' if same_url_other_orientation else 'imgids:plain'] +
            (['imgids:repeat'] if len(set(requests)) < len(requests) else []))


def execute(line):
    """Re-run a `canvasbg` / `imgids` / `imgres`-free protocol line of this module on the real code from the line
    alone (replay of a function-level case) -> canonical output, or None for other commands."""
    from harness.c13_oracle import parse
    cmd, args = parse(line)

    def q(v):
        if isinstance(v, Fraction):
            return Q(v)
        if isinstance(v, list):
            return [q(x) for x in v]
        return v

    def style(a):
        image, res, colored, hidden, size, clip, rx, ry, origin, position, fixed = a
        dim = lambda d: 'auto' if d == 'auto' else (d[0], q(d[1]))  # noqa: E731
        return {'image': None if image is None else tuple(q(image)), 'res': q(res), 'colored': colored,
                'hidden': hidden, 'size': size if isinstance(size, str) else (dim(size[0]), dim(size[1])),
                'clip': clip, 'repeat': (rx, ry), 'origin': origin,
                'position': (position[0], dim(position[1]), position[2], dim(position[3])), 'fixed': fixed}
    if cmd == 'canvasbg':
        page_g, bleeds, pstyle, root_g, rstyle, is_html, body = args
        params = {'page_g': dict(zip(real.GEOM_FIELDS, q(page_g))), 'bleeds': q(bleeds), 'page_style': style(pstyle),
                  'root_g': dict(zip(real.GEOM_FIELDS, q(root_g))), 'root_style': style(rstyle),
                  'root_tag': 'html' if is_html else 'svg', 'head': False,
                  'body': None if body is None else {'g': dict(zip(real.GEOM_FIELDS, q(body[0]))),
                                                     'style': style(body[1])}}
        return run_canvas(params)[1]
    if cmd == 'imgids':
        requests = []
        for url, orientation, optimize, quality, dpi in args[0]:
            option_set = OPTION_SETS.index((bool(optimize), int(quality) or None, int(dpi) or None))
            requests.append((int(url), int(orientation), option_set))
        return run_image_ids(requests)[1]
    return None


# ---------------------------------------------------------------------------------------------
# list-style-image: the marker image is an anonymous inline replaced box (default sizing), embedded once

MARKER_ORIENTATIONS = {None: 0, 'none': 1, '90deg': 2, '180deg': 3}


def gen_marker_document(rng):
    return {'items': rng.choice([1, 2, 3]), 'pw': rng.choice([2, 4, 8, 16]), 'ph': rng.choice([2, 4, 8]),
            'color': rng.randrange(2), 'res': rng.choice([Fraction(1), Fraction(2), Fraction(1, 2), Fraction(4)]),
            'position': rng.choice(['inside', 'outside']), 'orientation': rng.choice([None, None, 'none', '90deg', '180deg']),
            'img': rng.choice([None, None, 'same', 'other-orientation']),
            'orientation_on': rng.choice(['list', 'list', 'marker'])}


def marker_document_html(doc):
    from harness import c13_docs
    uri = c13_docs.png_uri(doc['pw'], doc['ph'], doc['color'])
    orientation = '' if doc['orientation'] is None else f'image-orientation:{doc["orientation"]};'
    extra = ''
    if doc['img'] == 'same':
        extra = f'<img src="{uri}" style="vertical-align:top;{orientation}">'
    elif doc['img'] == 'other-orientation':
        extra = f'<img src="{uri}" style="vertical-align:top;image-orientation:270deg flip">'
    items = ''.join('<li>x</li>' for _ in range(doc['items']))
    # image-orientation is inherited (repair 8f3706e): it is set on the <ul>, or on the ::marker pseudo-element itself
    on_list = doc.get('orientation_on', 'list') == 'list'
    return ('<style>@page{size:400px 800px;margin:0}body{margin:0;font-size:20px;line-height:20px}'
            f'li::marker{{{"" if on_list else orientation}}}</style>'
            f'<ul style="margin:0;padding:0 0 0 64px;width:200px;list-style-image:url({uri});'
            f'list-style-position:{doc["position"]};image-resolution:{float(doc["res"]):g}dppx;'
            f'{orientation if on_list else ""}">{items}</ul>'
            f'<div>{extra}</div>')


def run_marker_document(doc):
    """-> list of (line, out, what): one `docimg` line per marker (used size of the anonymous replaced box),
    `imgids` for all raster uses, `imgcount` for the image XObjects of the PDF."""
    import re
    from weasyprint.formatting_structure import boxes
    html = marker_document_html(doc)
    document = docs.render(html)
    page = document.pages[0]._page_box
    def walk(box):
        box = getattr(box, '_box', box)            # absolutely positioned boxes sit behind a placeholder
        yield box
        for child in getattr(box, 'children', ()):
            yield from walk(child)
    replaced = [box for box in walk(page) if isinstance(box, boxes.ReplacedBox)]
    markers = [box for box in replaced if box.element_tag.endswith('::marker')]
    others = [box for box in replaced if not box.element_tag.endswith('::marker')]
    assert len(markers) == doc['items'], (len(markers), doc['items'])
    quarter = doc['orientation'] == '90deg'
    pw, ph = (doc['ph'], doc['pw']) if quarter else (doc['pw'], doc['ph'])
    cases = []
    css = ['auto'] * 4 + ['none', 'none'] + [['px', 0]] * 4 + [['px', 0], ['px', 0], 0, 0]
    for box in markers:
        assert (box.replacement.width, box.replacement.height) == (pw, ph)
        line = sx.line('docimg', False, css, [200, False], 'auto', Fraction(box.position_x), Fraction(box.position_y),
                       pw, ph, doc['res'], Fraction(box.replacement.ratio))
        out = ok(' '.join(fmt(Fraction(getattr(box, n))) for n in real.RBOX_OUT) +
                 f' at {fmt(Fraction(box.position_x))} {fmt(Fraction(box.position_y))}')
        cases.append((line, out, 'marker-size'))
    code = MARKER_ORIENTATIONS[doc['orientation']]
    uses = [([0, code, 0, 0, 0], box.replacement) for box in markers]
    for box in others:
        uses.append(([0, code if doc['img'] == 'same' else 5, 0, 0, 0], box.replacement))
    images = [image for _, image in uses]
    ids = [next(j for j, other in enumerate(images) if other.id == image.id) for image in images]
    objects = [next(j for j, other in enumerate(images) if other is image) for image in images]
    cases.append((sx.line('imgids', [key for key, _ in uses]),
                  ok('(' + ' '.join(map(str, ids)) + ') (' + ' '.join(map(str, objects)) + ')'), 'marker-ids'))
    pdf = document.write_pdf(uncompressed_pdf=True).decode('latin1')
    count = pdf.count('/Subtype /Image')
    names = []
    for name, number in re.findall(r'/(i[0-9a-f]{32}[01]) (\d+) 0 R', pdf):
        if (int(number), name) not in names:
            names.append((int(number), name))
    # paint order: the markers and the <img> are inline content, in tree order; outside markers are absolutely
    # positioned boxes painted after the in-flow content
    leaf = lambda image: ['i', image.id, True, 1, False]  # noqa: E731
    draws = [leaf(box.replacement) for box in (others + markers if doc['position'] == 'outside' else markers + others)]
    cases.append((sx.line('imgcount', draws), ok(f'{count} ({" ".join(name for _, name in sorted(set(names)))})'),
                  'marker-count'))
    return cases


def case_marker_document(rng, adversarial=False):
    doc = gen_marker_document(rng)
    meta = {'fn': 'marker-document', 'marker_doc': doc, 'html': marker_document_html(doc)}
    try:
        cases = run_marker_document(doc)
    except Exception as exc:  # noqa: BLE001
        return [(sx.line('docok', 'x'), f'document-structure:{type(exc).__name__}:{str(exc)[:120]}', meta, False,
                 ['markerdoc:structure-failed'])]
    return [(line, out, dict(meta, what=what), True,
             [f'markerdoc:{what}', f'markerdoc:{doc["position"]}'] + ([f'markerdoc:img-{doc["img"]}'] if doc['img'] else []))
            for line, out, what in cases]



def regression_orientation_not_inherited():
    """Fixed finding image-orientation-not-inherited (8f3706e): `image-orientation` was missing from INHERITED, so
    an <img> under an element with `image-orientation: 90deg` was not rotated (8x4 stayed 8x4).  -> regression
    cases: the former replay document rendered (an <img>, and a list marker, below an element carrying the
    property), the used size through the `docimg` line of a 4x8 image (the quarter turn exchanges the sides)."""
    from harness import c13_docs
    from weasyprint.formatting_structure import boxes
    uri = c13_docs.png_uri(8, 4, 0)
    documents = (
        ('<style>@page{size:100px;margin:0}body{margin:0}</style><div style="image-orientation:90deg;width:50px">'
         f'<img src="{uri}" style="vertical-align:top"></div>', 50),
        ('<style>@page{size:100px;margin:0}body{margin:0;font-size:20px;line-height:20px}</style>'
         f'<ul style="margin:0;padding:0 0 0 40px;width:50px;image-orientation:90deg;list-style-position:inside;'
         f'list-style-image:url({uri})"><li>x</li></ul>', 50))
    cases = []
    for html, cbw in documents:
        state = {}

        def run(html=html):
            document = docs.render(html)
            for box in document.pages[0]._page_box.descendants():
                if isinstance(box, boxes.ReplacedBox):
                    state['at'] = (Fraction(box.position_x), Fraction(box.position_y))
                    return ok(' '.join(fmt(Fraction(getattr(box, n))) for n in real.RBOX_OUT) +
                              f' at {fmt(Fraction(box.position_x))} {fmt(Fraction(box.position_y))}')
            return 'no-image-box'
        out = docs.outcome(run)
        x, y = state.get('at', (0, 0))
        css = ['auto'] * 4 + ['none', 'none'] + [['px', 0]] * 4 + [['px', 0], ['px', 0], 0, 0]
        line = sx.line('docimg', False, css, [cbw, False], 'auto', x, y, 4, 8, 1, Fraction(1, 2))
        cases.append((line, out, {'fn': 'docimg-orientation-inherited', 'html': html,
                                  'regression': 'image-orientation-not-inherited'}, True,
                      ['regression:image-orientation-not-inherited']))
    return cases


def judge_marker_document(doc):
    """Render the marker document again and state the property on each of its lines (oracle, no model)."""
    from harness import c13_oracle
    try:
        cases = run_marker_document(doc)
    except AssertionError as exc:
        return f'list-style-image document: structure assertion failed: {exc!r}'
    except Exception as exc:  # noqa: BLE001
        return f'rendering raised {type(exc).__name__}: {exc}'
    for line, out, what in cases:
        text = c13_oracle.judge(line, out)
        if text:
            return f'{what}: {text}'
    return None
