"""Record every API call made on the real `weasyprint.pdf.stream.Stream` objects during one `write_pdf`.

`Recording()` is a context manager that, for its duration, makes `generate_pdf` and `Stream.clone` build a logging
subclass of the real `Stream` (the module attributes `weasyprint.pdf.Stream` and `weasyprint.pdf.stream.Stream` are
rebound in this process only; nothing in /repo is edited).  The subclass overrides nothing semantically: every method
logs its outermost call and delegates to the real implementation.

Also wraps (observes, then delegates to) `draw_stacking_context` and the drawing functions it calls directly, so that
the log carries the structure needed by the skeleton model (`ctx-begin / ctx-end / leaf-begin / leaf-end` events).
"""
import contextlib
from fractions import Fraction

from . import c16src, pdfstream

# pydyf methods that append exactly one item -> operator class of Model/PdfStream
PASS_THROUGH = {
    'clip': 'path', 'close': 'path', 'curve_to': 'path', 'curve_start_to': 'path', 'curve_end_to': 'path',
    'line_to': 'path', 'move_to': 'path', 'rectangle': 'path',
    'end': 'paint', 'fill': 'paint', 'fill_and_stroke': 'paint', 'fill_stroke_and_close': 'paint', 'stroke': 'paint',
    'stroke_and_close': 'paint', 'inline_image': 'paint',
    'set_dash': 'gparam', 'set_line_cap': 'gparam', 'set_line_join': 'gparam', 'set_line_width': 'gparam',
    'set_miter_limit': 'gparam',
    'set_text_rendering': 'textState', 'set_text_rise': 'textState',
    'move_text_to': 'textPos', 'set_text_matrix': 'textPos',
    'show_text': 'textShow', 'show_text_string': 'textShow',
}
LEAVES = ('set_mask_border', 'draw_background', 'draw_border', 'draw_table', 'draw_inline_level', 'draw_replacedbox',
          'draw_outline', 'rounded_box')


class Unsupported(Exception):
    """The run used something the wire format of the model does not carry (recorded, not a disagreement)."""


def short(text):
    """Wire-safe form of a stream item: blanks and parentheses replaced, non-ASCII replaced, long items truncated
    (the driver applies the same truncation to every token it prints)."""
    for a, b in ((' ', '_'), ('(', '{'), (')', '}'), ('\n', '_'), ('\r', '_'), ('\t', '_')):
        text = text.replace(a, b)
    text = text.encode('ascii', 'replace').decode()
    if len(text) > 120:
        text = text[:100] + '~' + str(len(text))
    return text or '_'


def token(item):
    return short(pdfstream.RealWorld.token(item))


def make_logging_class(recorder):
    from weasyprint.pdf import stream as stream_module
    base = recorder.real_stream_class

    class LoggingStream(base):
        def __init__(self, *args, **kwargs):
            object.__setattr__(self, '_rec_ready', False)
            super().__init__(*args, **kwargs)
            recorder.register(self)
            object.__setattr__(self, '_rec_ready', True)

        def __setattr__(self, name, value):
            if name == 'stream' and getattr(self, '_rec_ready', False):
                recorder.assigned(self, value)
            object.__setattr__(self, name, value)

    def outer(name, describe):
        real = getattr(base, name)

        def method(self, *args, **kwargs):
            if recorder.depth == 0:
                recorder.depth += 1
                try:
                    before = len(self.stream)
                    result = real(self, *args, **kwargs)
                    describe(self, before, result, *args, **kwargs)
                    return result
                finally:
                    recorder.depth -= 1
            return real(self, *args, **kwargs)
        method.__name__ = name
        setattr(LoggingStream, name, method)

    def simple(wire_name):
        return lambda self, before, result, *a, **k: recorder.on(self, wire_name)

    outer('push_state', simple('push'))
    outer('pop_state', simple('pop'))
    outer('begin_text', simple('bt'))
    outer('end_text', simple('et'))
    outer('end_marked_content', simple('em'))

    def transform(self, before, result, a=1, b=0, c=0, d=1, e=0, f=0):
        recorder.on(self, 'tr', a, b, c, d, e, f)
    outer('transform', transform)

    def set_color(self, before, result, color, stroke=False):
        recorder.on(self, 'color', color, bool(stroke))
    outer('set_color', set_color)

    def set_font_size(self, before, result, font, size):
        recorder.on(self, 'font', str(font), size)
        recorder.font_events.append(('tf', recorder.handle(self), str(font), size))
    outer('set_font_size', set_font_size)

    def add_font(self, before, result, pango_font):
        # `draw_first_line`: `font, font_size = stream.add_font(pango_font)` on every change of Pango font
        from weasyprint.text.fonts import get_pango_font_key
        font, font_size = result
        recorder.font_events.append(
            ('add', recorder.handle(self), get_pango_font_key(pango_font)[0], font.hash, bool(font.bitmap), font_size))
    outer('add_font', add_font)

    def set_alpha(self, before, result, alpha, stroke=False, fill=None):
        recorder.on(self, 'alpha', alpha, bool(stroke), None if fill is None else bool(fill))
    outer('set_alpha', set_alpha)

    def set_state(self, before, result, state):
        recorder.on(self, 'state', state.get('ca'), state.get('CA'), 'other')
    outer('set_state', set_state)

    def set_blend_mode(self, before, result, mode):
        recorder.on(self, 'blend', str(mode))
    outer('set_blend_mode', set_blend_mode)

    def begin_marked_content(self, before, result, box, mcid=False, tag=None):
        recorder.on(self, 'bm', box.element_tag or 'none-tag', bool(mcid), tag)
    outer('begin_marked_content', begin_marked_content)

    def draw_x_object(self, before, result, reference):
        reference = str(reference)
        if reference[0] == 'x' and reference[1:].isdigit():
            recorder.on(self, 'dox', int(reference[1:]))
        elif reference[0] == 'i' and reference[-1] in '01':
            recorder.on(self, 'doi', reference[1:-1], reference[-1] == '1')
        else:
            raise Unsupported(f'draw_x_object({reference!r})')
    outer('draw_x_object', draw_x_object)

    def paint_shading(self, before, result, name):
        recorder.on(self, 'sh', int(str(name)[1:]))
    outer('paint_shading', paint_shading)

    def set_color_space(self, before, result, space, stroke=False):
        recorder.on(self, 'cs', str(space), bool(stroke))
    outer('set_color_space', set_color_space)

    def set_color_special(self, before, result, name, stroke=False, *operands):
        recorder.on(self, 'scn', None if name is None else int(str(name)[1:]), bool(stroke), list(operands))
    outer('set_color_special', set_color_special)

    def set_color_rgb(self, before, result, *args, **kwargs):
        recorder.on(self, 'tok', 'gparam', token(self.stream[-1]))
    outer('set_color_rgb', set_color_rgb)

    for name, cls in PASS_THROUGH.items():
        def passthrough(self, before, result, *args, _cls=cls, _name=name, **kwargs):
            if len(self.stream) != before + 1:
                raise Unsupported('pass-through method appended other than one item')
            recorder.on(self, 'tok', _cls, token(self.stream[-1]))
            if _name == 'set_text_matrix':
                recorder.font_events.append(('line', recorder.handle(self)))
        outer(name, passthrough)

    def add_group(self, before, result, *args):
        recorder.world('group', self)
    outer('add_group', add_group)

    def add_pattern(self, before, result, *args):
        recorder.world('pattern', self)
    outer('add_pattern', add_pattern)

    def add_shading(self, before, result, *args):
        recorder.world('shading', self)
    outer('add_shading', add_shading)

    def set_alpha_state(self, before, result, *args):
        recorder.world('alphastate', self)
    outer('set_alpha_state', set_alpha_state)

    def add_image(self, before, result, image, interpolate, ratio):
        recorder.log.append(('image', recorder.handle(self), str(image.id), bool(interpolate), ratio))
        recorder.tree_events.append(('call', len(recorder.log) - 1))
    outer('add_image', add_image)

    def clone(self, before, result, **kwargs):
        if 'resources' in kwargs:
            raise Unsupported('clone(resources=…) outside add_group / add_pattern')
        recorder.world('clone', self)
    outer('clone', clone)

    del stream_module
    return LoggingStream


class Recorder:
    def __init__(self):
        from weasyprint.pdf import stream as stream_module
        self.real_stream_class = stream_module.Stream
        self.streams, self.log, self.depth = [], [], 0
        self.pending_pages = 0
        self.backgrounds = []       # (first log index, end log index, props) of every draw_background_image
        self.gradients = []         # (first log index, end log index, props) of every Gradient.draw
        self.font_events = []       # ('line', h) | ('add', h, key, hash, bitmap, size) | ('tf', h, name, size)
        self.tree_events = []       # ('ctx-begin', props) / ('ctx-end',) / ('leaf-begin', name) / ('leaf-end',) / index
        self.cls = make_logging_class(self)

    def register(self, stream):
        self.streams.append(stream)
        if self.depth == 0:
            # created directly (generate_pdf): a page stream
            object.__setattr__(stream, '_verif_page', True)
            self.log.append(('newpage',))
            self.tree_events.append(('call', len(self.log) - 1))
            self.font_events.append(('page', len(self.streams) - 1))

    def handle(self, stream):
        for i, s in enumerate(self.streams):
            if s is stream:
                return i
        raise Unsupported('call on a stream created before the recording started')

    def on(self, stream, name, *args):
        self.log.append(('on', self.handle(stream), name, *args))
        self.tree_events.append(('call', len(self.log) - 1))

    def world(self, kind, stream):
        self.log.append((kind, self.handle(stream)))
        self.tree_events.append(('call', len(self.log) - 1))

    def assigned(self, stream, value):
        items = [pdfstream.RealWorld.token(v) for v in value]
        if len(items) == 1 and items[0].startswith('/s') and items[0].endswith('_sh') and items[0][2:-3].isdigit():
            self.log.append(('assignsh', self.handle(stream), int(items[0][2:-3])))
            self.tree_events.append(('call', len(self.log) - 1))
        else:
            raise Unsupported(f'stream.stream assigned {items[:3]}')

    # ---- result in the canonical form of the driver's `docscript` ------------------------------------------------
    def show(self, wb='wb=ok', refs=True):
        res_list = []
        for stream in self.streams:
            if not any(r is stream._resources for r in res_list):
                res_list.append(stream._resources)
        parts = []
        for stream in self.streams:
            res = next(i for i, r in enumerate(res_list) if r is stream._resources)
            marked = ','.join(tag for tag, _ in stream.marked)
            toks = ''.join(' ' + token(item) for item in stream.stream)
            parts.append(f'S res={res} id={getattr(stream, "id", None) or "-"} marked={marked} :{toks}')
        res_parts = []
        for res in res_list:
            # after `_use_references` the values are indirect references: keys only
            res_parts.append(f'R E={",".join(res["ExtGState"])} X={",".join(res["XObject"])} '
                             f'P={len(res["Pattern"])} Sh={len(res["Shading"])}')
        text = f'ok {wb} | ' + ' | '.join(parts) + ' || ' + ' | '.join(res_parts)
        if refs:
            # what `_use_references` did: dictionaries that got /Font, group / pattern streams added to the PDF, images
            fonts = sum(1 for res in res_list if res.get('Font') is not None)
            added = sum(1 for s in self.streams if getattr(s, 'id', None) and getattr(s, 'number', None) is not None)
            images = sum(1 for data in self.streams[0]._images.values() if data['x_object'] is not None) if (
                self.streams) else 0
            text += f' || U fonts={fonts} streams={added} images={images}'
        return text


def text_lines(font_events):
    """The font events of each drawn line of text: [(runs, tf calls)], runs = the `add_font` calls of the line
    (key, hash, bitmap, size), tf calls = for each of them the `set_font_size` call that follows on the same stream."""
    lines, current = [], None
    for i, event in enumerate(font_events):
        if event[0] == 'page':
            current = None        # add_forms registers the fonts of the form fields before the page is painted
        elif event[0] == 'line':
            current = ([], [])
            lines.append(current)
        elif event[0] == 'add' and current is not None:
            current[0].append(event[2:])
            following = next((e for e in font_events[i + 1:] if e[1] == event[1] and e[0] != 'add'), None)
            current[1].append(following[2:] if following and following[0] == 'tf' else None)
    return [line for line in lines if line[0]]


def _items_between(recorder, lo, hi):
    """The recorded calls lo … hi-1 as `call` items, every Gradient.draw among them replaced by one `grad` item."""
    items, pos = [], lo
    for begin, end, props in recorder.gradients:
        if end <= lo or begin >= hi:
            continue
        if props is None or begin < pos or end > hi:
            raise ShapeMismatch('Gradient.draw raised, nested or across a boundary')
        items += [['call', wire_call(c)] for c in recorder.log[pos:begin]]
        rect, colour = 're', ['srgb', 'i0', 'i0', 'i0', 'i1', 'i0', 'i0', 'i0']
        if props['solid']:
            segment = recorder.log[begin:end]
            if not (len(segment) == 3 and segment[0][2] == 'tok' and segment[1][2] == 'color'):
                raise ShapeMismatch('solid gradient is not rectangle / set_color / fill')
            rect, colour = segment[0][4], pdfstream.colour_wire(segment[1][3])
        items.append(['grad', props['h'], props['solid'], props['translucent'], pdfstream.num(props['scale_y']),
                      rect, colour])
        pos = end
    items += [['call', wire_call(c)] for c in recorder.log[pos:hi]]
    return items


def background_line(recorder, mark):
    """Protocol line of `docbg`: the recorded calls with every draw_background_image replaced by one `bg` item holding
    what `layer.image.draw` did (calls and gradients), and every other Gradient.draw by a `grad` item."""
    from vlib import sx
    log = recorder.log

    def is_on(call, h, name):
        return call[0] == 'on' and call[1] == h and call[2] == name

    items, pos = [], 0
    for begin, end, props in recorder.backgrounds:
        if begin < pos:
            raise ShapeMismatch('nested draw_background_image')
        items += _items_between(recorder, pos, begin)
        h, seg = props['h'], log[begin:end]
        if props['skip']:
            if seg:
                raise ShapeMismatch('a skipped background layer made calls')
            items.append(['bg', h, [True, False, False, 're', 'i0', 'i0'], []])
        elif props['no_repeat']:
            prefix = 0 if props['unbounded'] else 3
            if not (len(seg) >= prefix + 3 and seg[prefix] == ('group', h) and seg[prefix + 1][2] == 'tr' and
                    is_on(seg[-1], h, 'dox')):
                raise ShapeMismatch('no-repeat background is not [clip] / add_group / transform / image / Do')
            rect = seg[0][4] if prefix else 're'
            tx, ty = seg[prefix + 1][7], seg[prefix + 1][8]
            items.append(['bg', h, [False, True, props['unbounded'], rect, pdfstream.num(tx), pdfstream.num(ty)],
                          _items_between(recorder, begin + prefix + 2, end - 1)])
        else:
            if not (len(seg) >= 9 and seg[0] == ('pattern', h) and seg[1][0] == 'group' and is_on(seg[2], h, 'push') and
                    is_on(seg[-1], h, 'pop') and is_on(seg[-4], h, 'scn') and seg[-3][2] == 'tok'):
                raise ShapeMismatch('repeated background is not add_pattern / add_group / stacked(image, Do, cs, scn, re, f)')
            items.append(['bg', h, [False, False, props['unbounded'], seg[-3][4], 'i0', 'i0'],
                          _items_between(recorder, begin + 3, end - 6)])
        pos = end
    items += _items_between(recorder, pos, len(log))
    return sx.line('docbg', mark, *items)


def gradient_line(recorder, mark):
    """Protocol line of `docgrad`: the recorded calls with every Gradient.draw replaced by one `grad` item."""
    from vlib import sx
    items, pos = [], 0
    for begin, end, props in recorder.gradients:
        if props is None or begin < pos:
            raise ShapeMismatch('Gradient.draw raised or nested')
        items += [['call', wire_call(c)] for c in recorder.log[pos:begin]]
        rect, colour = 're', ['srgb', 'i0', 'i0', 'i0', 'i1', 'i0', 'i0', 'i0']
        if props['solid']:
            segment = recorder.log[begin:end]
            if not (len(segment) == 3 and segment[0][2] == 'tok' and segment[1][2] == 'color'):
                raise ShapeMismatch('solid gradient is not rectangle / set_color / fill')
            rect, colour = segment[0][4], pdfstream.colour_wire(segment[1][3])
        items.append(['grad', props['h'], props['solid'], props['translucent'], pdfstream.num(props['scale_y']),
                      rect, colour])
        pos = end
    items += [['call', wire_call(c)] for c in recorder.log[pos:]]
    return sx.line('docgrad', mark, *items)


def wire_call(call):
    if call[0] == 'newpage':
        return ['newpage']
    if call[0] == 'assignsh':
        return ['assignsh', call[1], call[2]]
    if call[0] == 'on' and call[2] == 'tok':
        return ['on', call[1], 'tok', call[3], call[4]]
    return pdfstream.wire_call(call)


def check_numbers(log):
    """Alpha values must be in the range where the model's `str(float)` is Python's (few binary digits)."""
    for call in log:
        if call[0] == 'on' and call[2] in ('alpha', 'color'):
            alpha = call[3] if call[2] == 'alpha' else call[3].alpha
            if isinstance(alpha, float):
                fr = Fraction(alpha)
                if fr.denominator > 2 ** 10 or (fr != 0 and abs(fr) < Fraction(1, 1024)):
                    raise Unsupported(f'alpha {alpha!r} is not a short dyadic value')
        if call[0] == 'on' and call[2] == 'state':
            for v in call[3:5]:
                if isinstance(v, float) and Fraction(v).denominator > 2 ** 10:
                    raise Unsupported('ExtGState alpha is not a short dyadic value')


@contextlib.contextmanager
def recording():
    """Rebind the Stream class used by generate_pdf / clone, and observe draw_stacking_context and its leaves."""
    import weasyprint.draw as draw_module
    import weasyprint.pdf as pdf_module
    import weasyprint.pdf.stream as stream_module
    recorder = Recorder()
    saved = {(pdf_module, 'Stream'): pdf_module.Stream, (stream_module, 'Stream'): stream_module.Stream}
    pdf_module.Stream = recorder.cls
    stream_module.Stream = recorder.cls

    real_dsc = draw_module.draw_stacking_context
    saved[(draw_module, 'draw_stacking_context')] = real_dsc

    def draw_stacking_context(stream, stacking_context):
        recorder.tree_events.append(('ctx-begin', recorder.handle(stream), context_props(stacking_context)))
        try:
            return real_dsc(stream, stacking_context)
        finally:
            recorder.tree_events.append(('ctx-end',))
    draw_module.draw_stacking_context = draw_stacking_context

    for name in LEAVES:
        real = getattr(draw_module, name)
        saved[(draw_module, name)] = real

        def leaf(*args, _real=real, _name=name, **kwargs):
            recorder.tree_events.append(('leaf-begin', _name))
            try:
                return _real(*args, **kwargs)
            finally:
                recorder.tree_events.append(('leaf-end',))
        setattr(draw_module, name, leaf)
    # draw_background_image: its own calls are predicted by Model/BackgroundDraw from what it reads of the layer
    real_dbi = draw_module.draw_background_image
    saved[(draw_module, 'draw_background_image')] = real_dbi

    def draw_background_image(stream, layer, image_rendering):
        begin = len(recorder.log)
        props = {'h': recorder.handle(stream), 'skip': bool(layer.image is None or 0 in layer.size),
                 'no_repeat': tuple(layer.repeat) == ('no-repeat', 'no-repeat'), 'unbounded': bool(layer.unbounded)}
        try:
            return real_dbi(stream, layer, image_rendering)
        finally:
            recorder.backgrounds.append((begin, len(recorder.log), props))
    draw_module.draw_background_image = draw_background_image

    # Gradient.draw: its calls are predicted by Model/GradientDraw from what it reads of `self.layout(...)`
    import weasyprint.images as images_module
    real_gradient_draw = images_module.Gradient.draw
    saved[(images_module.Gradient, 'draw')] = real_gradient_draw

    def gradient_draw(self, stream, concrete_width, concrete_height, image_rendering):
        begin = len(recorder.log)
        try:
            scale_y, type_, _points, _positions, colors = self.layout(concrete_width, concrete_height)
            props = {'h': recorder.handle(stream), 'solid': type_ == 'solid',
                     'translucent': any(color[3] != 1 for color in colors), 'scale_y': scale_y}
        except Exception:  # noqa: BLE001 - the real call below raises the same way
            props = None
        try:
            return real_gradient_draw(self, stream, concrete_width, concrete_height, image_rendering)
        finally:
            recorder.gradients.append((begin, len(recorder.log), props))
    images_module.Gradient.draw = gradient_draw
    try:
        yield recorder
    finally:
        for (module, name), value in saved.items():
            setattr(module, name, value)


def context_props(stacking_context):
    """What `draw_stacking_context` reads of the stacking context to decide its own calls."""
    from weasyprint.formatting_structure import boxes
    box = stacking_context.box
    matrix = box.transformation_matrix
    if not matrix:
        transform = 'none'
    elif matrix.determinant:
        transform = 'regular'
    else:
        transform = 'singular'
    return {
        'tag': box.element_tag or 'none-tag',
        'root_clip': bool(box.is_for_root_element and stacking_context.page.style['overflow'] != 'visible'),
        'abs_clip': bool(box.is_absolutely_positioned() and box.style['clip']),
        'opacity': box.style['opacity'],
        'transform': transform,
        'values': list(matrix.values) if transform == 'regular' else None,
        'point2': isinstance(box, tuple(getattr(boxes, name) for name in c16src.point2_classes())),
        'clip': bool(box.style['overflow'] != 'visible' and not isinstance(box, boxes.PageBox)),
        'inline': isinstance(box, boxes.InlineBox),
    }


# ---------------------------------------------------------------------------------------------------------------
# Skeleton input: the tree of draw_stacking_context invocations with their delegated drawing as opaque calls
# ---------------------------------------------------------------------------------------------------------------

class ShapeMismatch(Exception):
    """draw_stacking_context did not call its drawing functions in the order the skeleton model assumes."""


def _parse(events, pos, log, stop):
    """Entries up to the matching `stop` event: ('call', idx) | ('leaf', name, entries) | ('ctx', h, props, entries)."""
    entries = []
    while pos < len(events):
        ev = events[pos]
        if ev[0] == stop:
            return entries, pos + 1
        if ev[0] == 'call':
            entries.append(('call', ev[1]))
            pos += 1
        elif ev[0] == 'leaf-begin':
            inner, pos = _parse(events, pos + 1, log, 'leaf-end')
            entries.append(('leaf', ev[1], inner))
        elif ev[0] == 'ctx-begin':
            inner, pos = _parse(events, pos + 1, log, 'ctx-end')
            entries.append(('ctx', ev[1], ev[2], inner))
        else:
            raise ShapeMismatch(f'unexpected {ev[0]}')
    if stop is not None:
        raise ShapeMismatch(f'missing {stop}')
    return entries, pos


def _flatten(entries, log):
    """A delegated drawing function: its calls and the stacking contexts it draws, in order."""
    items = []
    for entry in entries:
        if entry[0] == 'call':
            items.append(['call', wire_call(log[entry[1]])])
        elif entry[0] == 'leaf':
            items.extend(_flatten(entry[2], log))
        else:
            items.append(['ctx', *_ctx(entry, log)])
    return items


def _ctx(entry, log):
    _, _, props, entries = entry
    leaves = [e for e in entries if e[0] == 'leaf']
    own = [log[e[1]] for e in entries if e[0] == 'call']
    abs_clip = 'none'
    if props['abs_clip']:
        rect = [c for c in own if c[0] == 'on' and c[2] == 'tok' and c[4].endswith('_re')]
        if not rect:
            raise ShapeMismatch('clip rectangle not written')
        abs_clip = rect[0][4]
    index = 0

    def take(name):
        nonlocal index
        if index >= len(leaves) or leaves[index][1] != name:
            got = leaves[index][1] if index < len(leaves) else 'nothing'
            raise ShapeMismatch(f'expected {name}, got {got}')
        index += 1
        return leaves[index - 1]

    root_clip_box = _flatten(take('rounded_box')[2], log) if props['root_clip'] else []
    pre, clip_box, inner, post = [], [], [], []
    if props['transform'] != 'singular':
        if props['point2']:
            for name in ('set_mask_border', 'draw_background', 'draw_border'):
                pre.extend(_flatten(take(name)[2], log))
        if props['clip']:
            clip_box = _flatten(take('rounded_box')[2], log)
        if not leaves or leaves[-1][1] != 'draw_outline':
            raise ShapeMismatch('draw_outline is not the last drawing call')
        post = _flatten(leaves[-1][2], log)
        first, last = (entries.index(leaves[index - 1]) + 1 if index else 0), entries.index(leaves[-1])
        for e in entries[first:last]:
            if e[0] == 'leaf':
                inner.extend(_flatten(e[2], log))
            elif e[0] == 'ctx':
                inner.append(['ctx', *_ctx(e, log)])
            else:
                call = log[e[1]]
                # point 7: begin_marked_content(block, mcid=True) … end_marked_content() for blocks other than `box`
                if call[0] == 'on' and call[2] in ('bm', 'em') and (call[2] == 'em' or _is_inner_bm(entries, e, log)):
                    inner.append(['cur', *wire_call(call)[2:]])
    elif len(leaves) != index:
        raise ShapeMismatch('drawing after a singular transform')
    if props['transform'] == 'regular':
        transform = [pdfstream.num(v) for v in props['values']]
    else:
        transform = props['transform']
    wire_props = [props['tag'], props['root_clip'], abs_clip, pdfstream.num(props['opacity']), transform, props['clip']]
    return wire_props, root_clip_box, pre, clip_box, inner, post


def _is_inner_bm(entries, entry, log):
    """Is this own `bm` call not the first own `bm` call (which is the context's own marked content)?"""
    for e in entries:
        if e[0] == 'call' and log[e[1]][0] == 'on' and log[e[1]][2] == 'bm':
            return e is not entry
    return False


def skeleton_line(recorder, mark):
    """Protocol line of the `skeleton` command for everything logged during one write_pdf."""
    from vlib import sx
    entries, _ = _parse(recorder.tree_events, 0, recorder.log, None)
    items = []
    for entry in entries:
        if entry[0] == 'call':
            items.append(['call', wire_call(recorder.log[entry[1]])])
        elif entry[0] == 'leaf':
            items.extend(_flatten(entry[2], recorder.log))
        else:
            items.append(['ctxon', entry[1], *_ctx(entry, recorder.log)])
    return sx.line('skeleton', mark, *items)
