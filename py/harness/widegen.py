"""Wide-grammar document generator for trace validation (C01 / C02 / C03).

Every generated word is globally unique (`w<N>`). The generator returns the HTML together with the
*groups*: for each leaf text container, the list of its word numbers in DOM order and a kind:
  flow   in normal flow (possibly inside tables / columns / flex / grid): exactly once, in order
  oof    inside a float, an absolutely positioned box or a footnote: exactly once, in order
  rep    CSS asks to repeat it (table header/footer group, position: fixed, running element)
  drop   CSS asks to drop it (display: none)
"""
from fractions import Fraction

BREAKS = ['auto', 'auto', 'avoid', 'page', 'left', 'right', 'recto', 'verso', 'always', 'avoid-page']


class Gen:
    def __init__(self, rng, features=None, adversarial=False):
        self.rng = rng
        self.adversarial = adversarial
        self.word = 0
        self.groups = []
        self.features = set()
        self.allowed = features
        self.stack = []          # enclosing container kinds of the text being generated

    def inside(self, name, fn):
        self.stack.append(name)
        try:
            return fn()
        finally:
            self.stack.pop()

    def allow(self, name):
        return self.allowed is None or name in self.allowed

    def words(self, kind, count=None):
        rng = self.rng
        count = count or rng.choice([1, 2, 3, 5, 8, 13, 21])
        ids = []
        for _ in range(count):
            self.word += 1
            ids.append(self.word)
        self.groups.append({'kind': kind, 'words': ids, 'ctx': sorted(set(self.stack))})
        return ids

    def inline_text(self, kind, count=None):
        """Words with some inline markup."""
        rng = self.rng
        ids = self.words(kind, count)
        out = []
        i = 0
        while i < len(ids):
            n = rng.choice([1, 1, 2, 3])
            chunk = ' '.join(f'w{j}' for j in ids[i:i + n])
            r = rng.random()
            if r < 0.15:
                self.features.add('inline-markup')
                chunk = f'<b style="padding:0 {rng.choice([0, 1, 2])}px">{chunk}</b>'
            elif r < 0.25:
                chunk = f'<span style="border:1px solid;margin:0 1px">{chunk}</span>'
            elif r < 0.3:
                chunk += '<br>'
            out.append(chunk)
            i += n
        return ' '.join(out)

    def block_style(self):
        rng = self.rng
        parts = []
        if rng.random() < 0.3:
            parts.append(f'margin:{rng.choice([0, 2, 4, 8])}px 0')
        if rng.random() < 0.2:
            parts.append(f'padding:{rng.choice([1, 2, 4])}px')
        if rng.random() < 0.15:
            parts.append(f'border:{rng.choice([1, 2])}px solid')
        if self.allow('breaks') and rng.random() < 0.15:
            self.features.add('breaks')
            parts.append(f'break-{rng.choice(["before", "after"])}:{rng.choice(BREAKS)}')
        if self.allow('breaks') and rng.random() < 0.08:
            parts.append('break-inside:avoid')
        if rng.random() < 0.15:
            parts.append(f'orphans:{rng.choice([1, 2, 3, 4])};widows:{rng.choice([1, 2, 3, 4])}')
        if rng.random() < 0.05:
            parts.append('box-decoration-break:clone')
        if self.adversarial and rng.random() < 0.12:
            # adversarial-but-legal sizes (C02): zero, tiny, huge, negative margins
            parts.append(rng.choice(['height:0', 'width:0', 'height:1px', 'width:1px', 'width:5000px',
                                     'margin-top:-30px', 'margin-left:-500px', 'min-height:3000px',
                                     'max-width:0', 'padding:300px', 'font-size:0', 'line-height:0']))
        if rng.random() < 0.06:
            # tall decoration: pushes what follows close to (or beyond) the bottom of the page
            parts.append(f'padding-bottom:{rng.choice([15, 30, 55, 85, 140])}px')
        return ';'.join(parts)

    def paragraph(self, kind='flow'):
        return f'<p style="{self.block_style()}">{self.inline_text(kind)}</p>'

    def flow(self, depth, kind='flow', budget=None):
        """A sequence of block-level things."""
        rng = self.rng
        out = []
        for _ in range(rng.choice([1, 2, 2, 3, 4]) if budget is None else budget):
            r = rng.random()
            if depth >= 3 or r < 0.4:
                out.append(self.paragraph(kind))
            elif r < 0.55:
                out.append(f'<div style="{self.block_style()}">{self.flow(depth + 1, kind)}</div>')
            elif r < 0.62 and self.allow('list'):
                self.features.add('list')
                tag = rng.choice(['ul', 'ol'])
                items = ''.join(f'<li>{self.inline_text(kind)}</li>' for _ in range(rng.choice([1, 2, 4])))
                out.append(f'<{tag}>{items}</{tag}>')
            elif r < 0.72 and self.allow('table') and kind == 'flow':
                out.append(self.table(depth))
            elif r < 0.78 and self.allow('columns') and kind == 'flow' and depth == 0:
                self.features.add('columns')
                def column_content():
                    parts = [self.flow(depth + 2, kind)]
                    if rng.random() < 0.4:
                        self.features.add('column-span')
                        parts.append(f'<p style="column-span:all;{self.block_style()}">'
                                     f'{self.inline_text(kind, rng.choice([1, 2, 4]))}</p>')
                        parts.append(self.flow(depth + 2, kind))
                    return ''.join(parts)
                inner = self.inside('columns', column_content)
                out.append(f'<div style="columns:{rng.choice([2, 3])};column-gap:4px">{inner}</div>')
            elif r < 0.84 and self.allow('flex') and kind == 'flow':
                self.features.add('flex')
                direction = rng.choice(['row', 'column'])
                items = self.inside('flex', lambda: ''.join(
                    f'<div style="flex:1">{self.paragraph(kind)}</div>' for _ in range(rng.choice([1, 2, 3]))))
                out.append(f'<div style="display:flex;flex-direction:{direction}">{items}</div>')
            elif r < 0.88 and self.allow('grid') and kind == 'flow':
                self.features.add('grid')
                items = self.inside('grid', lambda: ''.join(
                    f'<div>{self.paragraph(kind)}</div>' for _ in range(rng.choice([2, 3, 4]))))
                out.append(f'<div style="display:grid;grid-template-columns:1fr 1fr">{items}</div>')
            elif r < 0.93 and self.allow('float') and kind == 'flow':
                self.features.add('float')
                side = rng.choice(['left', 'right'])
                inner = self.inside('float', lambda: self.paragraph('oof'))
                extra = ''
                if self.adversarial and rng.random() < 0.3:
                    extra = rng.choice([';height:0', ';height:0;overflow:hidden', ';width:0', ';clear:both'])
                    if rng.random() < 0.5:
                        out.append(f'<div style="float:{side};width:{rng.choice([30, 60])}px;height:0"></div>')
                if rng.random() < 0.25:
                    extra += f';height:{rng.choice([20, 40, 90])}px'
                out.append(f'<div style="float:{side};width:{rng.choice([30, 50, 80])}px{extra}">{inner}</div>')
                out.append(self.paragraph(kind))
            elif r < 0.96 and self.allow('positioned') and kind == 'flow':
                self.features.add('positioned')
                pos = rng.choice(['relative', 'absolute', 'fixed'])
                k = {'relative': kind, 'absolute': 'oof', 'fixed': 'rep'}[pos]
                inner = self.inside(pos, lambda: self.paragraph(k))
                out.append(f'<div style="position:{pos};top:{rng.choice([0, 5, 20])}px;left:2px;width:60px">'
                           f'{inner}</div>')
            elif r < 0.98 and self.allow('footnote') and kind == 'flow':
                self.features.add('footnote')
                note = self.inside('footnote', lambda: ' '.join(
                    f'w{j}' for j in self.words('oof', rng.choice([1, 2, 4]))))
                out.append(f'<p>{self.inline_text(kind, 3)}<span style="float:footnote">{note}</span>'
                           f' {self.inline_text(kind, 2)}</p>')
            elif self.allow('none'):
                self.features.add('display-none')
                out.append(f'<div style="display:none">{self.inline_text("drop", 2)}</div>')
            else:
                out.append(self.paragraph(kind))
            if rng.random() < 0.06 and self.allow('fixed-block') and not self.adversarial:
                # an unbreakable block: empty, definite height, top padding / border (no text: nothing to conserve)
                self.features.add('fixed-block')
                out.append(f'<div style="height:{rng.choice([5, 10, 30])}px;padding-top:{rng.choice([0, 4, 8])}px;'
                           f'border-top:{rng.choice([0, 2])}px solid;margin:{rng.choice([0, 3])}px 0"></div>')
        return ''.join(out)

    def table(self, depth):
        return self.inside('table', lambda: self._table(depth))

    def _table(self, depth):
        rng = self.rng
        self.features.add('table')
        cols = rng.choice([1, 2, 3])
        head = foot = ''
        if rng.random() < 0.5:
            self.features.add('table-head-foot')
            head = '<thead><tr>' + ''.join(f'<th>{self.inline_text("rep", 1)}</th>' for _ in range(cols)) + '</tr></thead>'
        if rng.random() < 0.3:
            foot = '<tfoot><tr>' + ''.join(f'<td>{self.inline_text("rep", 1)}</td>' for _ in range(cols)) + '</tr></tfoot>'
        rows = []
        empty_table = self.adversarial and rng.random() < 0.25
        spans = rng.random() < 0.35
        carry = {}
        if spans:
            self.features.add('table-spans')
        for _ in range(rng.choice([1, 2, 4, 8, 16])):
            if empty_table:
                cells = ''.join(f'<td style="width:{rng.choice([0, 0, 10])}px;padding:0"></td>' for _ in range(cols))
            elif spans and cols >= 2:
                # colspan / rowspan: a cell after a spanning one has a grid column different from its index
                parts, col = [], 0
                while col < cols:
                    if carry.get(col, 0) > 0:
                        carry[col] -= 1
                        col += 1
                        continue
                    attrs, width = '', 1
                    r = rng.random()
                    if r < 0.25 and col + 1 < cols and carry.get(col + 1, 0) == 0:
                        attrs, width = ' colspan="2"', 2
                    elif r < 0.4:
                        attrs = ' rowspan="2"'
                        carry[col] = 1
                    parts.append(f'<td{attrs}>{self.inline_text("flow", rng.choice([1, 3, 6]))}</td>')
                    col += width
                cells = ''.join(parts)
            else:
                cells = ''.join(f'<td>{self.inline_text("flow", rng.choice([1, 2, 3]))}</td>' for _ in range(cols))
            rows.append(f'<tr>{cells}</tr>')
        collapse = 'border-collapse:collapse;' if rng.random() < 0.3 else ''
        if empty_table:
            collapse += f'width:{rng.choice([80, 200])}px;'
        return (f'<table style="{collapse}border-spacing:1px">{head}{foot}<tbody>{"".join(rows)}</tbody></table>')


def columns_focus(g, rng, height, line):
    """A multi-column container at the top of the document whose spanning block leaves 0..2 lines of room."""
    g.features.update({'columns', 'column-span'})

    def content():
        parts = []
        if rng.random() < 0.4:
            parts.append(g.paragraph('flow'))
        room = rng.choice([0, line // 2, line, 2 * line])
        pad = max(0, height - line - room)
        parts.append(f'<p style="column-span:all;margin:0;padding-bottom:{pad}px">{g.inline_text("flow", 1)}</p>')
        parts.append(''.join(g.paragraph('flow') for _ in range(rng.choice([1, 2, 3]))))
        return ''.join(parts)
    inner = g.inside('columns', content)
    return f'<div style="columns:{rng.choice([2, 3])};column-gap:0">{inner}</div>'


def gen(rng, features=None, focus=None, adversarial=False):
    """Return dict(html, groups, page=(w, h), features)."""
    g = Gen(rng, features, adversarial)
    font = rng.choice([4, 6, 8, 10])
    line = font + rng.choice([0, 2])
    width = rng.choice([60, 100, 160, 240])
    height = rng.choice([line, 2 * line + 1, 40, 60, 100, 200])
    margin = rng.choice([0, 0, 2, 5])
    if focus == 'columns':
        height = rng.choice([40, 60, 100])
        body = columns_focus(g, rng, height - 2 * margin, line) + g.flow(0, budget=1)
    else:
        body = g.flow(0)
    html = (f'<html><head><style>@page{{size:{width}px {height}px;margin:{margin}px}}'
            f'html,body{{margin:0}}body{{font-size:{font}px;line-height:{line}px}}'
            f'p,ul,ol{{margin:0}}td,th{{padding:0;border:1px solid}}</style></head><body>{body}</body></html>')
    return {'html': html, 'groups': g.groups, 'page': (width, height, margin), 'features': sorted(g.features)}


def page_words(document):
    """Per page, the word numbers in box-tree order."""
    import re
    from weasyprint.formatting_structure import boxes
    out = []
    for page in document.pages:
        words = []
        for box in page._page_box.descendants(placeholders=True):
            if isinstance(box, boxes.TextBox):
                words.extend(int(m) for m in re.findall(r'w(\d+)', box.text))
        out.append(words)
    return out
