"""C15 helpers, target-text() half: generated documents whose `::after` boxes print
`target-text(attr(href) | "#id", content|before|after|first-letter)` of earlier, later, enclosing, hidden and
missing elements; the abstract tree read from the real computed styles and the lxml tree; the texts of the
`::after` boxes read from the real `build_formatting_structure`."""
from harness import c15_dom as D
from harness import c15_styles as S
from vlib import sx

WORDS = ['ab', 'Cd', '(x)y', '"q"z', 'e f', ' g', 'h ', '¡hola', '«k»', '...m', 'n', '']
MODES = ['content', 'before', 'after', 'first-letter']


def gen_document(rng):
    ids = [f't{i}' for i in range(5)]
    free = list(ids)
    rng.shuffle(free)
    rules = ['* { white-space: pre }', 'li, ol, ul { display: block }']
    for k in range(4):
        decls = []
        if rng.random() < 0.12:
            decls.append('display: none')
        rules.append(f'.k{k} {{ ' + '; '.join(decls) + ' }')
        if rng.random() < 0.6:
            rules.append(f'.k{k}::before {{ content: "{rng.choice(["B", "(b)", "b ", ""])}{k}" }}')
        if rng.random() < 0.35:
            rules.append(f'.k{k}::after {{ content: "{rng.choice(["A", " a", ""])}{k}" }}')
    for k in range(3):
        items = []
        for _ in range(rng.choice([1, 1, 2, 3])):
            r = rng.random()
            if r < 0.25:
                items.append('"' + rng.choice(['[', ']', '|', ' ']) + '"')
            else:
                mode = rng.choice(MODES + ['content', ''])
                target = 'attr(href)' if rng.random() < 0.7 else '"#' + rng.choice(ids + ['nowhere']) + '"'
                items.append(f'target-text({target}{", " + mode if mode else ""})')
        rules.append(f'.r{k}::after {{ content: {" ".join(items)} }}')
    budget = [rng.choice([5, 10, 18])]

    def tree(depth):
        if budget[0] <= 0:
            return ''
        budget[0] -= 1
        if rng.random() < 0.35:
            href = rng.choice(ids + ['nowhere'])
            ident = f' id="{free.pop()}"' if free and rng.random() < 0.15 else ''
            return (f'<a class="r{rng.randrange(3)}" href="#{href}"{ident}>{rng.choice(WORDS)}</a>'
                    f'{rng.choice(["", "", " ", "w"])}')
        tag = rng.choice(['div', 'p', 'span', 'h1', 'section'])
        attrs = ''
        if rng.random() < 0.6:
            attrs += f' class="k{rng.randrange(4)}"'
        if free and rng.random() < 0.5:
            attrs += f' id="{free.pop() if rng.random() < 0.85 else rng.choice(ids)}"'
        kids = ''.join(tree(depth - 1) for _ in range(rng.choice([0, 1, 2, 3]))) if depth else ''
        return f'<{tag}{attrs}>{rng.choice(WORDS)}{kids}</{tag}>{rng.choice(["", "", "t", " "])}'

    body = ''.join(tree(rng.choice([2, 3])) for _ in range(rng.choice([2, 3, 4])))
    return f'<html><head><style>{" ".join(rules)}</style></head><body>{body}</body></html>'


class Unsupported(Exception):
    pass


def abstract(style_for, root):
    """-> (wire tree, {element: id}); ids are preorder numbers."""
    from weasyprint.css.targets import anchor_name_from_token
    ids = {}

    def pseudo_text(element, pseudo):
        style = style_for(element, pseudo)
        if style is None or style['display'] == ('none',) or style['content'] in ('normal', 'inhibit', 'none'):
            return None
        return style['content']

    def walk(element):
        ids[element] = len(ids)
        style = style_for(element)
        if 'list-item' in style['display'] or style['float'] != 'none':
            raise Unsupported('display')
        if style['white_space'] != 'pre' or style['text_transform'] != 'none':
            raise Unsupported('white-space')
        text = element.text or ''
        tail = element.tail or ''
        if any(ord(c) >= 0x250 or c in '\n\t\r\f\v' for c in text + tail):
            raise Unsupported('text')
        before = pseudo_text(element, 'before')
        if before is not None:
            if any(t != 'string' for t, _ in before):
                raise Unsupported('before content')
            before = S.enc(''.join(v for _, v in before))
        after = pseudo_text(element, 'after')
        if after is not None:
            items = []
            for type_, value in after:
                if type_ == 'string':
                    items.append(['str', S.enc(value)])
                elif type_ == 'target-text()':
                    items.append(['ref', S.enc(anchor_name_from_token(value[0]) or ''), value[1]])
                else:
                    raise Unsupported(type_)
            after = items
        kids = [walk(child) for child in element if isinstance(child.tag, str)]
        if any(not isinstance(child.tag, str) for child in element):
            raise Unsupported('comment')
        anchor = style['anchor']
        return [ids[element], style['display'] != ('none',), S.enc(anchor) if anchor else 'none', S.enc(text),
                'none' if before is None else before, 'none' if after is None else after, kids, S.enc(tail)]
    return walk(root), ids


def after_texts(root_box, ids):
    from weasyprint.formatting_structure import boxes
    out = {}

    def text_of(box):
        if isinstance(box, boxes.TextBox):
            return box.text
        if isinstance(box, boxes.ParentBox):
            return ''.join(text_of(child) for child in box.children)
        return ''

    def walk(box):
        tag = box.element_tag or ''
        if tag.endswith('::after'):
            out[ids[box.element]] = out.get(ids[box.element], '') + text_of(box)
            return
        if isinstance(box, boxes.ParentBox):
            for child in box.children:
                walk(child)
    walk(root_box)
    return out


def text_case(html_text):
    from weasyprint.formatting_structure.build import build_formatting_structure
    html, context, counter_style = D.build(html_text)
    try:
        tree, ids = abstract(context.style_for, html.etree_element)
    except Unsupported:
        return None
    line = sx.line('tt', tree)
    try:
        root_box = build_formatting_structure(
            html.etree_element, context.style_for, context.get_image_from_uri, html.base_url,
            context.target_collector, counter_style, context.footnotes)
        texts = after_texts(root_box, ids)
        out = ' '.join(['ok'] + [f'({k} {S.enc(texts[k])})' for k in sorted(texts)])
    except Exception as exc:  # noqa: BLE001
        texts, out = None, f'err:{type(exc).__name__}'
    return {'line': line, 'impl': out, 'texts': texts, 'tree': tree}
