"""C13: the property clauses stated directly in Python, on (protocol line, implementation output).

Used only to *judge* a model/implementation disagreement and to *search* for a concrete failing input
after something broke — never as the check itself.  Each oracle is an independent statement of the
CSS rule (CSS 2.1 10.3.2 / 10.6.2 / 10.4, css-images-3 §4/§5, css-backgrounds-3 §3) restricted to the
domain where the rule is unambiguous (positive sizes, positive consistent ratio, min <= max …);
outside that domain it says nothing (`None`).
"""
from fractions import Fraction
import math

from vlib import sx

INF = math.inf


# ---------------------------------------------------------------------------------------------
# parsing

def val(a):
    if isinstance(a, list):
        return [val(x) for x in a]
    if a == 'none':
        return None
    if a in ('auto', 'true', 'false', 'inf'):
        return {'auto': 'auto', 'true': True, 'false': False, 'inf': INF}[a]
    try:
        return Fraction(a)
    except (ValueError, ZeroDivisionError):
        return a


def parse(line):
    items = sx.loads_line(line)
    return items[0], [val(x) for x in items[1:]]


def numbers(text):
    """'ok a b c' -> [Fraction…] (None when the output is not `ok …` or holds non-numbers)."""
    if not text.startswith('ok '):
        return None
    out = []
    for tok in text[3:].replace('(', ' ').replace(')', ' ').split():
        v = val(tok)
        out.append(v)
    return out


def pos(x):
    return isinstance(x, Fraction) and x > 0


# ---------------------------------------------------------------------------------------------
# css-images-3: concrete object size

def ref_contain(cw, ch, r, cover=False):
    if r is None:
        return cw, ch
    wide = cw > ch * r          # the constraint box is wider than the image
    if wide != cover:
        return ch * r, ch
    return cw, cw / r


def consistent(intr):
    iw, ih, r = intr
    if r is not None and not pos(r):
        return False
    for v in (iw, ih):
        if v is not None and not pos(v):
            return False
    if iw is not None and ih is not None and r is not None and iw / ih != r:
        return False
    return True


def ref_default_sizing(intr, sw, sh, dw, dh):
    iw, ih, r = intr
    sw = None if sw == 'auto' else sw
    sh = None if sh == 'auto' else sh
    if sw is not None and sh is not None:
        return sw, sh
    if sw is not None:
        return sw, (sw / r if r is not None else ih if ih is not None else dh)
    if sh is not None:
        return (sh * r if r is not None else iw if iw is not None else dw), sh
    if iw is not None or ih is not None:
        return ref_default_sizing(intr, iw, ih, dw, dh)
    return ref_contain(dw, dh, r)


def oracle_dis(args, out):
    intr, sw, sh, dw, dh = args
    if not consistent(intr) or any(isinstance(v, Fraction) and v < 0 for v in (sw, sh, dw, dh)):
        return None
    if out.startswith('err'):
        return f'default_image_sizing raised {out[4:]} for a positive ratio'
    want = ref_default_sizing(intr, sw, sh, dw, dh)
    got = numbers(out)
    if tuple(got) != tuple(want):
        return f'default_image_sizing{tuple(map(str, intr))} specified=({sw},{sh}) default=({dw},{dh}): ' \
               f'concrete size {tuple(map(str, got))}, css-images-3 §4.3 gives {tuple(map(str, want))}'
    return None


def oracle_constraint(args, out):
    cw, ch, r, cover = args
    if (r is not None and not pos(r)) or cw < 0 or ch < 0:
        return None
    if out.startswith('err'):
        return f'{"cover" if cover else "contain"} constraint raised {out[4:]}'
    w, h = numbers(out)
    name = 'cover' if cover else 'contain'
    if r is None:
        return None if (w, h) == (cw, ch) else f'{name} without ratio must be the constraint rectangle'
    if w != h * r:
        return f'{name}({cw},{ch}) ratio {r}: result {w}x{h} loses the ratio'
    if not (w == cw or h == ch):
        return f'{name}({cw},{ch}) ratio {r}: result {w}x{h} touches neither side'
    if cover and not (w >= cw and h >= ch):
        return f'cover({cw},{ch}) ratio {r}: result {w}x{h} does not cover the rectangle'
    if not cover and not (w <= cw and h <= ch):
        return f'contain({cw},{ch}) ratio {r}: result {w}x{h} exceeds the rectangle'
    return None


# ---------------------------------------------------------------------------------------------
# object-fit / object-position

GEOM = ('x', 'y', 'mt', 'mr', 'mb', 'ml', 'bt', 'br', 'bb', 'bl', 'pt', 'pr', 'pb', 'pl', 'w', 'h')


def geom(values):
    return dict(zip(GEOM, values))


def ref_place(far, d, ref):
    unit, v = d
    p = v if unit == 'px' else ref * v / 100
    return ref - p if far else p


def ref_object_fit(g, fit, position, intr):
    """-> (dw, dh, x, y) or None outside the domain."""
    iw, ih, r = intr
    w, h = g['w'], g['h']
    if iw is None or ih is None:
        iw, ih = ref_contain(w, h, r)
    if fit == 'fill':
        dw, dh = w, h
    elif fit == 'contain':
        dw, dh = ref_contain(w, h, r)
    elif fit == 'cover':
        dw, dh = ref_contain(w, h, r, cover=True)
    elif fit == 'none':
        dw, dh = iw, ih
    elif fit == 'scale-down':
        cw, ch = ref_contain(w, h, r)
        dw, dh = min(cw, iw), min(ch, ih)
    else:
        return None
    fr, xd, fb, yd = position
    x = g['x'] + g['ml'] + g['pl'] + g['bl'] + ref_place(fr, xd, w - dw)
    y = g['y'] + g['mt'] + g['pt'] + g['bt'] + ref_place(fb, yd, h - dh)
    return dw, dh, x, y


def oracle_rlayout(args, out):
    g, fit, position, intr = args
    fit = 'none' if fit is None else fit
    g = geom(g)
    if not consistent(intr) or g['w'] < 0 or g['h'] < 0:
        return None
    want = ref_object_fit(g, fit, position, intr)
    if want is None:
        return None
    if out.startswith('err'):
        return f'replacedbox_layout raised {out[4:]} (object-fit:{fit})'
    got = tuple(numbers(out))
    if got != tuple(want):
        return (f'object-fit:{fit} object-position {position} in a {g["w"]}x{g["h"]} content box, intrinsic '
                f'{tuple(map(str, intr))}: painted rectangle (w,h,x,y)={tuple(map(str, got))}, '
                f'css-images-3 §5.5 gives {tuple(map(str, want))}')
    return None


# ---------------------------------------------------------------------------------------------
# CSS 2.1 10.3.2 / 10.6.2 / 10.4: used width and height

RBOX = ('width', 'height', 'ml', 'mr', 'mt', 'mb', 'pl', 'pr', 'bl', 'br', 'minw', 'maxw', 'minh', 'maxh', 'px',
        'col')


def rbox(values):
    return dict(zip(RBOX, values))


def ref_min_max_table(w, h, minw, minh, maxw, maxh):
    """The table of CSS 2.1 10.4 (w, h > 0)."""
    maxw, maxh = max(minw, maxw), max(minh, maxh)
    if w > maxw and h > maxh:
        if maxw / w <= maxh / h:
            return maxw, max(minh, maxw * h / w)
        return max(minw, maxh * w / h), maxh
    if w < minw and h < minh:
        if minw / w <= minh / h:
            return min(maxw, minh * w / h), minh
        return minw, min(maxh, minw * h / w)
    if w < minw and h > maxh:
        return minw, maxh
    if w > maxw and h < minh:
        return maxw, minh
    if w > maxw:
        return maxw, max(maxw * h / w, minh)
    if w < minw:
        return minw, min(minw * h / w, maxh)
    if h > maxh:
        return max(maxh * w / h, minw), maxh
    if h < minh:
        return min(minh * w / h, maxw), minh
    return w, h


def clamp(x, lo, hi):
    return max(lo, min(x, hi)) if lo <= hi else lo


def ref_used_size(b, intr, cbw, style_auto, block):
    """Used (width, height) by CSS 2.1 10.3.2/10.3.4 + 10.6.2 + 10.4 / 10.7; None outside the domain."""
    iw, ih, r = intr
    w, h = b['width'], b['height']
    if any(isinstance(v, Fraction) and v < 0 for v in (w, h, b['minw'], b['minh'], b['maxw'], b['maxh'])):
        return None
    both = w == 'auto' and h == 'auto'
    if style_auto != both:
        return None                       # percentage height on an auto-height block: not judged
    margins = sum(0 if b[k] == 'auto' else b[k] for k in ('ml', 'mr'))
    pb = b['pl'] + b['pr'] + b['bl'] + b['br']

    def width_of(hval):
        if both:
            if iw is not None:
                return iw
            if r is not None and ih is not None:
                return ih * r
            if r is not None:
                avail = cbw - margins - pb
                return clamp(avail, b['minw'], b['maxw'])     # 10.3.3 equation, then 10.4 on that box
            return Fraction(300)
        if w != 'auto':
            return w
        if r is not None:
            return hval * r
        return iw if iw is not None else Fraction(300)

    def height_of(wval):
        if h != 'auto':
            return h
        if r is not None:
            return wval / r
        return ih if ih is not None else Fraction(150)

    if both:
        tw = width_of(None)
        th = height_of(tw)
        if iw is not None and ih is not None and r is None:
            th = ih
        if not (pos(tw) and pos(th)):
            return None
        return ref_min_max_table(tw, th, b['minw'], b['minh'], b['maxw'], b['maxh'])
    # a specified dimension: 10.4 / 10.7 clamp each axis, the auto one follows the used other one
    if w != 'auto':
        uw = clamp(w, b['minw'], b['maxw'])
        uh = clamp(height_of(uw), b['minh'], b['maxh'])
        return uw, uh
    # width auto, height specified
    uw = clamp(width_of(h), b['minw'], b['maxw'])
    uh = clamp(h, b['minh'], b['maxh'])
    return uw, uh


def _judge_used_size(name, b, intr, cb, style_auto, out, block=False):
    if not consistent(intr):
        return None
    want = ref_used_size(b, intr, cb[0], style_auto, block)
    if want is None:
        return None
    if out.startswith('err'):
        return f'{name} raised {out[4:]} on width={b["width"]} height={b["height"]} intrinsic={tuple(map(str, intr))}'
    got = numbers(out)
    if got is None or len(got) < 2:
        return None
    if (got[0], got[1]) != tuple(want):
        return (f'{name}: width={b["width"]} height={b["height"]} min=({b["minw"]},{b["minh"]}) '
                f'max=({b["maxw"]},{b["maxh"]}) intrinsic={tuple(map(str, intr))} containing block {cb[0]}: used size '
                f'{got[0]}x{got[1]}, CSS 2.1 10.3.2/10.6.2/10.4 give {want[0]}x{want[1]}')
    return None


def oracle_irwh(args, out, name='inline_replaced_box_width_height'):
    style_auto, intr, cb, b = args
    return _judge_used_size(name, rbox(b), intr, cb, style_auto, out)


def oracle_brl(args, out):
    style_auto, intr, cb, cx, py, b = args
    b = rbox(b)
    what = _judge_used_size('block_replaced_box_layout', b, intr, cb, style_auto, out, block=True)
    if what or out.startswith('err'):
        return what
    got = numbers(out)
    # width, height, ml, mr, mt, mb, posx, 'at', x, y
    nums = [v for v in got if isinstance(v, Fraction)]
    if len(nums) < 9 or not consistent(intr):
        return None
    w, _, ml, mr = nums[0], nums[1], nums[2], nums[3]
    pb = b['pl'] + b['pr'] + b['bl'] + b['br']
    over = b['ml'] != 'auto' and b['mr'] != 'auto'
    if not over and ml + mr + pb + w != cb[0] and ml + mr + pb + w <= cb[0]:
        return f'block replaced box: margin-left {ml} + width {w} + margin-right {mr} + padding/border {pb} != {cb[0]}'
    # CSS 2.1 10.3.3 / 10.3.4 (proved for the model: Props/C13 used_margins_spec, doc_block_image_margins): a given
    # margin is kept; two auto margins of a box that fits are equal and not negative (the image is centred); the
    # margin box starts at the content edge of an ltr containing block and ends at the far edge of an rtl one
    if len(nums) < 8:
        return None
    x = nums[7]
    fits = pb + w + (0 if b['ml'] == 'auto' else b['ml']) + (0 if b['mr'] == 'auto' else b['mr']) <= cb[0]
    for name, given, used in (('left', b['ml'], ml), ('right', b['mr'], mr)):
        if given != 'auto' and used != given:
            return f'block replaced box: margin-{name} {given} became {used}'
        if given == 'auto' and (used < 0 if fits else used != 0):
            return f'block replaced box: auto margin-{name} resolved to {used} ({"fits" if fits else "overflows"})'
    if fits and b['ml'] == 'auto' and b['mr'] == 'auto' and ml != mr:
        return f'block replaced box with margin: auto is not centred: margin-left {ml}, margin-right {mr}'
    if cb[1] is True:
        if x + ml + pb + w + mr != cx + cb[0]:
            return (f'block replaced box in an rtl containing block [{cx}, {cx + cb[0]}]: margin box '
                    f'[{x}, {x + ml + pb + w + mr}] does not end at the right content edge')
    elif x != cx:
        return f'block replaced box in an ltr containing block: margin box starts at {x}, the content edge is {cx}'
    return None


def oracle_absrep(args, out):
    style_auto, intr, cbx, cby, cbw, cbh, b = args
    return _judge_used_size('absolute_replaced', rbox(b), intr, [cbw, False], style_auto, out)


def oracle_mmar(args, out):
    b = rbox(args[0])
    w, h = b['width'], b['height']
    if not (pos(w) and pos(h)) or b['minw'] < 0 or b['minh'] < 0 or b['maxw'] < 0 or b['maxh'] < 0:
        return None
    if out.startswith('err'):
        return f'min_max_auto_replaced raised {out[4:]} on {w}x{h}'
    got = numbers(out)
    want = ref_min_max_table(w, h, b['minw'], b['minh'], b['maxw'], b['maxh'])
    if (got[0], got[1]) != tuple(want):
        return (f'min_max_auto_replaced: {w}x{h} min=({b["minw"]},{b["minh"]}) max=({b["maxw"]},{b["maxh"]}) -> '
                f'{got[0]}x{got[1]}, the table of CSS 2.1 10.4 gives {want[0]}x{want[1]}')
    return None


def oracle_decorated_width(args, out, name):
    """replaced_box_width / block_replaced_width: result within [min, max(min, max)] and, for an
    auto width with a ratio and a given height, width = height * ratio before clamping."""
    intr, cb, b = args
    b = rbox(b)
    if not consistent(intr) or b['minw'] < 0 or (isinstance(b['maxw'], Fraction) and b['maxw'] < 0):
        return None
    if out.startswith('err'):
        return f'{name} raised {out[4:]}'
    w = numbers(out)[0]
    hi = max(b['minw'], b['maxw'])
    if not (b['minw'] <= w <= hi):
        return f'{name}: used width {w} outside [{b["minw"]}, {hi}]'
    iw, ih, r = intr
    if b['width'] == 'auto' and isinstance(b['height'], Fraction) and b['height'] >= 0 and r is not None:
        want = clamp(b['height'] * r, b['minw'], b['maxw'])
        if w != want:
            return f'{name}: width auto, height {b["height"]}, ratio {r}: used width {w}, expected {want}'
    if isinstance(b['width'], Fraction) and b['width'] >= 0:
        want = clamp(b['width'], b['minw'], b['maxw'])
        if w != want:
            return f'{name}: specified width {b["width"]} -> {w}, expected {want}'
    return None


def oracle_rbh(args, out):
    intr, b = args
    b = rbox(b)
    if not consistent(intr) or b['width'] == 'auto' or b['minh'] < 0 or b['width'] < 0:
        return None
    if isinstance(b['maxh'], Fraction) and b['maxh'] < 0:
        return None
    if out.startswith('err'):
        return f'replaced_box_height raised {out[4:]}'
    h = numbers(out)[1]
    iw, ih, r = intr
    if b['height'] == 'auto':
        t = b['width'] / r if r is not None else ih if ih is not None else Fraction(150)
    elif b['height'] >= 0:
        t = b['height']
    else:
        return None
    want = clamp(t, b['minh'], b['maxh'])
    if h != want:
        return f'replaced_box_height: width {b["width"]} height {b["height"]} intrinsic {tuple(map(str, intr))}: {h}, expected {want}'
    return None


def oracle_blw(args, out):
    b, cb = args
    b = rbox(b)
    if out.startswith('err') or b['minw'] < 0:
        return None
    got = numbers(out)
    w, ml, mr = got[0], got[2], got[3]
    pb = b['pl'] + b['pr'] + b['bl'] + b['br']
    if b['width'] == 'auto' and b['maxw'] == INF and b['minw'] == 0:
        if ml + mr + pb + w != cb[0] and w > 0:
            return f'block_level_width: width auto -> {w}; {ml}+{mr}+{pb}+{w} != {cb[0]}'
    if b['width'] != 'auto' and b['ml'] != 'auto' and b['mr'] != 'auto' and len(got) >= 7:
        # over-constrained (CSS 2.1 10.3.3): in rtl the left margin is the one that gives way, i.e. the box is
        # moved by the space its USED width leaves, once; in ltr (and for a column box) it stays
        moved = cb[1] is True and b['col'] is not True
        want = b['px'] + (cb[0] - pb - w - b['mr'] - b['ml'] if moved else 0)
        if got[6] != want:
            return (f'block_level_width: over-constrained {"rtl" if cb[1] else "ltr"} box, width {b["width"]} -> {w} '
                    f'(min {b["minw"]}, max {b["maxw"]}) in {cb[0]}: position_x {b["px"]} -> {got[6]}, expected {want}')
    return None


# ---------------------------------------------------------------------------------------------
# backgrounds

def box_rect(g, area):
    if area == 'border-box':
        return (g['x'] + g['ml'], g['y'] + g['mt'], g['w'] + g['pl'] + g['pr'] + g['bl'] + g['br'],
                g['h'] + g['pt'] + g['pb'] + g['bt'] + g['bb'])
    if area == 'padding-box':
        return (g['x'] + g['ml'] + g['bl'], g['y'] + g['mt'] + g['bt'], g['w'] + g['pl'] + g['pr'],
                g['h'] + g['pt'] + g['pb'])
    return (g['x'] + g['ml'] + g['bl'] + g['pl'], g['y'] + g['mt'] + g['bt'] + g['pt'], g['w'], g['h'])


def py_round(q):
    f = math.floor(q)
    d = q - f
    if d < Fraction(1, 2):
        return f
    if d > Fraction(1, 2):
        return f + 1
    return f if f % 2 == 0 else f + 1


def ref_layer(g, kind, page_g, image, size, clip, rx, ry, origin, position, fixed):
    """-> None (outside the domain) | ('none', painting) | (painting, size, position, positioning)"""
    if kind != 'plain':
        return None
    g, page_g = geom(g), geom(page_g)
    if g['w'] < 0 or g['h'] < 0:
        return None
    painting = box_rect(g, clip)
    if image is None:
        return 'none', painting
    if not consistent(image):
        return None
    positioning = box_rect(page_g, 'content-box') if fixed else box_rect(g, origin)
    pw, ph = positioning[2], positioning[3]
    if pw <= 0 or ph <= 0:
        return None
    iw, ih, r = image
    if size == 'cover':
        w, h = ref_contain(pw, ph, r, cover=True)
    elif size == 'contain':
        w, h = ref_contain(pw, ph, r)
    else:
        def resolve(d, ref):
            return 'auto' if d == 'auto' else (d[1] if d[0] == 'px' else ref * d[1] / 100)
        w, h = ref_default_sizing(image, resolve(size[0], pw), resolve(size[1], ph), pw, ph)
    if w == 0 or h == 0:
        return 'empty', painting        # nothing is painted; since the repair no error either
    if w < 0 or h < 0:
        return None
    fr, xd, fb, yd = position
    x = ref_place(fr, xd, pw - w)
    y = ref_place(fb, yd, ph - h)
    auto_h = size not in ('cover', 'contain') and size[1] == 'auto'
    auto_w = size not in ('cover', 'contain') and size[0] == 'auto'
    if rx == 'round':
        n = max(1, py_round(pw / w))
        if ry != 'round' and auto_h:
            h = h * (pw / n) / w
        w, x = pw / n, Fraction(0)
    if ry == 'round':
        n = max(1, py_round(ph / h))
        if rx != 'round' and auto_w:
            w = w * (ph / n) / h
        h, y = ph / n, Fraction(0)
    return painting, (w, h), (x, y), positioning


def oracle_bglayer(args, out):
    want = ref_layer(*args)
    if want is None:
        return None
    if out.startswith('err'):
        return (f'layout_background_layer raised {out[4:]} for a ' +
                ('zero-sized tile (background-size 0 / empty area)' if want[0] == 'empty' else
                 'non-empty image and area'))
    got = numbers(out)
    if want[0] in ('none', 'empty'):
        return None
    painting, size, position, positioning = want
    nums = [v for v in got if isinstance(v, Fraction)]
    if 'image' in got or len(nums) != 12:
        return f'layout_background_layer dropped the image (size {size})'
    if tuple(nums[:4]) != tuple(painting):
        return f'background painting area {tuple(map(str, nums[:4]))}, background-clip gives {tuple(map(str, painting))}'
    if tuple(nums[8:]) != tuple(positioning):
        return f'background positioning area {tuple(map(str, nums[8:]))}, background-origin gives {tuple(map(str, positioning))}'
    if tuple(nums[4:6]) != tuple(size):
        return (f'background-size {args[4]} repeat {args[6]}/{args[7]} in a {positioning[2]}x{positioning[3]} area, image '
                f'{tuple(map(str, args[3]))}: tile {nums[4]}x{nums[5]}, css-backgrounds-3 gives {size[0]}x{size[1]}')
    if tuple(nums[6:8]) != tuple(position):
        return (f'background-position {args[9]}: tile at {nums[6]},{nums[7]}, expected {position[0]},{position[1]}')
    return None


def ref_bgdraw(layer, rx, ry):
    painting, (w, h), (x, y), positioning = layer
    if rx == 'no-repeat' and ry == 'no-repeat':
        return ('single', painting, x + positioning[0], y + positioning[1], w, h)

    def axis(rep, image, area, paint, p):
        if rep == 'no-repeat':
            return max(image, 2 * paint), p
        if rep in ('repeat', 'round'):
            return image, p
        n = math.floor(area / image)
        if n >= 2:
            return (area - image) / (n - 1), Fraction(0)
        return area, p
    xstep, x = axis(rx, w, positioning[2], painting[2], x)
    ystep, y = axis(ry, h, positioning[3], painting[3], y)
    return ('pattern', painting, x + positioning[0], y + positioning[1], w, h, xstep, ystep)


def oracle_bgdraw(args, out):
    layer = ref_layer(*args)
    if layer is None or layer[0] in ('none', 'empty'):
        return None
    if out.startswith('err'):
        return f'draw_background_image raised {out[4:]}'
    want = ref_bgdraw(layer, args[6], args[7])
    toks = out.split()
    if toks[1] != want[0]:
        return f'background drawn as {toks[1]}, expected {want[0]} for repeat {args[6]} {args[7]}'
    nums = [v for v in numbers(out) if isinstance(v, Fraction)]
    flat = list(want[1]) + list(want[2:])
    if nums != flat:
        return (f'background tile geometry (clip, origin, size, steps) {list(map(str, nums))}, css-backgrounds-3 §3 '
                f'gives {list(map(str, flat))} (repeat {args[6]} {args[7]})')
    return None


# ---------------------------------------------------------------------------------------------
# one XObject per distinct image; the painted rectangle in the content stream

def _draw_names(draws):
    out = []
    for d in draws:
        if d[0] == 'i':
            out.append(f'i{d[1]}{1 if d[2] is True else 0}')
        else:
            out.extend(_draw_names(d[1:]))
    return out


def oracle_dedupe(args, out):
    base, draws = args
    names = _draw_names(draws)
    if out.startswith('err'):
        return f'_use_references raised {out[4:]}'
    items = sx.loads_line(out)
    objs = items[items.index('objs') + 1]
    refs = items[items.index('refs') + 1]
    made = [o[1] for o in objs if isinstance(o, list) and o[0] == 'img']
    if sorted(made) != sorted(set(names)):
        return (f'{len(names)} image draws of {len(set(names))} distinct (image, interpolate) pairs produced '
                f'{len(made)} image XObjects: {made}')
    # object numbers: objects are numbered from `base` in order
    number = {}
    for index, o in enumerate(objs):
        if isinstance(o, list) and o[0] == 'img':
            number[o[1]] = int(base) + index
    for key, n in refs:
        if key in number and int(n) != number[key]:
            return f'resource entry {key} references object {n}, the image XObject is object {number[key]}'
    ratios = {}
    for d in _flat_images(draws):
        ratios.setdefault(f'i{d[1]}{1 if d[2] is True else 0}', []).append(d[3])
    for o in objs:
        if isinstance(o, list) and o[0] == 'img' and val(o[3]) != max(ratios[o[1]]):
            return f'image {o[1]} embedded with dpi ratio {o[3]}, the largest requested is {max(ratios[o[1]])}'
    if 'tree' in items:
        at = items.index('tree')
        return scope_undefined(draws, items[at + 1], items[at + 2])
    return None


def scope_undefined(draws, xobjects, patterns, path='page'):
    """Every image painted on a content stream (`/name Do`) must be named in the /Resources /XObject dictionary
    of THAT stream — the page's, or the group's / tiling pattern's own one — else the operator paints nothing.
    `draws`: what is drawn on the stream, in order; `xobjects` / `patterns`: the stream's resource entries as
    read back (`tree` of the `dedupe` output / of the PDF).  -> text of the first undefined use, or None."""
    names = [x for x in xobjects if not isinstance(x, list)]
    groups = [x for x in xobjects if isinstance(x, list)]
    gi = pi = 0
    for d in draws:
        if d[0] == 'i':
            name = f'i{d[1]}{1 if d[2] is True else 0}'
            if name not in [str(n) for n in names]:
                return (f'image {name} is painted in the content stream of {path} but the /Resources /XObject of that '
                        f'stream does not define it (defined there: {[str(n) for n in names]})')
        elif d[0] == 'g':
            if gi >= len(groups):
                return f'a transparency group drawn on {path} has no XObject entry'
            g = groups[gi]
            gi += 1
            what = scope_undefined(d[1:], g[1], g[2], f'{path} > group {g[0]}')
            if what:
                return what
        else:
            if pi >= len(patterns):
                return f'a tiling pattern used on {path} has no Pattern entry'
            g = patterns[pi]
            pi += 1
            what = scope_undefined(d[1:], g[1], g[2], f'{path} > pattern {g[0]}')
            if what:
                return what
    return None


def oracle_restree(args, out):
    if out.startswith('err'):
        return f'reading the resources back raised {out[4:]}'
    items = sx.loads_line(out)
    return scope_undefined(args[0], items[1], items[2])


def _flat_images(draws):
    for d in draws:
        if d[0] == 'i':
            yield d
        else:
            yield from _flat_images(d[1:])


def oracle_imgcount(args, out):
    names = _draw_names(args[0])
    if out.startswith('err'):
        return f'writing the PDF raised {out[4:]}'
    count = int(out.split()[1])
    if count != len(set(names)):
        return f'{len(names)} uses of {len(set(names))} distinct images embedded as {count} image XObjects'
    return None


def unit_square_image(translate, cm):
    """Corners (0,1) and (1,0) of image space through `cm` then the translation."""
    a, b, c, d, e, f = cm
    ta, tb, tc, td, te, tf = translate

    def through(u, v):
        x, y = a * u + c * v + e, b * u + d * v + f
        return ta * x + tc * y + te, tb * x + td * y + tf
    return through(0, 1), through(1, 0)


def oracle_drawrep(args, out):
    visible, g, fit, position, res, ratio, image_id, pw, ph, dpi, c00, c11, auto = args
    fit = 'none' if fit is None else fit
    g = geom(g)
    if not (pos(pw) and pos(ph) and pos(res)) or g['w'] < 0 or g['h'] < 0:
        return None
    intr = (pw / res, ph / res, ratio)
    want = ref_object_fit(g, fit, position, intr)
    if want is None or out.startswith('err'):
        return None if want is None or dpi not in (None, 0) else f'draw_replacedbox raised {out[4:]}'
    drawn = visible and g['w'] != 0 and g['h'] != 0 and want[0] > 0 and want[1] > 0
    if out == 'ok none':
        return 'a visible image with a non-empty rectangle was not painted' if drawn else None
    if not drawn:
        return 'an invisible / empty image was painted'
    items = sx.loads_line(out)
    translate = [Fraction(v) for v in items[1]]
    cm = [Fraction(v) for v in items[5]]
    (x0, y0), (x1, y1) = unit_square_image(translate, cm)
    dw, dh, x, y = want
    if (x0, y0, x1, y1) != (x, y, x + dw, y + dh):
        return (f'image painted over ({x0},{y0})-({x1},{y1}); object-fit:{fit} object-position {position} gives '
                f'({x},{y})-({x + dw},{y + dh})')
    return None


def oracle_rdraw(args, out):
    image_id, pw, ph, dpi, cw, ch, c00, c11, auto = args
    if out.startswith('err') or not (pos(pw) and pos(ph)):
        return None
    if out == 'ok none':
        return 'RasterImage.draw painted nothing for a non-empty image'
    items = sx.loads_line(out)
    cm = [Fraction(v) for v in items[4]]
    (x0, y0), (x1, y1) = unit_square_image([1, 0, 0, 1, 0, 0], cm)
    if (x0, y0, x1, y1) != (0, 0, cw, ch):
        return f'RasterImage.draw({cw}, {ch}) maps the image onto ({x0},{y0})-({x1},{y1})'
    if items[1] != f'i{image_id}{1 if auto else 0}':
        return f'image registered as {items[1]} (id {image_id}, image-rendering auto: {auto})'
    # options['dpi']: the image may be embedded at a lower resolution, never above the requested dpi
    ratio = Fraction(items[3])
    if dpi in (None, 0):
        want = Fraction(1)
    else:
        pt_to_in = Fraction(4 / 3 / 96)
        actual = max(pw / abs(cw * c00 * pt_to_in), ph / abs(ch * c11 * pt_to_in))
        want = dpi / actual if actual > dpi else Fraction(1)
    if ratio != want:
        return f'dpi option {dpi}: image of {pw}x{ph} px drawn {cw}x{ch} registered with ratio {ratio}, expected {want}'
    return None


# ---------------------------------------------------------------------------------------------
# documents: CSS-level input -> used size

def oracle_docimg(args, out, intr=None):
    block, css, cb, cbh, cx, py, pw, ph, res, ratio = args
    names = ('width', 'height', 'minw', 'minh', 'maxw', 'maxh', 'ml', 'mr', 'mt', 'mb', 'pl', 'pr', 'bl', 'br')
    c = dict(zip(names, css))
    cbw = cb[0]

    def length(d, ref, auto):
        if d in ('auto', None):
            return auto
        return d[1] if d[0] == 'px' else (ref * d[1] / 100 if ref is not None else None)
    b = {'width': length(c['width'], cbw, 'auto'), 'minw': length(c['minw'], cbw, Fraction(0)),
         'maxw': length(c['maxw'], cbw, INF), 'ml': length(c['ml'], cbw, 'auto'), 'mr': length(c['mr'], cbw, 'auto'),
         'pl': length(c['pl'], cbw, 0), 'pr': length(c['pr'], cbw, 0), 'bl': c['bl'], 'br': c['br']}
    ref_h = None if cbh == 'auto' else cbh
    b['height'] = length(c['height'], ref_h, 'auto')
    if b['height'] is None:
        b['height'] = 'auto'
    b['minh'] = length(c['minh'], ref_h, Fraction(0)) or Fraction(0)
    b['maxh'] = length(c['maxh'], ref_h, INF)
    if b['maxh'] is None:
        b['maxh'] = INF
    style_auto = c['width'] in ('auto', None) and c['height'] in ('auto', None)
    if style_auto != (b['width'] == 'auto' and b['height'] == 'auto'):
        return None
    if intr is None:
        intr = (pw / res, ph / res, ratio)
    return _judge_used_size('<img> layout', b, intr, cb, style_auto, out, block=block)


def _docimg_with(block, css, cb, cbh, intr, out):
    return oracle_docimg([block, css, cb, cbh, 0, 0, None, None, None, None], out, intr)


def ref_svg_intrinsic(w, h, viewbox):
    if w is not None and h is not None:
        return w, h, (w / h if w and h else Fraction(1))
    if viewbox is not None and viewbox[0] and viewbox[1]:
        r = viewbox[0] / viewbox[1]
        if w:
            return w, w / r, r
        if h:
            return h * r, h, r
        return w, h, r
    return w, h, None


def oracle_svgintr(args, out):
    w, h, vb = args
    if out.startswith('err'):
        return f'SVGImage.get_intrinsic_size raised {out[4:]}'
    want = ref_svg_intrinsic(w, h, vb)
    got = tuple(numbers(out))
    if got != want:
        return f'SVG width={w} height={h} viewBox={vb}: intrinsic size {got}, expected {want}'
    return None


def oracle_docsvg(args, out):
    block, css, cb, cbh, cx, py, w, h, vb = args
    intr = ref_svg_intrinsic(w, h, vb)
    return _docimg_with(block, css, cb, cbh, intr, out)


# ---------------------------------------------------------------------------------------------
# SVG: viewBox -> viewport (SVG 1.1 §7.8, preserveAspectRatio)

STANDARD_ALIGNS = {f'x{x}Y{y}': (x.lower(), y.lower()) for x in ('Min', 'Mid', 'Max') for y in ('Min', 'Mid', 'Max')}


def ref_viewbox_transform(viewbox, par, width, height):
    """-> (sx, sy, tx, ty) by the SVG specification, or None outside the domain."""
    if len(viewbox) != 4 or viewbox[2] <= 0 or viewbox[3] <= 0:
        return None
    words = par.split()
    if not words or len(words) > 2 or (len(words) == 2 and words[1] not in ('meet', 'slice')):
        return None
    vx, vy, vw, vh = viewbox
    sx, sy = width / vw, height / vh
    if words[0] == 'none':
        return sx, sy, -vx * sx, -vy * sy
    if words[0] not in STANDARD_ALIGNS:
        return None
    s = max(sx, sy) if words[1:] == ['slice'] else min(sx, sy)
    ax, ay = STANDARD_ALIGNS[words[0]]
    tx = {'min': 0, 'mid': (width - vw * s) / 2, 'max': width - vw * s}[ax] - vx * s
    ty = {'min': 0, 'mid': (height - vh * s) / 2, 'max': height - vh * s}[ay] - vy * s
    return s, s, tx, ty


def _par(code_points):
    return ''.join(chr(int(c)) for c in code_points)


def _judge_ratio(name, viewbox, par, width, height, out):
    want = ref_viewbox_transform(viewbox, par, width, height)
    if want is None or width < 0 or height < 0:
        return None
    if out.startswith('err'):
        return f'{name} raised {out[4:]} for viewBox {viewbox} preserveAspectRatio {par!r}'
    got = tuple(numbers(out))
    if got != tuple(want):
        return (f'{name}: viewBox {tuple(map(str, viewbox))} preserveAspectRatio {par!r} in a {width}x{height} '
                f'viewport: (scale_x, scale_y, translate_x, translate_y) = {tuple(map(str, got))}, SVG §7.8 gives '
                f'{tuple(map(str, want))}')
    return None


def oracle_svgratio(args, out):
    viewbox, root, iw, ih, par, marker, width, height = args
    if marker is not None:
        return None
    return _judge_ratio('preserve_ratio', viewbox, _par(par), width, height, out)


def oracle_svgratioc(args, out):
    """A nested element under an ancestor that has its own preserveAspectRatio: the attribute is not a
    property and is not inherited (SVG 1.1 §7.8): the element's own value, else xMidYMid meet."""
    viewbox, chain, marker, width, height = args
    if marker is not None:
        return None
    own = chain[-1]
    par = 'xMidYMid' if own is None else _par(own)
    if par == 'inherit':
        return None
    return _judge_ratio('preserve_ratio (nested element)', viewbox, par, width, height, out)


SVG_NOT_INHERITED = ('preserveAspectRatio', 'viewBox', 'width', 'height', 'x', 'y', 'transform', 'opacity', 'id',
                     'clip-path', 'mask', 'filter', 'overflow', 'href')


def oracle_svgattr(args, out):
    """SVG 1.1 property index / attribute definitions: the geometry attributes of a viewport-establishing
    element (and opacity, id, clip-path, mask, filter, overflow, href) apply to that element only; presentation
    attributes marked `Inherited: yes` (fill-opacity, stroke-width, font-size, visibility, …) reach the descendants
    that do not set them; `inherit` takes the parent's value."""
    key, chain = args
    key = _par(key)
    if out.startswith('err'):
        return f'reading {key} on a nested SVG element raised {out[4:]}'
    values = [None if v is None else _par(v) for v in chain]
    inherited = key in ('fill-opacity', 'stroke-width', 'font-size', 'visibility', 'stroke-linecap', 'fill-rule',
                        'text-anchor')
    if not inherited and key not in SVG_NOT_INHERITED:
        return None
    current = values[0]
    for own in values[1:]:
        if own == 'inherit':
            pass                                   # the parent's value
        elif own is not None:
            current = own
        elif not inherited:
            current = None
    items = sx.loads_line(out)
    got = None if items[1] == 'none' else _par(items[1])
    if got != current:
        return (f'SVG attribute {key} written {values} on nested elements: the innermost element sees {got!r}, '
                f'expected {current!r} ({"inherited" if inherited else "not inherited"})')
    return None


def oracle_svgimagee(args, out):
    """An <image> element: without a link nothing is fetched and nothing is drawn; with one the loader is asked
    once; a loaded image is drawn in the box of `oracle_svgimage`."""
    href, loaded, width, height, iw, ih, ir = args
    if out.startswith('err:AssertionError'):
        return 'svg <image>: the image loader was asked for an empty / missing URL'
    if not href:
        return None if out == 'ok false none' else f'svg <image> without href: {out}'
    if not loaded:
        return None if out == 'ok true none' else f'svg <image> whose image cannot be loaded: {out}'
    if out.startswith('ok true '):
        return oracle_svgimage([width, height, iw, ih, ir], 'ok ' + out[len('ok true '):])
    if out.startswith('err'):
        return oracle_svgimage([width, height, iw, ih, ir], out)
    return f'svg <image> with href: {out}'


def oracle_svgroot(args, out):
    viewbox, iw, ih, par, width, height = args
    return _judge_ratio('SVG.draw (root <svg>)', viewbox, _par(par), width, height, out)


def oracle_svgimage(args, out):
    width, height, iw, ih, ir = args
    if not consistent((iw, ih, ir)) or width < 0 or height < 0:
        return None
    if out.startswith('err'):
        # a known width or height without a ratio to complete it: TypeError in the unchanged code (None * number)
        return None if (iw is None) != (ih is None) and ir is None else f'svg <image> raised {out[4:]}'
    if iw is None and ih is None:
        if ir is None or (not width and not height):
            iw, ih = Fraction(300), Fraction(150)
        elif not width:
            iw, ih = ir * height, height
        else:
            iw, ih = width, width / ir
    elif iw is None:
        iw = ir * ih
    elif ih is None:
        ih = iw / ir
    want = (width or iw, height or ih, iw, ih)
    got = tuple(numbers(out))
    if got != want:
        return f'svg <image> width={width} height={height} intrinsic={(iw, ih, ir)}: box/size {got}, expected {want}'
    return None


# ---------------------------------------------------------------------------------------------
# embedding decisions of RasterImage: alpha kept, colour space, lossless pass-through, decoded pixels

def oracle_embed(args, out):
    mode, transparency, fmt, app14, rotated, has_data, optimize, quality = args
    mode = {Fraction(1): '1'}.get(mode, mode)
    jpeg_source = fmt in ('JPEG', 'MPO')
    if jpeg_source and mode not in ('L', 'RGB', 'CMYK'):
        return None
    # the mode WeasyPrint has to embed: transparency info means an alpha channel
    if transparency:
        normal = 'RGBA'
    elif mode in ('1', 'P', 'I'):
        normal = 'RGB'
    else:
        normal = mode
    if out.startswith('err'):
        # whatever the image: the loader reports a problem as "image not loaded", it never aborts the rendering
        return (f'get_image_from_uri raised {out[4:]} on a {fmt} image of mode {mode} (transparency info: '
                f'{transparency}) instead of embedding it or reporting a loading error')
    if normal not in ('L', 'LA', 'RGB', 'RGBA') and not (jpeg_source and normal == 'CMYK'):
        return None        # I;16: known finding grey16-embedded-as-rgb8; CMYK outside JPEG, PA, F: not loaded
    if out == 'not-loaded':
        return f'loading a {fmt} image of mode {mode} (transparency info: {transparency}) failed: {out}'
    (got_mode, jpeg, reencoded, invert, color_space, filter_, colors3, smask, decode, pixels) = out.split()[1:]
    alpha = normal in ('LA', 'RGBA')
    if (smask == 'true') != alpha:
        return (f'{fmt} image of mode {mode} (transparency info: {transparency}) has '
                f'{"an" if alpha else "no"} alpha channel but the image XObject has '
                f'{"an" if smask == "true" else "no"} /SMask')
    want_space = {'L': '/DeviceGray', 'LA': '/DeviceGray', 'CMYK': '/DeviceCMYK'}.get(normal, '/DeviceRGB')
    if color_space != want_space:
        return f'{fmt} image of mode {mode}: /ColorSpace {color_space}, expected {want_space}'
    lossy_requested = optimize or quality
    if jpeg_source and not transparency:
        if normal == 'CMYK' and (decode == 'true') != bool(app14):
            # an Adobe CMYK JPEG (APP14 marker) stores inverted samples: the XObject needs /Decode [1 0 1 0 1 0 1 0]
            # to show the source colours, whatever image-orientation did to the image; without the marker it must not
            return (f'CMYK JPEG {"with" if app14 else "without"} an Adobe APP14 marker'
                    f'{" (transposed by image-orientation)" if rotated else ""} embedded '
                    f'{"with" if decode == "true" else "without"} the inverting /Decode array: the painted colours '
                    'are the negative of the source')
        if filter_ != '/DCTDecode':
            return f'JPEG image embedded with {filter_}'
        if not rotated and not lossy_requested and reencoded == 'true':
            return 'JPEG re-encoded although no lossy option / rotation was requested'
        return None
    if filter_ != '/FlateDecode':
        return f'{fmt} image of mode {mode} embedded with {filter_}'
    if pixels != 'pixels-same':
        return (f'{fmt} image of mode {mode} (transparency info: {transparency}): decoded pixels / alpha of the '
                f'embedded stream differ from Pillow\'s convert("RGBA") of the source ({pixels})')
    return None


def oracle_imgres(args, out):
    """css-images-3 §6.1: `image-resolution: <resolution>`; a <resolution> that is not positive is invalid
    (css-values: resolutions are positive), as is anything that is not a dimension with a resolution unit."""
    value, factor, exact = args
    if out.startswith('err'):
        return f'the image-resolution validator raised {out[4:]}'
    want_valid = factor is not None and value > 0
    if (out != 'ok invalid') != want_valid:
        return (f'image-resolution: a value of {value} ({"a resolution unit" if factor is not None else "no resolution unit"}) '
                f'was {"accepted" if out != "ok invalid" else "rejected"}')
    if want_valid and exact and numbers(out)[0] != value * factor:
        return f'image-resolution {value} x {factor} computed as {out[3:]}'
    return None


def oracle_imgids(args, out):
    """Each distinct image is embedded once: two uses share one image id (one XObject name, one set of cache
    slots) exactly when they show the same source under the same image-orientation and the same output options."""
    keys = [tuple(k) for k in args[0]]
    if out.startswith('err'):
        return f'loading the images raised {out[4:]}'
    items = sx.loads_line(out)
    got = [int(v) for v in items[1]]
    want = [keys.index(k) for k in keys]
    for index, (g, w) in enumerate(zip(got, want)):
        if g != w:
            if g < index and keys[g] != keys[index]:
                return (f'uses #{g} and #{index} get the same image id (one XObject, one cache slot) although they differ: '
                        f'(source, orientation, optimize, jpeg_quality, dpi) = {tuple(map(str, keys[g]))} vs '
                        f'{tuple(map(str, keys[index]))}')
            return f'uses #{w} and #{index} are the same image but get different ids: it is embedded twice'
    return None


def oracle_canvasbg(args, out):
    """CSS 2.1 14.2 / css-backgrounds-3 2.11: the canvas background is the background of the root element, or of
    <body> when the root <html> has none; its *computed values* are the propagated element's — image-resolution
    included, which fixes the intrinsic size of a raster background.  Judged: which element is chosen, and the
    tile size / position when no axis is `round` (positioning area: the page box, `background-origin`)."""
    page_g, bleeds, pstyle, root_g, rstyle, is_html, body = args
    if out.startswith('err'):
        return None

    def has(style):
        return style[3] is not True and (style[2] is True or style[0] is not None)
    chosen, style = 'none', None
    if has(rstyle):
        chosen, style = 'root', rstyle
    elif is_html and body is not None and has(body[1]):
        chosen, style = 'body', body[1]
    toks = out.split()
    if toks[1] != chosen:
        return f'canvas background taken from {toks[1]}, expected {chosen}'
    if style is None or style[0] is None or style[3] is True:
        return None
    image, res, colored, hidden, size, clip, rx, ry, origin, position, fixed = style
    pw, ph = image
    if not (pos(res) and pos(pw) and pos(ph)):
        return None
    intr = (pw / res, ph / res, pw / ph)
    want = ref_layer(page_g, 'plain', page_g, intr, size, 'border-box', rx, ry, origin, position, False)
    if want is None or want[0] in ('none', 'empty') or fixed:
        return None
    nums = [v for v in numbers(out) if isinstance(v, Fraction)]
    if len(nums) != 12:
        return f'canvas background of {chosen}: the image layer is missing ({out})'
    if tuple(nums[4:6]) != tuple(want[1]):
        return (f'canvas background propagated from {chosen} (image {pw}x{ph}px at image-resolution {res}dppx, '
                f'background-size {size}): tile {nums[4]}x{nums[5]}, expected {want[1][0]}x{want[1][1]}')
    if tuple(nums[6:8]) != tuple(want[2]):
        return f'canvas background propagated from {chosen}: tile at {nums[6]},{nums[7]}, expected {want[2][0]},{want[2][1]}'
    return None


def oracle_pngdata(args, out):
    """PNG specification 5.3 / 10.1 on the bytes of the file: after the 8-byte signature, chunks of
    length(4) type(4) data(length) crc(4); the image data is the concatenation of the IDAT contents.  Judged
    when the file is such a sequence of complete chunks; otherwise nothing is said."""
    data = bytes(int(b) for b in args[0])
    position, want, complete = 8, b'', len(data) >= 8
    while complete and position < len(data):
        if position + 8 > len(data):
            complete = False
            break
        length = int.from_bytes(data[position:position + 4], 'big')
        kind = data[position + 4:position + 8]
        if position + 12 + length > len(data):
            complete = False
            break
        if kind == b'IDAT':
            want += data[position + 8:position + 8 + length]
        position += 12 + length
    if not complete:
        return None
    if out.startswith('err'):
        return f'_get_png_data raised {out[4:]} on a well-formed PNG chunk sequence'
    got = bytes(int(v) for v in sx.loads_line(out)[1])
    if got != want:
        return (f'_get_png_data returned {len(got)} bytes {list(got)[:24]}, the IDAT chunks of the file hold '
                f'{len(want)} bytes {list(want)[:24]}')
    return None


def oracle_orient(args, out):
    """css-images-3 image-orientation on a pixel grid: rotate to the right by the angle, then flip
    horizontally (stated on the pixel coordinates, without Pillow)."""
    kind, angle, flip, rows = args
    if out.startswith('err'):
        return f'rotate_pillow_image raised {out[4:]}'
    want = rows
    if kind == 'turn':
        if angle not in (0, 90, 180, 270):
            return None
        for _ in range(int(angle) // 90):
            # one quarter turn to the right: the first column, read bottom-up, becomes the first row
            want = [[want[len(want) - 1 - y][x] for y in range(len(want))] for x in range(len(want[0]))]
        if flip:
            want = [row[::-1] for row in want]
    items = sx.loads_line(out)
    got = [[Fraction(v) for v in row] for row in items[4]]
    if got != [[Fraction(v) for v in row] for row in want]:
        return f'image-orientation {kind} {angle} flip={flip} on {rows}: pixels {got}, expected {want}'
    return None


def oracle_orientangle(args, out):
    q = args[0]
    want = (py_round(q) % 4) * 90
    if q - math.floor(q) == Fraction(1, 2):
        return None
    if out != str(want):
        return f'image-orientation {q * 90}deg computes to {out}, expected {want}'
    return None


def oracle_prefwidth(args, out):
    """css-sizing intrinsic contributions of a replaced element (content-box or margin-box width)."""
    minimum, outer, style, intr = args
    names = ('width', 'height', 'minw', 'maxw', 'minh', 'maxh', 'ml', 'mr', 'pl', 'pr', 'bl', 'br')
    s = dict(zip(names, style))
    if not consistent(intr):
        return None
    for k in ('width', 'height', 'minw', 'maxw', 'minh', 'maxh', 'pl', 'pr'):
        if isinstance(s[k], list) and s[k][1] < 0:
            return None
    if out.startswith('err'):
        return f'replaced intrinsic width raised {out[4:]}'
    iw, ih, r = intr

    def px(d):
        return d[1] if isinstance(d, list) and d[0] == 'px' else None
    if px(s['width']) is not None:
        w = px(s['width'])
    elif s['width'] != 'auto':
        w = Fraction(0)                                   # percentage: compressible to 0
    elif minimum and (isinstance(s['maxw'], list) and s['maxw'][0] == '%'):
        w = Fraction(0)
    elif minimum and r and not iw and not ih:
        w = Fraction(0)
    else:
        h = px(s['height'])
        w = ref_default_sizing(intr, 'auto', 'auto' if h is None else h, Fraction(300), Fraction(150))[0]
    lo = px(s['minw']) or Fraction(0)
    hi = px(s['maxw']) if px(s['maxw']) is not None else INF
    if r is not None:
        if px(s['minh']) is not None:
            lo = max(lo, px(s['minh']) * r)
        if px(s['maxh']) is not None:
            hi = min(hi, px(s['maxh']) * r)
    w = max(lo, min(w, hi))
    if outer:
        pct = Fraction(0)
        for k in ('ml', 'pl', 'mr', 'pr'):
            if isinstance(s[k], list):
                if s[k][0] == 'px':
                    w += s[k][1]
                else:
                    pct += s[k][1]
        w += s['bl'] + s['br']
        w = w / (1 - pct / 100) if pct < 100 else Fraction(0)
    got = numbers(out)[0]
    if got != w:
        return (f'{"min" if minimum else "max"}-content {"outer " if outer else ""}width of a replaced box '
                f'{dict(s)} intrinsic {tuple(map(str, intr))}: {got}, expected {w}')
    return None


ORACLES = {
    'dis': oracle_dis, 'constraint': oracle_constraint, 'rlayout': oracle_rlayout,
    'irwh': oracle_irwh, 'irl': lambda a, o: oracle_irwh(a, o, 'inline_replaced_box_layout'),
    'brl': oracle_brl, 'absrep': oracle_absrep, 'mmar': oracle_mmar,
    'rbw': lambda a, o: oracle_decorated_width(a, o, 'replaced_box_width'),
    'brw': lambda a, o: oracle_decorated_width(a, o, 'block_replaced_width'),
    'rbh': oracle_rbh, 'blw': oracle_blw, 'blwcore': oracle_blw,
    'bglayer': oracle_bglayer, 'bgdraw': oracle_bgdraw, 'dedupe': oracle_dedupe, 'imgcount': oracle_imgcount,
    'restree': oracle_restree,
    'drawrep': oracle_drawrep, 'rdraw': oracle_rdraw, 'docimg': oracle_docimg, 'docsvg': oracle_docsvg,
    'svgintr': oracle_svgintr, 'embed': oracle_embed, 'svgratio': oracle_svgratio, 'svgroot': oracle_svgroot,
    'svgratioc': oracle_svgratioc, 'svgattr': oracle_svgattr, 'pngdata': oracle_pngdata,
    'svgimagee': oracle_svgimagee, 'imgres': oracle_imgres, 'imgids': oracle_imgids, 'canvasbg': oracle_canvasbg,
    'svgimage': oracle_svgimage, 'orient': oracle_orient, 'orientangle': oracle_orientangle,
    'prefwidth': oracle_prefwidth,
}


def judge(line, impl_out):
    """Does the implementation's output on this input violate the property clause itself?"""
    cmd, args = parse(line)
    if cmd == 'docok':
        return None
    fn = ORACLES.get(cmd)
    if fn is None:
        return None
    return fn(args, impl_out)
