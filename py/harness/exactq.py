"""`Q`: an exact rational that *absorbs Python floats exactly*.

`fractions.Fraction` compares exactly with floats but its arithmetic falls back to float as soon as
one operand is a float (`Fraction(1, 2) * 1e-6` is a float).  A few mirrored functions contain float
literals (`1e-6` in `min_max_auto_replaced`, `pt_to_in = 4 / 3 / 96` in `RasterImage.draw`).  `Q`
keeps every result rational by converting a finite float operand with `Fraction(float)` (exact: the
dyadic value of the double), so the literal `1e-6` *means* the double nearest to 10^-6 on both sides
of the correspondence (the Lean constant is regenerated from the source by `extract/replaced_consts`).
Infinite operands give the float result (only comparisons meet `inf` in the mirrored code).
"""
from fractions import Fraction
import math


def _coerce(x):
    if isinstance(x, Fraction):
        return Fraction(x.numerator, x.denominator)
    if isinstance(x, bool):
        return Fraction(int(x))
    if isinstance(x, int):
        return Fraction(x)
    if isinstance(x, float):
        if math.isinf(x) or math.isnan(x):
            return None
        return Fraction(x)
    return NotImplemented


def _binary(op, reverse=False):
    def method(self, other):
        b = _coerce(other)
        if b is NotImplemented:
            return NotImplemented
        a = Fraction(self.numerator, self.denominator)
        if b is None:
            a = float(a)
            b = other
        x, y = (b, a) if reverse else (a, b)
        if op == 'add':
            r = x + y
        elif op == 'sub':
            r = x - y
        elif op == 'mul':
            r = x * y
        elif op == 'div':
            r = x / y            # ZeroDivisionError as for Fraction / float
        else:
            raise AssertionError(op)
        return Q(r) if isinstance(r, Fraction) else r
    return method


class Q(Fraction):
    """Exact rational closed under + - * / with ints, Fractions and finite floats."""

    def __new__(cls, numerator=0, denominator=None):
        if isinstance(numerator, float) and denominator is None:
            numerator = Fraction(numerator)
        return super().__new__(cls, numerator, denominator)

    __add__ = _binary('add')
    __radd__ = _binary('add', True)
    __sub__ = _binary('sub')
    __rsub__ = _binary('sub', True)
    __mul__ = _binary('mul')
    __rmul__ = _binary('mul', True)
    __truediv__ = _binary('div')
    __rtruediv__ = _binary('div', True)

    def __neg__(self):
        return Q(-self.numerator, self.denominator)

    def __pos__(self):
        return self

    def __abs__(self):
        return Q(abs(self.numerator), self.denominator)

    def __hash__(self):
        return Fraction.__hash__(self)

    def __repr__(self):
        return f'Q({self.numerator}/{self.denominator})' if self.denominator != 1 else f'Q({self.numerator})'

    def __str__(self):
        return f'{self.numerator}/{self.denominator}' if self.denominator != 1 else str(self.numerator)

    def __copy__(self):
        return self

    def __deepcopy__(self, memo):
        return self


def q(x):
    """int / Fraction / 'a/b' string / float -> Q ;  'auto', None, inf unchanged."""
    if x is None or x == 'auto' or (isinstance(x, float) and math.isinf(x)):
        return x
    return Q(x)


def exact(x):
    """A result of the implementation -> Fraction (floats exactly), or the value unchanged."""
    if isinstance(x, float) and not (math.isinf(x) or math.isnan(x)):
        return Fraction(x)
    if isinstance(x, Fraction):
        return Fraction(x.numerator, x.denominator)
    if isinstance(x, bool):
        return x
    if isinstance(x, int):
        return Fraction(x)
    return x
