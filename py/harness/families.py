"""Deterministic document families for trace validation: systematic enumerations of structured corners
(footnotes in multi-column containers, floats with definite heights at page bottoms, table rows with spans split
across pages, footer-only tables, column spans). Each document has an id; the ids that already fail on the pinned
tree are listed, by id, in corpus/<prop>/family_known.json (a known finding identified by its specific input)."""
import itertools

STYLE = ('html,body{margin:0}p,ul,ol{margin:0}td,th{padding:0;border:1px solid}')


class Words:
    def __init__(self):
        self.n = 0
        self.groups = []

    def take(self, count, kind='flow', ctx=()):
        ids = list(range(self.n + 1, self.n + count + 1))
        self.n += count
        self.groups.append({'kind': kind, 'words': ids, 'ctx': list(ctx)})
        return ' '.join(f'w{i}' for i in ids), ids


def page(html, w, h, font=10, line=10, margin=0, page_css=''):
    return (f'<html><head><style>@page{{size:{w}px {h}px;margin:{margin}px;{page_css}}}{STYLE}'
            f'body{{font-size:{font}px;line-height:{line}px}}</style></head><body>{html}</body></html>')


def footnotes_in_columns():
    for notes, cols, height, pre, per_par in itertools.product((2, 3, 5), (2, 3), (40, 60, 100), (0, 2), (1, 2)):
        w = Words()
        body = ''.join(f'<p>{w.take(2)[0]}</p>' for _ in range(pre))
        pars = []
        left = notes
        while left > 0:
            calls = ''
            for _ in range(min(per_par, left)):
                calls += f' {w.take(1, ctx=("columns",))[0]}<span style="float:footnote">{w.take(1, "oof", ("columns", "footnote"))[0]}</span>'
                left -= 1
            pars.append(f'<p>{w.take(2, ctx=("columns",))[0]}{calls} {w.take(3, ctx=("columns",))[0]}</p>')
        body += f'<div style="columns:{cols};column-gap:0">{"".join(pars)}</div><p>{w.take(2)[0]}</p>'
        yield f'fn-cols-n{notes}-c{cols}-h{height}-p{pre}-q{per_par}', page(body, 200, height), w.groups


def floats_definite():
    for fh, flines, pre, height, side in itertools.product((20, 50, 90), (2, 6, 12), (1, 4, 8), (60, 100), ('left', 'right')):
        w = Words()
        body = ''.join(f'<p>{w.take(1)[0]}</p>' for _ in range(pre))
        lines = '<br>'.join(w.take(1, 'oof', ('float',))[0] for _ in range(flines))
        # one group for the whole float text
        ids = [i for g in w.groups[-flines:] for i in g['words']]
        del w.groups[-flines:]
        w.groups.append({'kind': 'oof', 'words': ids, 'ctx': ['float']})
        body += f'<div style="float:{side};width:50px;height:{fh}px">{lines}</div>'
        body += ''.join(f'<p>{w.take(1)[0]}</p>' for _ in range(6))
        yield f'float-h{fh}-l{flines}-p{pre}-H{height}-{side}', page(body, 200, height), w.groups


def table_spans():
    patterns = {
        'colspan-first': lambda cell: f'<tr><td colspan="2">{cell(1)}</td><td>{cell(6)}</td></tr>',
        'rowspan-first': lambda cell: (f'<tr><td rowspan="2">{cell(2)}</td><td>{cell(1)}</td><td>{cell(1)}</td></tr>'
                                       f'<tr><td>{cell(1)}</td><td>{cell(6)}</td></tr>'),
        'colspan-last': lambda cell: f'<tr><td>{cell(6)}</td><td colspan="2">{cell(1)}</td></tr>',
        'plain': lambda cell: f'<tr><td>{cell(1)}</td><td>{cell(6)}</td><td>{cell(2)}</td></tr>',
    }
    for name, height, pre, rows in itertools.product(patterns, (30, 50, 100), (0, 2), (1, 3)):
        w = Words()

        def cell(n):
            return '<br>'.join(w.take(1, ctx=('table',))[0] for _ in range(n))
        body = ''.join(f'<p>{w.take(1)[0]}</p>' for _ in range(pre))
        body += '<table style="border-spacing:0">' + ''.join(patterns[name](cell) for _ in range(rows)) + '</table>'
        body += f'<p>{w.take(2)[0]}</p>'
        yield f'table-{name}-H{height}-p{pre}-r{rows}', page(body, 200, height), w.groups


def footer_tables():
    for head, foot, rows, height, pre in itertools.product((False, True), (True,), (3, 8), (50, 100), (0, 3)):
        w = Words()
        body = ''.join(f'<p>{w.take(1)[0]}</p>' for _ in range(pre))
        thead = f'<thead><tr><th>{w.take(1, "rep", ("table",))[0]}</th></tr></thead>' if head else ''
        tfoot = f'<tfoot><tr><td>{w.take(1, "rep", ("table",))[0]}</td></tr></tfoot>'
        trs = ''.join(f'<tr><td>{w.take(1, ctx=("table",))[0]}</td></tr>' for _ in range(rows))
        body += f'<table style="border-spacing:0">{thead}{tfoot}<tbody>{trs}</tbody></table><p>{w.take(1)[0]}</p>'
        yield f'table-foot-h{int(head)}-r{rows}-H{height}-p{pre}', page(body, 200, height), w.groups


def column_spans():
    for cols, room, before, after, height in itertools.product((2, 3), (0, 5, 10, 20), (0, 2), (2, 6), (60, 100)):
        w = Words()
        pad = max(0, height - 10 - room - (10 * ((before + cols - 1) // cols) if before else 0))
        inner = ''.join(f'<p>{w.take(1, ctx=("columns",))[0]}</p>' for _ in range(before))
        inner += f'<p style="column-span:all;padding-bottom:{pad}px">{w.take(1, ctx=("columns",))[0]}</p>'
        inner += ''.join(f'<p>{w.take(1, ctx=("columns",))[0]}</p>' for _ in range(after))
        body = f'<div style="columns:{cols};column-gap:0">{inner}</div><p>{w.take(1)[0]}</p>'
        yield f'colspan-c{cols}-room{room}-b{before}-a{after}-H{height}', page(body, 200, height), w.groups


def footnotes_plain():
    """Footnotes outside columns: several calls per page, multi-line bodies, small pages (bodies are postponed to
    later pages; an extra page may be needed only for postponed bodies), every footnote-policy."""
    for notes, note_lines, height, policy, per_par, maxh in itertools.product(
            (3, 6), (1, 3, 'mixed'), (40, 60, 100), ('auto', 'line', 'block'), (1, 3), (None, 30)):
        w = Words()
        pars = []
        left = notes
        while left > 0:
            calls = ''
            for _ in range(min(per_par, left)):
                size = (1, 5, 1, 4)[(notes - left) % 4] if note_lines == 'mixed' else note_lines
                note = '<br>'.join(w.take(1, 'oof', ('footnote',))[0] for _ in range(size))
                ids = [i for g in w.groups[-size:] for i in g['words']]
                del w.groups[-size:]
                w.groups.append({'kind': 'oof', 'words': ids, 'ctx': ['footnote']})
                calls += (f' {w.take(1)[0]}<span style="float:footnote;footnote-policy:{policy}">{note}</span>')
                left -= 1
            pars.append(f'<p>{w.take(2)[0]}{calls}<br>{w.take(2)[0]}</p>')
        body = ''.join(pars) + f'<p>{w.take(2)[0]}</p>'
        # footnote bodies appear in the order of their calls (one pseudo group over all of them)
        w.groups.append({'kind': 'oof', 'ctx': ['footnote', 'allnotes'],
                         'words': [i for g in w.groups if g['ctx'] == ['footnote'] for i in g['words']]})
        yield (f'fn-plain-n{notes}-l{str(note_lines)[0]}-H{height}-{policy}-q{per_par}-m{maxh or 0}',
               page(body, 200, height, page_css=f'@footnote{{max-height:{maxh}px}}' if maxh else ''), w.groups)


def floats_long():
    """Floats that span three pages or more (automatic and definite heights)."""
    for fh, flines, pre, height in itertools.product(('auto', 150, 250), (14, 22), (0, 3), (50, 80)):
        w = Words()
        body = ''.join(f'<p>{w.take(1)[0]}</p>' for _ in range(pre))
        lines = '<br>'.join(w.take(1, 'oof', ('float',))[0] for _ in range(flines))
        ids = [i for g in w.groups[-flines:] for i in g['words']]
        del w.groups[-flines:]
        w.groups.append({'kind': 'oof', 'words': ids, 'ctx': ['float']})
        hcss = '' if fh == 'auto' else f'height:{fh}px;'
        body += f'<div style="float:left;width:50px;{hcss}">{lines}</div>'
        # enough in-flow content after the float for the document to last as long as the float does (a float cut at
        # the end of the document is the recorded finding out-of-flow-lost-at-document-end)
        body += ''.join(f'<p>{w.take(1)[0]}</p>' for _ in range(3 * flines))
        yield f'float-long-h{fh}-l{flines}-p{pre}-H{height}', page(body, 200, height), w.groups


def forced_breaks_in_tables():
    """Forced and avoided breaks between table rows and row groups on small pages (natural breaks occur too)."""
    for value, where, at, rows, height in itertools.product(
            ('page', 'left', 'avoid'), ('before', 'after'), (1, 2, 4), (6,), (40, 100)):
        for groups_ in (False, True):
            w = Words()
            trs = []
            for i in range(rows):
                style = f'break-{where}:{value}' if i == at else ''
                cells = '<br>'.join(w.take(1, ctx=('table',))[0] for _ in range(1 + i % 2))
                ids = [x for g in w.groups[-(1 + i % 2):] for x in g['words']]
                del w.groups[-(1 + i % 2):]
                w.groups.append({'kind': 'flow', 'words': ids, 'ctx': ['table']})
                trs.append(f'<tr style="{style}"><td>{cells}</td><td>{w.take(1, ctx=("table",))[0]}</td></tr>')
            if groups_:
                inner = f'<tbody>{"".join(trs[:3])}</tbody><tbody>{"".join(trs[3:])}</tbody>'
            else:
                inner = ''.join(trs)
            body = f'<p>{w.take(1)[0]}</p><table style="border-spacing:0">{inner}</table><p>{w.take(1)[0]}</p>'
            yield (f'tbl-brk-{value}-{where}-r{at}-H{height}-g{int(groups_)}', page(body, 200, height), w.groups)


def padded_containers():
    """Containers with their own bottom padding / border around columns, tables and paragraphs that reach the page
    bottom (with and without box-decoration-break: clone): the container's bottom decoration must fit too."""
    for kind, pad, clone, lines, height in itertools.product(
            ('columns', 'table', 'paras'), (6, 15), (False, True), (5, 9, 14), (60, 100)):
        w = Words()
        if kind == 'columns':
            inner = ('<div style="columns:2;column-gap:0">'
                     + ''.join(f'<p>{w.take(1, ctx=("columns",))[0]}</p>' for _ in range(lines)) + '</div>')
        elif kind == 'table':
            inner = ('<table style="border-spacing:0">'
                     + ''.join(f'<tr><td>{w.take(1, ctx=("table",))[0]}</td></tr>' for _ in range(lines)) + '</table>')
        else:
            inner = ''.join(f'<p>{w.take(1)[0]}</p>' for _ in range(lines))
        css = f'padding-bottom:{pad}px;border-bottom:2px solid' + (';box-decoration-break:clone' if clone else '')
        body = f'<p>{w.take(1)[0]}</p><div style="{css}">{inner}</div><p>{w.take(1)[0]}</p>'
        yield f'pad-{kind}-p{pad}-c{int(clone)}-l{lines}-H{height}', page(body, 200, height), w.groups


def inline_floats():
    """Floats met inside a line (at the start of the line, after text, too wide to sit beside the text so that they
    wait for the next line, two in one line, inside nested inline boxes with end borders that are split several times
    while the line is built) and long enough to continue on following pages."""
    for where, flines, width, height in itertools.product(('start', 'after', 'two'), (3, 9, 16), (50, 190), (50, 80)):
        w = Words()

        def fl():
            lines = '<br>'.join(w.take(1, 'oof', ('float',))[0] for _ in range(flines))
            ids = [i for g in w.groups[-flines:] for i in g['words']]
            del w.groups[-flines:]
            w.groups.append({'kind': 'oof', 'words': ids, 'ctx': ['float']})
            return f'<span style="float:left;width:{width}px">{lines}</span>'
        body = f'<p>{w.take(1)[0]}</p>'
        if where == 'start':
            body += f'<p>{fl()}{w.take(2)[0]}</p>'
        elif where == 'after':
            body += f'<p>{w.take(2)[0]} {fl()} {w.take(2)[0]}</p>'
        else:
            body += f'<p>{w.take(1)[0]} {fl()} {w.take(1)[0]} {fl()} {w.take(1)[0]}</p>'
        body += ''.join(f'<p>{w.take(1)[0]}</p>' for _ in range(4 * flines))
        yield f'inline-float-{where}-l{flines}-w{width}-H{height}', page(body, 200, height), w.groups
    for nest, flines, pwidth, height in itertools.product(('em-in-border', 'border', 'padding-deep'), (4, 7, 12),
                                                          (80, 120), (40, 60)):
        w = Words()
        float_words = ' '.join(w.take(1, 'oof', ('float',))[0] for _ in range(flines))
        ids = [i for g in w.groups[-flines:] for i in g['words']]
        del w.groups[-flines:]
        w.groups.append({'kind': 'oof', 'words': ids, 'ctx': ['float']})
        fl = f'<span style="float:left;width:30px">{float_words}</span>'
        a1, a2 = w.take(1)[0], w.take(1)[0]
        if nest == 'em-in-border':
            inner = f'<span style="border-right:2px solid">{a1} <em>{fl} {a2}</em></span>'
        elif nest == 'border':
            inner = f'<span style="border-right:2px solid">{a1} {fl} {a2}</span>'
        else:
            inner = (f'<span style="padding-right:3px"><b style="padding-right:3px">{a1} <em>{fl} {a2}</em></b>'
                     f'</span>')
        tail = ' '.join(w.take(1)[0] for _ in range(9))
        body = f'<p>{inner} {tail}</p>' + ''.join(f'<p>{w.take(1)[0]}</p>' for _ in range(2 * flines))
        yield f'inline-float-nest-{nest}-l{flines}-W{pwidth}-H{height}', page(body, pwidth, height), w.groups


def absolutes_long():
    """Absolutely positioned boxes taller than the rest of the page (continued on the following pages), alone, two of
    them, inside a relatively positioned block, with enough in-flow content after them."""
    for shape, alines, pre, height in itertools.product(('plain', 'two', 'in-relative'), (4, 9, 16), (0, 2), (50, 80)):
        w = Words()

        def ab(left):
            lines = '<br>'.join(w.take(1, 'oof', ('positioned',))[0] for _ in range(alines))
            ids = [i for g in w.groups[-alines:] for i in g['words']]
            del w.groups[-alines:]
            w.groups.append({'kind': 'oof', 'words': ids, 'ctx': ['positioned']})
            return f'<div style="position:absolute;left:{left}px;width:50px">{lines}</div>'
        body = ''.join(f'<p>{w.take(1)[0]}</p>' for _ in range(pre))
        if shape == 'plain':
            body += ab(100)
        elif shape == 'two':
            body += ab(100) + f'<p>{w.take(1)[0]}</p>' + ab(150)
        else:
            body += f'<div style="position:relative">{ab(100)}<p>{w.take(1)[0]}</p></div>'
        body += ''.join(f'<p>{w.take(1)[0]}</p>' for _ in range(3 * alines))
        yield f'abs-long-{shape}-l{alines}-p{pre}-H{height}', page(body, 200, height), w.groups


def max_lines_blocks():
    """max-lines (with its implied continue: discard): the first N lines of the block are rendered, the others are
    dropped - also through nested blocks. When the block crosses a page bottom WeasyPrint restarts the count on the
    next page (lines beyond N are then rendered); the property only speaks about text that CSS says is rendered, so on
    the small page the lines beyond N are left unconstrained ('rep') and only the first N are required."""
    for limit, shape, pre, height in itertools.product((1, 2, 4), ('para', 'nested', 'two-paras'), (0, 3), (50, 200)):
        w = Words()
        body = ''.join(f'<p>{w.take(1)[0]}</p>' for _ in range(pre))
        count = [0]

        def line():
            count[0] += 1
            return w.take(1, 'flow' if count[0] <= limit else ('drop' if height == 200 else 'rep'))[0]
        if shape == 'para':
            inner = '<br>'.join(line() for _ in range(6))
        elif shape == 'nested':
            inner = '<div><p>' + '<br>'.join(line() for _ in range(3)) + '</p><p>' + '<br>'.join(
                line() for _ in range(3)) + '</p></div>'
        else:
            inner = '<p>' + '<br>'.join(line() for _ in range(2)) + '</p><p>' + '<br>'.join(
                line() for _ in range(4)) + '</p>'
        body += f'<div style="max-lines:{limit}">{inner}</div><p>{w.take(1)[0]}</p>'
        yield f'max-lines-{limit}-{shape}-p{pre}-H{height}', page(body, 200, height), w.groups


def floats_first_on_page():
    """A float is the first thing laid out on its page (first page, or after ten lines that fill the previous one)
    and the block after it does not fit under it: the float is content placed on the page, so the block is not "the
    first content of the page" and must go to the next page (paragraph lines, an unbreakable block of fixed height,
    table rows, nested blocks; full-width float or clear: both after a narrow one)."""
    for fh, follower, narrow, pre in itertools.product((75, 85, 95, 100), ('para', 'fixed', 'table', 'nested'),
                                                       (False, True), (0, 10)):
        w = Words()
        body = ''.join(f'<p>{w.take(1)[0]}</p>' for _ in range(pre))
        ftext = w.take(1, 'oof', ('float',))[0]
        width = '50px' if narrow else '100%'
        clear = 'clear:both;' if narrow else ''
        body += f'<div style="float:left;width:{width};height:{fh}px">{ftext}</div>'
        if follower == 'para':
            body += f'<p style="{clear}">' + '<br>'.join(w.take(1)[0] for _ in range(3)) + '</p>'
        elif follower == 'fixed':
            body += f'<div style="{clear}height:30px;padding-top:4px;border-top:2px solid"></div><p>{w.take(1)[0]}</p>'
        elif follower == 'table':
            body += (f'<table style="{clear}border-spacing:0">'
                     + ''.join(f'<tr><td>{w.take(1, ctx=("table",))[0]}</td></tr>' for _ in range(3)) + '</table>')
        else:
            body += (f'<div style="{clear}"><div><p>' + '<br>'.join(w.take(1)[0] for _ in range(3))
                     + '</p></div></div>')
        body += f'<p>{w.take(1)[0]}</p>'
        yield f'float-first-h{fh}-{follower}-n{int(narrow)}-p{pre}', page(body, 200, 100), w.groups


def overflow_hidden_containers():
    """Containers that clip (overflow: hidden / auto / scroll, with and without a definite height) around an
    unbreakable block - fixed height, with and without top padding - that starts above the page bottom and is taller
    than the room left there, after other content. A clipping container of automatic height is fragmented like any
    other block, so the unbreakable child goes to the next page; auto / scroll containers are monolithic."""
    for overflow, pre, fixed, pad, wrap in itertools.product(('hidden', 'visible', 'auto'), (6, 7, 8), (30, 45),
                                                             (0, 6), ('direct', 'nested', 'all')):
        w = Words()
        before = ''.join(f'<p>{w.take(1)[0]}</p>' for _ in range(pre))
        inner = (f'<p>{w.take(1)[0]}</p><div style="height:{fixed}px;padding-top:{pad}px"></div>'
                 f'<p>{w.take(1)[0]}</p>')
        if wrap == 'nested':
            inner = f'<div>{inner}</div>'
        if wrap == 'all':       # the earlier content of the page is inside the clipping container too
            body = f'<div style="overflow:{overflow}">{before}{inner}</div><p>{w.take(1)[0]}</p>'
        else:
            body = f'{before}<div style="overflow:{overflow}">{inner}</div><p>{w.take(1)[0]}</p>'
        yield f'ovf-{overflow}-p{pre}-h{fixed}-pt{pad}-{wrap}', page(body, 200, 100), w.groups


def table_rows_taller_than_split_cell():
    """A table that is the first content of its page; a row that is not the first on the page holds a multi-line
    cell, which is split at the page bottom, next to something that makes the row taller than the split content (a
    cell or the row with a fixed height, a cell with a larger font): the row must not end below the page bottom."""
    for first, lines, taller, value in itertools.product((60, 80), (4, 8), ('cell-height', 'row-height', 'font'),
                                                         (40, 70)):
        w = Words()
        cell = '<br>'.join(w.take(1, ctx=('table',))[0] for _ in range(lines))
        ids = [i for g in w.groups[-lines:] for i in g['words']]
        del w.groups[-lines:]
        w.groups.append({'kind': 'flow', 'words': ids, 'ctx': ['table']})
        row_style = f'height:{value}px' if taller == 'row-height' else ''
        if taller == 'cell-height':
            other = f'<td style="height:{value}px">{w.take(1, ctx=("table",))[0]}</td>'
        elif taller == 'font':
            other = f'<td style="font-size:{value // 2}px;line-height:{value // 2}px">{w.take(1, ctx=("table",))[0]}</td>'
        else:
            other = f'<td>{w.take(1, ctx=("table",))[0]}</td>'
        body = (f'<table style="border-spacing:0"><tr><td style="height:{first}px">{w.take(1, ctx=("table",))[0]}</td>'
                f'<td>{w.take(1, ctx=("table",))[0]}</td></tr><tr style="{row_style}"><td>{cell}</td>{other}</tr>'
                f'<tr><td>{w.take(1, ctx=("table",))[0]}</td><td>{w.take(1, ctx=("table",))[0]}</td></tr></table>'
                f'<p>{w.take(1)[0]}</p>')
        yield f'tbl-tall-f{first}-l{lines}-{taller}-v{value}', page(body, 200, 100), w.groups


def several_header_footer_groups():
    """Tables with two footer groups and / or two header groups (<tfoot>, <thead>, display: table-footer-group) in
    every position: only the first of each kind is the header / footer (repeated on every page of the table), the
    others are ordinary row groups whose rows are rendered exactly once."""
    orders = ['BFF', 'FBF', 'FFB', 'BFBF', 'HBFF', 'HHB', 'BHH', 'HBHF', 'FF', 'HFHFB']
    for order, rows, height, tags in itertools.product(orders, (2, 6), (50, 200), ('html', 'css')):
        w = Words()
        seen = set()
        parts = []
        for kind in order:
            first = kind not in seen
            seen.add(kind)
            count = rows if kind == 'B' else 1
            trs = []
            for _ in range(count):
                group_kind = 'rep' if (kind in 'HF' and first) else 'flow'
                text = w.take(1, group_kind, ('table',))[0]
                trs.append(f'<tr><td>{text}</td></tr>' if tags == 'html'
                           else f'<div style="display:table-row"><div style="display:table-cell">{text}</div></div>')
            if tags == 'html':
                tag = {'B': 'tbody', 'H': 'thead', 'F': 'tfoot'}[kind]
                parts.append(f'<{tag}>{"".join(trs)}</{tag}>')
            else:
                display = {'B': 'table-row-group', 'H': 'table-header-group', 'F': 'table-footer-group'}[kind]
                parts.append(f'<div style="display:{display}">{"".join(trs)}</div>')
        table = (f'<table style="border-spacing:0">{"".join(parts)}</table>' if tags == 'html'
                 else f'<div style="display:table;border-spacing:0">{"".join(parts)}</div>')
        body = f'<p>{w.take(1)[0]}</p>{table}<p>{w.take(1)[0]}</p>'
        yield f'tbl-groups-{order}-r{rows}-H{height}-{tags}', page(body, 200, height), w.groups


def page_counters_in_flow():
    """Text generated from page-based counters in the normal flow (counter(pages), counter(page)): the first
    pagination pass sees another value than the last one, the generated text gets wider, the paragraph takes one more
    line and page breaks move; the pages after it must start where the new page stops. The generated text holds no
    numbered word; every numbered word is rendered exactly once, in order."""
    for counter, where, fillers, height in itertools.product(('pages', 'page'), (0, 4, 48), (60, 90), (50,)):
        w = Words()
        pars = []
        for index in range(fillers):
            if index == where:
                # 11 glyphs with a one-digit counter value, 12 with a two-digit one: 110px wide page
                pars.append(f'<p>ab cd <span class="n"></span> {w.take(1)[0]}</p>')
            pars.append(f'<p>{w.take(3)[0]}</p>')
        css = f'body{{font-family:weasyprint}}.n::after{{content:"T" counter({counter})}}'   # fixed-pitch test font
        html = page(''.join(pars), 110, height).replace('<style>', f'<style>{css}', 1)
        yield f'pgctr-{counter}-at{where}-n{fillers}-H{height}', html, w.groups


def grid_row_spans():
    """Grid containers broken across pages, after a first paragraph, holding an item that spans two or three rows
    placed so that the page break falls before, inside or after its span: every item (one word each, its own group:
    grid items are parallel flows) is rendered exactly once."""
    for span, at, column, height, rows in itertools.product((2, 3), (1, 2, 3, 4), (0, 1), (40, 50), (7,)):
        w = Words()
        body = f'<p>{w.take(1)[0]}</p>'
        items = []
        for index in range(2 * rows - (span - 1)):
            style = f'grid-row:span {span}' if index == 2 * at + column else ''
            items.append(f'<div style="{style}">{w.take(1, ctx=("grid",))[0]}</div>')
        body += f'<div style="display:grid;grid-template-columns:90px 90px">{"".join(items)}</div><p>{w.take(1)[0]}</p>'
        yield f'grid-span{span}-r{at}-c{column}-H{height}', page(body, 200, height), w.groups


FAMILIES = [grid_row_spans, floats_first_on_page, overflow_hidden_containers, table_rows_taller_than_split_cell,
            several_header_footer_groups, page_counters_in_flow, inline_floats, absolutes_long, max_lines_blocks, footnotes_in_columns, floats_definite, table_spans, footer_tables, column_spans,
            footnotes_plain, floats_long, forced_breaks_in_tables, padded_containers]


def all_documents():
    for family in FAMILIES:
        for doc_id, html, groups in family():
            yield doc_id, html, groups


# ---------------------------------------------------------------------------------------------
# C04: break values between table rows, row groups and nested blocks (page tall enough for everything, so
# only forced breaks create pages)

BREAK_VALUES = ['auto', 'avoid', 'avoid-page', 'avoid-column', 'page', 'column', 'left', 'right', 'recto', 'verso']


def break_documents():
    """-> (doc id, html, [(values meeting, words of A, words of B)])"""
    def words(w, n=1):
        return w.take(n)

    for v1, v2 in itertools.product(BREAK_VALUES, BREAK_VALUES):
        # table rows
        w = Words()
        rows, obs, cells = [], [], []
        for i in range(5):
            text, ids = words(w)
            cells.append(ids)
            style = ''
            if i == 1:
                style = f'break-after:{v1}'
            if i == 2:
                style = f'break-before:{v2}'
            rows.append(f'<tr style="{style}"><td>{text}</td></tr>')
        obs.append(([v1, v2], cells[1], cells[2]))
        obs.append((['auto', 'auto'], cells[0], cells[1]))
        yield (f'brk-rows-{v1}-{v2}', page(f'<p>{words(w)[0]}</p><table>{"".join(rows)}</table>', 200, 400), obs)
        # row groups, value on the group and on its first row
        w = Words()
        a1, ida1 = words(w)
        a2, ida2 = words(w)
        b1, idb1 = words(w)
        b2, idb2 = words(w)
        html = (f'<table><tbody style="break-after:{v1}"><tr><td>{a1}</td></tr><tr><td>{a2}</td></tr></tbody>'
                f'<tbody><tr style="break-before:{v2}"><td>{b1}</td></tr><tr><td>{b2}</td></tr></tbody></table>')
        # between the groups: after-chain of group 1 is [row a2 after=auto, group after=v1] in tree order, then
        # before-chain of group 2: [group before=auto, row b1 before=v2]
        yield (f'brk-groups-{v1}-{v2}', page(html, 200, 400), [(['auto', v1, 'auto', v2], ida2, idb1)])
        # nested blocks
        w = Words()
        x, idx = words(w)
        a, ida = words(w)
        b, idb = words(w)
        html = (f'<p>{x}</p><div><div style="break-after:{v1}"><p>{a}</p></div></div>'
                f'<div style="break-before:{v2}"><div><p>{b}</p></div></div>')
        yield (f'brk-blocks-{v1}-{v2}', page(html, 200, 400),
               [(['auto', v1, 'auto', v2, 'auto', 'auto'], ida, idb)])
    # other spellings of the same values: 'always' and the page-break-* aliases (css-break-3 section 3.4)
    spellings = [('break-{}', 'always', 'page'), ('page-break-{}', 'always', 'page'), ('page-break-{}', 'left', 'left'),
                 ('page-break-{}', 'right', 'right'), ('page-break-{}', 'avoid', 'avoid'), ('page-break-{}', 'auto', 'auto')]
    for (prop, written, meaning), side in itertools.product(spellings, ('after', 'before')):
        decl = f'{prop.format(side)}:{written}'
        values = [meaning, 'auto'] if side == 'after' else ['auto', meaning]
        tag = f'{prop.format(side)}-{written}'
        # table rows
        w = Words()
        rows, cells = [], []
        for i in range(4):
            text, ids = words(w)
            cells.append(ids)
            style = decl if (side == 'after' and i == 1) or (side == 'before' and i == 2) else ''
            rows.append(f'<tr style="{style}"><td>{text}</td></tr>')
        yield (f'brk-alias-rows-{tag}', page(f'<p>{words(w)[0]}</p><table>{"".join(rows)}</table>', 200, 400),
               [(values, cells[1], cells[2])])
        # row groups
        w = Words()
        a, ida = words(w)
        b, idb = words(w)
        s1 = decl if side == 'after' else ''
        s2 = decl if side == 'before' else ''
        html = (f'<table><tbody style="{s1}"><tr><td>{a}</td></tr></tbody>'
                f'<tbody style="{s2}"><tr><td>{b}</td></tr></tbody></table>')
        chain = ['auto', meaning, 'auto', 'auto'] if side == 'after' else ['auto', 'auto', meaning, 'auto']
        yield f'brk-alias-groups-{tag}', page(html, 200, 400), [(chain, ida, idb)]
        # blocks, nested last / first child
        w = Words()
        x, _ = words(w)
        a, ida = words(w)
        b, idb = words(w)
        html = (f'<p>{x}</p><div><p style="{s1}">{a}</p></div><div><p style="{s2}">{b}</p></div>')
        chain = [meaning, 'auto', 'auto', 'auto'] if side == 'after' else ['auto', 'auto', 'auto', meaning]
        yield f'brk-alias-blocks-{tag}', page(html, 200, 400), [(chain, ida, idb)]


def avoid_documents():
    """-> (doc id, html, between [(values meeting, words of A, words of B)], inside [(value, words of the unit)]).
    Avoided breaks outside the block/paragraph grammar of the pagination model: between table rows, between a
    heading and a table / list / multi-column container, inside rows (multi-line cells), inside list items and inside
    blocks holding a table. One avoiding value per document, so an earlier legal break point exists whenever the
    first sibling is not the first content of its page."""
    for value, height, at in itertools.product(('avoid', 'avoid-page'), (40, 50, 70), (1, 2, 3, 4)):
        # rows of one line each; `at` and `at+1` meet at an avoiding value (set after or before)
        for side in ('after', 'before'):
            w = Words()
            rows, cells = [], []
            for i in range(8):
                text, ids = w.take(1)
                cells.append(ids)
                style = ''
                if side == 'after' and i == at:
                    style = f'break-after:{value}'
                if side == 'before' and i == at + 1:
                    style = f'break-before:{value}'
                rows.append(f'<tr style="{style}"><td>{text}</td></tr>')
            values = [value, 'auto'] if side == 'after' else ['auto', value]
            yield (f'avoid-rows-{value}-{side}-r{at}-H{height}',
                   page(f'<table style="border-spacing:0">{"".join(rows)}</table>', 200, height),
                   [(values, cells[at], cells[at + 1])], [])
        # a row with a cell of three lines and break-inside: avoid
        w = Words()
        rows, inside = [], []
        for i in range(6):
            n = 3 if i == at else 1
            texts = [w.take(1) for _ in range(n)]
            ids = [x for _, t in texts for x in t]
            style = f'break-inside:{value}' if i == at else ''
            if i == at:
                inside.append((value, ids))
            rows.append(f'<tr style="{style}"><td>{"<br>".join(t for t, _ in texts)}</td><td>{w.take(1)[0]}</td></tr>')
        yield (f'avoid-in-row-{value}-r{at}-H{height}',
               page(f'<p>{w.take(1)[0]}</p><table style="border-spacing:0">{"".join(rows)}</table>', 200, height),
               [], inside)
        # break-inside: avoid on a cell
        w = Words()
        rows, inside = [], []
        for i in range(6):
            n = 3 if i == at else 1
            texts = [w.take(1) for _ in range(n)]
            ids = [x for _, t in texts for x in t]
            style = f'break-inside:{value}' if i == at else ''
            if i == at:
                inside.append((value, ids))
            rows.append(f'<tr><td style="{style}">{"<br>".join(t for t, _ in texts)}</td></tr>')
        yield (f'avoid-in-cell-{value}-r{at}-H{height}',
               page(f'<table style="border-spacing:0">{"".join(rows)}</table>', 200, height), [], inside)
        # heading kept with what follows: table, list, multi-column container
        for follower in ('table', 'list', 'columns'):
            w = Words()
            pre = ''.join(f'<p>{w.take(1)[0]}</p>' for _ in range(at + 1))
            head, idh = w.take(1)
            first, idf = w.take(1)
            rest = [w.take(1)[0] for _ in range(4)]
            if follower == 'table':
                nxt = ('<table style="border-spacing:0">' + ''.join(f'<tr><td>{t}</td></tr>' for t in [first] + rest)
                       + '</table>')
            elif follower == 'list':
                nxt = '<ul>' + ''.join(f'<li>{t}</li>' for t in [first] + rest) + '</ul>'
            else:
                nxt = ('<div style="columns:2;column-gap:0">' + ''.join(f'<p>{t}</p>' for t in [first] + rest)
                       + '</div>')
            yield (f'avoid-head-{follower}-{value}-p{at}-H{height}',
                   page(f'{pre}<p style="break-after:{value}">{head}</p>{nxt}', 200, height),
                   [([value, 'auto'], idh, idf)], [])
        # break-inside: avoid on a list item of three lines and on a block holding a table
        w = Words()
        items, inside = [], []
        for i in range(6):
            n = 3 if i == at else 1
            texts = [w.take(1) for _ in range(n)]
            if i == at:
                inside.append((value, [x for _, t in texts for x in t]))
            style = f'break-inside:{value}' if i == at else ''
            items.append(f'<li style="{style}">{"<br>".join(t for t, _ in texts)}</li>')
        yield (f'avoid-in-li-{value}-r{at}-H{height}', page(f'<ul>{"".join(items)}</ul>', 200, height), [], inside)
        # a float is content: after a float at the top of the page, an avoid-inside block that does not fit under it
        # goes to the next page whole (it is not the first content of the page)
        for kind in ('float', 'nested'):
            w = Words()
            flo = '<br>'.join(w.take(1, 'oof', ('float',))[0] for _ in range(at))
            texts = [w.take(1) for _ in range(5)]
            ids = [x for _, t in texts for x in t]
            lines = '<br>'.join(t for t, _ in texts)
            block = (f'<div style="break-inside:{value}">{lines}</div>' if kind == 'float'
                     else f'<div style="break-inside:{value}"><div><p>{lines}</p></div></div>')
            yield (f'avoid-after-float-{kind}-{value}-f{at}-H{height}',
                   page(f'<div style="float:left;width:100%">{flo}</div>{block}<p>{w.take(1)[0]}</p>', 200,
                        max(height, 50)), [], [(value, ids)])
        w = Words()
        pre = ''.join(f'<p>{w.take(1)[0]}</p>' for _ in range(at))
        texts = [w.take(1) for _ in range(3)]
        inner = '<table style="border-spacing:0">' + ''.join(f'<tr><td>{t}</td></tr>' for t, _ in texts) + '</table>'
        yield (f'avoid-in-block-table-{value}-p{at}-H{height}',
               page(f'{pre}<div style="break-inside:{value}">{inner}</div><p>{w.take(1)[0]}</p>', 200, height),
               [], [(value, [x for _, t in texts for x in t])])


# ---------------------------------------------------------------------------------------------
# C02: adversarial-but-legal corners, enumerated

def totality_documents():
    """-> (doc id, html): every document must render and write (outcome `ok`)."""
    # floats: zero-height / zero-width floats followed by floats that do not fit beside them
    for h1, w1, w2, cw, side in itertools.product((0, 10), (0, 30, 60), (30, 60, 120), (100,), ('left', 'right')):
        body = (f'<div style="width:{cw}px"><div style="float:{side};width:{w1}px;height:{h1}px"></div>'
                f'<div style="float:{side};width:{w2}px;height:10px">a</div><p>b c d</p></div>')
        yield f'tot-float-h{h1}-w{w1}-w{w2}-{side}', page(body, 200, 100)
    # auto tables whose columns are all constrained and empty / zero
    for width, cells, cw, pad, border in itertools.product((0, 80, 200), (1, 2, 3), (0, 10), (0, 2), (0, 1)):
        tds = ''.join(f'<td style="width:{cw}px;padding:{pad}px;border-width:{border}px"></td>' for _ in range(cells))
        yield (f'tot-table-W{width}-n{cells}-c{cw}-p{pad}-b{border}',
               page(f'<table style="width:{width}px;border-spacing:0"><tr>{tds}</tr></table><p>x</p>', 200, 100))
    # short paragraphs at the top of tiny pages with large orphans / widows
    for lines, orphans, widows, height in itertools.product((1, 2, 3, 5), (1, 2, 4), (1, 2, 4), (8, 15, 25)):
        text = '<br>'.join(f'l{i}' for i in range(lines))
        yield (f'tot-ow-l{lines}-o{orphans}-w{widows}-H{height}',
               page(f'<p style="orphans:{orphans};widows:{widows}">{text}</p><p>z</p>', 100, height))
    # multi-column containers with degenerate widths / counts / gaps
    for cwidth, count, gap, width in itertools.product(('0', '1px', 'auto'), ('auto', '1', '7'), ('0', '10px', '300px'), (0, 50)):
        if cwidth == 'auto' and count == 'auto':
            continue
        yield (f'tot-cols-w{cwidth}-n{count}-g{gap}-W{width}',
               page(f'<div style="column-width:{cwidth};column-count:{count};column-gap:{gap};width:{width}px">a b c d e</div>',
                    200, 60))
    # flex and grid containers with zero / huge sizes
    for disp, size, gap, n in itertools.product(('flex', 'inline-flex', 'grid'), (0, 1, 5000), (0, 50), (1, 3)):
        items = ''.join(f'<div style="flex:1 1 0;min-width:0">i{i}</div>' for i in range(n))
        yield (f'tot-{disp}-s{size}-g{gap}-n{n}',
               page(f'<div style="display:{disp};width:{size}px;gap:{gap}px">{items}</div><p>t</p>', 200, 80))
    # page geometry: margins larger than the page, zero-size pages
    for w, h, m in itertools.product((1, 10, 200), (1, 10, 100), (0, 5, 60)):
        yield f'tot-page-{w}x{h}-m{m}', page('<p>a b c</p><p>d</p>', w, h, margin=m)
    # grid placement: every way of writing a line or a span, larger than the explicit grid, auto-placed or not
    placements = ['auto', '1', '3', '-1', 'span 1', 'span 3', 'span 5', 'a', 'span a']
    for start, end, axis, flow in itertools.product(placements, placements, ('column', 'row'), ('row', 'column dense')):
        if start.startswith('span') and end.startswith('span'):
            continue
        item = f'<div style="grid-{axis}-start:{start};grid-{axis}-end:{end}">x</div>'
        css = f'display:grid;grid-template-columns:[a] 10px [a] 10px;grid-auto-flow:{flow};width:60px'
        yield (f'tot-gridplace-{axis}-{start}-{end}-{flow}'.replace(' ', '_'),
               page(f'<div style="{css}"><div>p</div>{item}<div>q</div></div>', 200, 100))
    # form controls with and without the pdf_forms option (appearance written at PDF time)
    controls = [
        '<select></select>', '<select><option>a<option selected>b</select>', '<select multiple></select>',
        '<select multiple><option>a<option>b</select>', '<input>', '<input value="v">', '<input type=checkbox>',
        '<input type=checkbox checked>', '<input type=radio name=r>', '<input type=submit value=s>',
        '<input type=password value=p>', '<input type=number value=3>', '<input type=hidden>', '<textarea></textarea>',
        '<textarea>t\nu</textarea>', '<button>b</button>', '<input type=file>', '<input maxlength=0 value=x>',
        '<input type=text style="font-size:0">', '<select style="width:0"><option>a</select>',
    ]
    for index, control in enumerate(controls):
        for forms in (False, True):
            for wrap in ('<form>{}</form>', '<p>{}</p>'):
                yield (f'tot-form-{index}-f{int(forms)}-{wrap[1]}',
                       page(wrap.format(control) + '<p>x</p>', 200, 100), {'pdf_forms': forms})
    # CSS functions with every small number of arguments, in the properties that accept them: invalid uses must be
    # dropped with a warning
    functions = ['string', 'element', 'counter', 'counters', 'attr', 'target-counter', 'target-counters', 'target-text',
                 'leader', 'url', 'var', 'content', 'running', 'symbols', 'linear-gradient', 'calc', 'env', 'image-set']
    arguments = ['', ' ', 'x', 'x, y', 'x, y, z', 'x y', ',', 'x,', '"s"', '"s", x', '1', '1, 2', 'x, "s", y, z']
    properties = ['content', 'string-set', 'bookmark-label', 'position', 'list-style-type', 'background-image',
                  'width', 'counter-reset', 'quotes']
    for fi, function in enumerate(functions):
        for ai, args in enumerate(arguments):
            decls = ';'.join(f'{prop}: {function}({args})' if prop != 'string-set' else f'{prop}: s {function}({args})'
                             for prop in properties)
            yield (f'tot-cssfn-{function}-a{ai}',
                   f'<html><head><style>@page{{size:200px 100px;margin:10px;@top-left{{content:{function}({args})}}}}'
                   f'p::before{{{decls}}} p{{{decls}}}</style></head><body><p id=x>a</p><a href="#x">l</a></body>'
                   f'</html>')


_totality_documents_base = totality_documents


def totality_documents():
    """The documents above, then the footnotes-in-multi-column family (a footnote reported from a column to the next
    page empties the footnote area while the columns are laid out)."""
    yield from _totality_documents_base()
    for doc_id, html, _groups in footnotes_in_columns():
        yield f'tot-{doc_id}', html
