"""Deterministic document families for trace validation: systematic enumerations of structured corners
(footnotes in multi-column containers, floats with definite heights at page bottoms, table rows with spans split
across pages, footer-only tables, column spans). Each document has an id; the ids that already fail on the pinned
tree are listed, by id, in corpus/<prop>/family_known.json (a known finding identified by its specific input)."""
import itertools

STYLE = ('html,body{margin:0}p,ul,ol{margin:0}td,th{padding:0;border:1px solid}')


class Words:
    def __init__(self):
        self.n = 0
        self.groups = []

    def take(self, count, kind='flow', ctx=()):
        ids = list(range(self.n + 1, self.n + count + 1))
        self.n += count
        self.groups.append({'kind': kind, 'words': ids, 'ctx': list(ctx)})
        return ' '.join(f'w{i}' for i in ids), ids


def page(html, w, h, font=10, line=10, margin=0):
    return (f'<html><head><style>@page{{size:{w}px {h}px;margin:{margin}px}}{STYLE}'
            f'body{{font-size:{font}px;line-height:{line}px}}</style></head><body>{html}</body></html>')


def footnotes_in_columns():
    for notes, cols, height, pre, per_par in itertools.product((2, 3, 5), (2, 3), (40, 60, 100), (0, 2), (1, 2)):
        w = Words()
        body = ''.join(f'<p>{w.take(2)[0]}</p>' for _ in range(pre))
        pars = []
        left = notes
        while left > 0:
            calls = ''
            for _ in range(min(per_par, left)):
                calls += f' {w.take(1, ctx=("columns",))[0]}<span style="float:footnote">{w.take(1, "oof", ("columns", "footnote"))[0]}</span>'
                left -= 1
            pars.append(f'<p>{w.take(2, ctx=("columns",))[0]}{calls} {w.take(3, ctx=("columns",))[0]}</p>')
        body += f'<div style="columns:{cols};column-gap:0">{"".join(pars)}</div><p>{w.take(2)[0]}</p>'
        yield f'fn-cols-n{notes}-c{cols}-h{height}-p{pre}-q{per_par}', page(body, 200, height), w.groups


def floats_definite():
    for fh, flines, pre, height, side in itertools.product((20, 50, 90), (2, 6, 12), (1, 4, 8), (60, 100), ('left', 'right')):
        w = Words()
        body = ''.join(f'<p>{w.take(1)[0]}</p>' for _ in range(pre))
        lines = '<br>'.join(w.take(1, 'oof', ('float',))[0] for _ in range(flines))
        # one group for the whole float text
        ids = [i for g in w.groups[-flines:] for i in g['words']]
        del w.groups[-flines:]
        w.groups.append({'kind': 'oof', 'words': ids, 'ctx': ['float']})
        body += f'<div style="float:{side};width:50px;height:{fh}px">{lines}</div>'
        body += ''.join(f'<p>{w.take(1)[0]}</p>' for _ in range(6))
        yield f'float-h{fh}-l{flines}-p{pre}-H{height}-{side}', page(body, 200, height), w.groups


def table_spans():
    patterns = {
        'colspan-first': lambda cell: f'<tr><td colspan="2">{cell(1)}</td><td>{cell(6)}</td></tr>',
        'rowspan-first': lambda cell: (f'<tr><td rowspan="2">{cell(2)}</td><td>{cell(1)}</td><td>{cell(1)}</td></tr>'
                                       f'<tr><td>{cell(1)}</td><td>{cell(6)}</td></tr>'),
        'colspan-last': lambda cell: f'<tr><td>{cell(6)}</td><td colspan="2">{cell(1)}</td></tr>',
        'plain': lambda cell: f'<tr><td>{cell(1)}</td><td>{cell(6)}</td><td>{cell(2)}</td></tr>',
    }
    for name, height, pre, rows in itertools.product(patterns, (30, 50, 100), (0, 2), (1, 3)):
        w = Words()

        def cell(n):
            return '<br>'.join(w.take(1, ctx=('table',))[0] for _ in range(n))
        body = ''.join(f'<p>{w.take(1)[0]}</p>' for _ in range(pre))
        body += '<table style="border-spacing:0">' + ''.join(patterns[name](cell) for _ in range(rows)) + '</table>'
        body += f'<p>{w.take(2)[0]}</p>'
        yield f'table-{name}-H{height}-p{pre}-r{rows}', page(body, 200, height), w.groups


def footer_tables():
    for head, foot, rows, height, pre in itertools.product((False, True), (True,), (3, 8), (50, 100), (0, 3)):
        w = Words()
        body = ''.join(f'<p>{w.take(1)[0]}</p>' for _ in range(pre))
        thead = f'<thead><tr><th>{w.take(1, "rep", ("table",))[0]}</th></tr></thead>' if head else ''
        tfoot = f'<tfoot><tr><td>{w.take(1, "rep", ("table",))[0]}</td></tr></tfoot>'
        trs = ''.join(f'<tr><td>{w.take(1, ctx=("table",))[0]}</td></tr>' for _ in range(rows))
        body += f'<table style="border-spacing:0">{thead}{tfoot}<tbody>{trs}</tbody></table><p>{w.take(1)[0]}</p>'
        yield f'table-foot-h{int(head)}-r{rows}-H{height}-p{pre}', page(body, 200, height), w.groups


def column_spans():
    for cols, room, before, after, height in itertools.product((2, 3), (0, 5, 10, 20), (0, 2), (2, 6), (60, 100)):
        w = Words()
        pad = max(0, height - 10 - room - (10 * ((before + cols - 1) // cols) if before else 0))
        inner = ''.join(f'<p>{w.take(1, ctx=("columns",))[0]}</p>' for _ in range(before))
        inner += f'<p style="column-span:all;padding-bottom:{pad}px">{w.take(1, ctx=("columns",))[0]}</p>'
        inner += ''.join(f'<p>{w.take(1, ctx=("columns",))[0]}</p>' for _ in range(after))
        body = f'<div style="columns:{cols};column-gap:0">{inner}</div><p>{w.take(1)[0]}</p>'
        yield f'colspan-c{cols}-room{room}-b{before}-a{after}-H{height}', page(body, 200, height), w.groups


FAMILIES = [footnotes_in_columns, floats_definite, table_spans, footer_tables, column_spans]


def all_documents():
    for family in FAMILIES:
        for doc_id, html, groups in family():
            yield doc_id, html, groups
