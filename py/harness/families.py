"""Deterministic document families for trace validation: systematic enumerations of structured corners
(footnotes in multi-column containers, floats with definite heights at page bottoms, table rows with spans split
across pages, footer-only tables, column spans). Each document has an id; the ids that already fail on the pinned
tree are listed, by id, in corpus/<prop>/family_known.json (a known finding identified by its specific input)."""
import itertools

STYLE = ('html,body{margin:0}p,ul,ol{margin:0}td,th{padding:0;border:1px solid}')


class Words:
    def __init__(self):
        self.n = 0
        self.groups = []

    def take(self, count, kind='flow', ctx=()):
        ids = list(range(self.n + 1, self.n + count + 1))
        self.n += count
        self.groups.append({'kind': kind, 'words': ids, 'ctx': list(ctx)})
        return ' '.join(f'w{i}' for i in ids), ids


def page(html, w, h, font=10, line=10, margin=0):
    return (f'<html><head><style>@page{{size:{w}px {h}px;margin:{margin}px}}{STYLE}'
            f'body{{font-size:{font}px;line-height:{line}px}}</style></head><body>{html}</body></html>')


def footnotes_in_columns():
    for notes, cols, height, pre, per_par in itertools.product((2, 3, 5), (2, 3), (40, 60, 100), (0, 2), (1, 2)):
        w = Words()
        body = ''.join(f'<p>{w.take(2)[0]}</p>' for _ in range(pre))
        pars = []
        left = notes
        while left > 0:
            calls = ''
            for _ in range(min(per_par, left)):
                calls += f' {w.take(1, ctx=("columns",))[0]}<span style="float:footnote">{w.take(1, "oof", ("columns", "footnote"))[0]}</span>'
                left -= 1
            pars.append(f'<p>{w.take(2, ctx=("columns",))[0]}{calls} {w.take(3, ctx=("columns",))[0]}</p>')
        body += f'<div style="columns:{cols};column-gap:0">{"".join(pars)}</div><p>{w.take(2)[0]}</p>'
        yield f'fn-cols-n{notes}-c{cols}-h{height}-p{pre}-q{per_par}', page(body, 200, height), w.groups


def floats_definite():
    for fh, flines, pre, height, side in itertools.product((20, 50, 90), (2, 6, 12), (1, 4, 8), (60, 100), ('left', 'right')):
        w = Words()
        body = ''.join(f'<p>{w.take(1)[0]}</p>' for _ in range(pre))
        lines = '<br>'.join(w.take(1, 'oof', ('float',))[0] for _ in range(flines))
        # one group for the whole float text
        ids = [i for g in w.groups[-flines:] for i in g['words']]
        del w.groups[-flines:]
        w.groups.append({'kind': 'oof', 'words': ids, 'ctx': ['float']})
        body += f'<div style="float:{side};width:50px;height:{fh}px">{lines}</div>'
        body += ''.join(f'<p>{w.take(1)[0]}</p>' for _ in range(6))
        yield f'float-h{fh}-l{flines}-p{pre}-H{height}-{side}', page(body, 200, height), w.groups


def table_spans():
    patterns = {
        'colspan-first': lambda cell: f'<tr><td colspan="2">{cell(1)}</td><td>{cell(6)}</td></tr>',
        'rowspan-first': lambda cell: (f'<tr><td rowspan="2">{cell(2)}</td><td>{cell(1)}</td><td>{cell(1)}</td></tr>'
                                       f'<tr><td>{cell(1)}</td><td>{cell(6)}</td></tr>'),
        'colspan-last': lambda cell: f'<tr><td>{cell(6)}</td><td colspan="2">{cell(1)}</td></tr>',
        'plain': lambda cell: f'<tr><td>{cell(1)}</td><td>{cell(6)}</td><td>{cell(2)}</td></tr>',
    }
    for name, height, pre, rows in itertools.product(patterns, (30, 50, 100), (0, 2), (1, 3)):
        w = Words()

        def cell(n):
            return '<br>'.join(w.take(1, ctx=('table',))[0] for _ in range(n))
        body = ''.join(f'<p>{w.take(1)[0]}</p>' for _ in range(pre))
        body += '<table style="border-spacing:0">' + ''.join(patterns[name](cell) for _ in range(rows)) + '</table>'
        body += f'<p>{w.take(2)[0]}</p>'
        yield f'table-{name}-H{height}-p{pre}-r{rows}', page(body, 200, height), w.groups


def footer_tables():
    for head, foot, rows, height, pre in itertools.product((False, True), (True,), (3, 8), (50, 100), (0, 3)):
        w = Words()
        body = ''.join(f'<p>{w.take(1)[0]}</p>' for _ in range(pre))
        thead = f'<thead><tr><th>{w.take(1, "rep", ("table",))[0]}</th></tr></thead>' if head else ''
        tfoot = f'<tfoot><tr><td>{w.take(1, "rep", ("table",))[0]}</td></tr></tfoot>'
        trs = ''.join(f'<tr><td>{w.take(1, ctx=("table",))[0]}</td></tr>' for _ in range(rows))
        body += f'<table style="border-spacing:0">{thead}{tfoot}<tbody>{trs}</tbody></table><p>{w.take(1)[0]}</p>'
        yield f'table-foot-h{int(head)}-r{rows}-H{height}-p{pre}', page(body, 200, height), w.groups


def column_spans():
    for cols, room, before, after, height in itertools.product((2, 3), (0, 5, 10, 20), (0, 2), (2, 6), (60, 100)):
        w = Words()
        pad = max(0, height - 10 - room - (10 * ((before + cols - 1) // cols) if before else 0))
        inner = ''.join(f'<p>{w.take(1, ctx=("columns",))[0]}</p>' for _ in range(before))
        inner += f'<p style="column-span:all;padding-bottom:{pad}px">{w.take(1, ctx=("columns",))[0]}</p>'
        inner += ''.join(f'<p>{w.take(1, ctx=("columns",))[0]}</p>' for _ in range(after))
        body = f'<div style="columns:{cols};column-gap:0">{inner}</div><p>{w.take(1)[0]}</p>'
        yield f'colspan-c{cols}-room{room}-b{before}-a{after}-H{height}', page(body, 200, height), w.groups


FAMILIES = [footnotes_in_columns, floats_definite, table_spans, footer_tables, column_spans]


def all_documents():
    for family in FAMILIES:
        for doc_id, html, groups in family():
            yield doc_id, html, groups


# ---------------------------------------------------------------------------------------------
# C04: break values between table rows, row groups and nested blocks (page tall enough for everything, so
# only forced breaks create pages)

BREAK_VALUES = ['auto', 'avoid', 'avoid-page', 'avoid-column', 'page', 'column', 'left', 'right', 'recto', 'verso']


def break_documents():
    """-> (doc id, html, [(values meeting, words of A, words of B)])"""
    def words(w, n=1):
        return w.take(n)

    for v1, v2 in itertools.product(BREAK_VALUES, BREAK_VALUES):
        # table rows
        w = Words()
        rows, obs, cells = [], [], []
        for i in range(5):
            text, ids = words(w)
            cells.append(ids)
            style = ''
            if i == 1:
                style = f'break-after:{v1}'
            if i == 2:
                style = f'break-before:{v2}'
            rows.append(f'<tr style="{style}"><td>{text}</td></tr>')
        obs.append(([v1, v2], cells[1], cells[2]))
        obs.append((['auto', 'auto'], cells[0], cells[1]))
        yield (f'brk-rows-{v1}-{v2}', page(f'<p>{words(w)[0]}</p><table>{"".join(rows)}</table>', 200, 400), obs)
        # row groups, value on the group and on its first row
        w = Words()
        a1, ida1 = words(w)
        a2, ida2 = words(w)
        b1, idb1 = words(w)
        b2, idb2 = words(w)
        html = (f'<table><tbody style="break-after:{v1}"><tr><td>{a1}</td></tr><tr><td>{a2}</td></tr></tbody>'
                f'<tbody><tr style="break-before:{v2}"><td>{b1}</td></tr><tr><td>{b2}</td></tr></tbody></table>')
        # between the groups: after-chain of group 1 is [row a2 after=auto, group after=v1] in tree order, then
        # before-chain of group 2: [group before=auto, row b1 before=v2]
        yield (f'brk-groups-{v1}-{v2}', page(html, 200, 400), [(['auto', v1, 'auto', v2], ida2, idb1)])
        # nested blocks
        w = Words()
        x, idx = words(w)
        a, ida = words(w)
        b, idb = words(w)
        html = (f'<p>{x}</p><div><div style="break-after:{v1}"><p>{a}</p></div></div>'
                f'<div style="break-before:{v2}"><div><p>{b}</p></div></div>')
        yield (f'brk-blocks-{v1}-{v2}', page(html, 200, 400),
               [(['auto', v1, 'auto', v2, 'auto', 'auto'], ida, idb)])


# ---------------------------------------------------------------------------------------------
# C02: adversarial-but-legal corners, enumerated

def totality_documents():
    """-> (doc id, html): every document must render and write (outcome `ok`)."""
    # floats: zero-height / zero-width floats followed by floats that do not fit beside them
    for h1, w1, w2, cw, side in itertools.product((0, 10), (0, 30, 60), (30, 60, 120), (100,), ('left', 'right')):
        body = (f'<div style="width:{cw}px"><div style="float:{side};width:{w1}px;height:{h1}px"></div>'
                f'<div style="float:{side};width:{w2}px;height:10px">a</div><p>b c d</p></div>')
        yield f'tot-float-h{h1}-w{w1}-w{w2}-{side}', page(body, 200, 100)
    # auto tables whose columns are all constrained and empty / zero
    for width, cells, cw, pad, border in itertools.product((0, 80, 200), (1, 2, 3), (0, 10), (0, 2), (0, 1)):
        tds = ''.join(f'<td style="width:{cw}px;padding:{pad}px;border-width:{border}px"></td>' for _ in range(cells))
        yield (f'tot-table-W{width}-n{cells}-c{cw}-p{pad}-b{border}',
               page(f'<table style="width:{width}px;border-spacing:0"><tr>{tds}</tr></table><p>x</p>', 200, 100))
    # short paragraphs at the top of tiny pages with large orphans / widows
    for lines, orphans, widows, height in itertools.product((1, 2, 3, 5), (1, 2, 4), (1, 2, 4), (8, 15, 25)):
        text = '<br>'.join(f'l{i}' for i in range(lines))
        yield (f'tot-ow-l{lines}-o{orphans}-w{widows}-H{height}',
               page(f'<p style="orphans:{orphans};widows:{widows}">{text}</p><p>z</p>', 100, height))
    # multi-column containers with degenerate widths / counts / gaps
    for cwidth, count, gap, width in itertools.product(('0', '1px', 'auto'), ('auto', '1', '7'), ('0', '10px', '300px'), (0, 50)):
        if cwidth == 'auto' and count == 'auto':
            continue
        yield (f'tot-cols-w{cwidth}-n{count}-g{gap}-W{width}',
               page(f'<div style="column-width:{cwidth};column-count:{count};column-gap:{gap};width:{width}px">a b c d e</div>',
                    200, 60))
    # flex and grid containers with zero / huge sizes
    for disp, size, gap, n in itertools.product(('flex', 'inline-flex', 'grid'), (0, 1, 5000), (0, 50), (1, 3)):
        items = ''.join(f'<div style="flex:1 1 0;min-width:0">i{i}</div>' for i in range(n))
        yield (f'tot-{disp}-s{size}-g{gap}-n{n}',
               page(f'<div style="display:{disp};width:{size}px;gap:{gap}px">{items}</div><p>t</p>', 200, 80))
    # page geometry: margins larger than the page, zero-size pages
    for w, h, m in itertools.product((1, 10, 200), (1, 10, 100), (0, 5, 60)):
        yield f'tot-page-{w}x{h}-m{m}', page('<p>a b c</p><p>d</p>', w, h, margin=m)
