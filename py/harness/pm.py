"""PM (pagination model) harness: generated block/paragraph documents, run through the real layout
pipeline (keeping the LayoutContext, hence page_maker) and canonicalised to the driver's output.

Document = dict(pageH, ltr, root) ; box = dict(kind='para'|'block', id, st, n, lineH, kids).
"""
from fractions import Fraction

from harness import docs
from vlib import sx

BREAKS = ['auto', 'avoid', 'avoid-page', 'avoid-column', 'page', 'column', 'left', 'right', 'recto', 'verso']


def default_style(**kw):
    st = dict(mt=0, mb=0, pt=0, pb=0, bt=0, bb=0, height='auto', minH=0, maxH='inf',
              bb_=None, brkBefore='auto', brkAfter='auto', brkInside='auto', clone=False, page='',
              orphans=1, widows=1, isRoot=False)
    st.pop('bb_')
    st.update(kw)
    return st


def style_wire(st, inherited_page):
    """`page` on the wire is the *used* value (auto -> nearest ancestor's, '' at the root)."""
    page = st['page'] or inherited_page
    return [st['mt'], st['mb'], st['pt'], st['pb'], st['bt'], st['bb'], st['height'], st['minH'], st['maxH'],
            st['brkBefore'], st['brkAfter'], st['brkInside'], st['clone'], page or '-', st['orphans'],
            st['widows'], st['isRoot']]


def box_wire(box, inherited_page=''):
    page = box['st']['page'] or inherited_page
    if box['kind'] == 'para':
        return ['para', box['id'], box['n'], box['lineH'], style_wire(box['st'], inherited_page)]
    return ['block', box['id'], style_wire(box['st'], inherited_page),
            [box_wire(k, page) for k in box['kids']]]


def doc_line(doc):
    return sx.line('pm', doc['pageH'], doc['ltr'], box_wire(doc['root']))


def px(v):
    v = Fraction(v)
    return f'{float(v):g}px' if v.denominator in (1, 2, 4, 8) else f'{float(v)}px'


def css_of(st, kind, line_h=None):
    parts = [f'margin:{px(st["mt"])} 0 {px(st["mb"])} 0',
             f'padding:{px(st["pt"])} 0 {px(st["pb"])} 0',
             f'border-style:solid;border-color:black;border-width:{px(st["bt"])} 0 {px(st["bb"])} 0']
    if st['height'] != 'auto':
        parts.append(f'height:{px(st["height"])}')
    if st['minH']:
        parts.append(f'min-height:{px(st["minH"])}')
    if st['maxH'] != 'inf':
        parts.append(f'max-height:{px(st["maxH"])}')
    for key, prop in (('brkBefore', 'break-before'), ('brkAfter', 'break-after'), ('brkInside', 'break-inside')):
        if st[key] != 'auto':
            parts.append(f'{prop}:{st[key]}')
    if st['clone']:
        parts.append('box-decoration-break:clone')
    if st['page']:
        parts.append(f'page:{st["page"]}')
    parts.append(f'orphans:{st["orphans"]};widows:{st["widows"]}')
    if kind == 'para':
        parts.append(f'font-size:2px;line-height:{px(line_h)}')
    return ';'.join(parts)


def box_html(box):
    """html / body / div / p by position: root is <html>, its single kid <body>."""
    if box['kind'] == 'para':
        words = '<br>'.join(f'w{box["id"]}x{i}' for i in range(box['n']))
        return f'<p id="n{box["id"]}" style="{css_of(box["st"], "para", box["lineH"])}">{words}</p>'
    inner = ''.join(box_html(k) for k in box['kids'])
    return f'<div id="n{box["id"]}" style="{css_of(box["st"], "block")}">{inner}</div>'


def page_css(doc):
    """`pageH` is the height of the page's *content* box (what the model calls the page bottom); optional integer
    keys `pagePB` / `pageBB` give the page box a bottom padding / border, which enlarge the page, not its content."""
    pad, border = doc.get('pagePB', 0), doc.get('pageBB', 0)
    css = f'size:200px {px(doc["pageH"] + pad + border)};margin:0'
    if pad:
        css += f';padding-bottom:{pad}px'
    if border:
        css += f';border-bottom:{border}px solid'
    return css


def doc_html(doc):
    root = doc['root']
    body = root['kids'][0]
    inner = ''.join(box_html(k) for k in body['kids'])
    direction = 'ltr' if doc['ltr'] else 'rtl'
    return (
        f'<html id="n{root["id"]}" style="direction:{direction};{css_of(root["st"], "block")}"><head><style>'
        f'@page{{{page_css(doc)}}}</style></head>'
        f'<body id="n{body["id"]}" style="{css_of(body["st"], "block")}">{inner}</body></html>')


# ---------------------------------------------------------------------------------------------
# real pipeline


def run_real(doc):
    """Lay the document out with the real code; return the canonical output line."""
    from weasyprint.css.counters import CounterStyle
    from weasyprint.document import Document
    from weasyprint import DEFAULT_OPTIONS
    from weasyprint.formatting_structure import boxes
    from weasyprint.formatting_structure.build import build_formatting_structure
    from weasyprint.layout import layout_document

    html = docs.html(doc_html(doc))
    _, _, font_config = docs._env()
    counter_style = CounterStyle()
    options = dict(DEFAULT_OPTIONS)
    context = Document._build_layout_context(html, font_config, counter_style, options)
    root_box = build_formatting_structure(
        html.etree_element, context.style_for, context.get_image_from_uri, html.base_url,
        context.target_collector, counter_style, context.footnotes)
    pages = list(layout_document(html, root_box, context))
    maker = context.page_maker

    # line ordinal of each intra-line resume_at, per paragraph, learnt from the laid-out lines
    line_of = {}
    for page in pages:
        for box in page.descendants():
            if isinstance(box, boxes.LineBox):
                pid, i = line_ident(box)
                if pid is not None:
                    line_of[(pid, repr(getattr(box, 'resume_at', None)))] = i + 1

    out = []
    for index, page in enumerate(pages):
        ptype = page.page_type
        resume, next_page, _right = maker[index + 1][0], maker[index + 1][1], maker[index + 1][2]
        root = page.children[0]
        out.append(['page', index, ptype.side == 'right', bool(ptype.blank), ptype.name or '-',
                    resume_wire(resume, doc['root'], line_of),
                    'any' if next_page['break'] == 'any' else next_page['break'],
                    'none' if next_page['page'] is None else (next_page['page'] or '-'),
                    frag_wire(root, boxes)])
    return sx.line(*out)


def line_ident(linebox):
    """(paragraph id, line number) from the word `w<id>x<i>` carried by the line."""
    for box in linebox.descendants():
        text = getattr(box, 'text', None)
        if text and text.strip().startswith('w'):
            pid, _, i = text.strip()[1:].partition('x')
            return int(pid), int(i)
    return None, None


def resume_wire(resume, box, line_of):
    """The code's nested one-key dict, cut at the line box."""
    if resume is None:
        return 'none'
    (index, sub), = resume.items()
    if box['kind'] == 'para':
        # {0: <intra-line resume>} : index is the line box
        if sub is None:
            return ['n', index, 'none']
        return ['n', index, ['l', line_of.get((box['id'], repr(sub)), 'unknown')]]
    child = box['kids'][index] if index < len(box['kids']) else None
    if sub is None or child is None:
        return ['n', index, 'none']
    return ['n', index, resume_wire(sub, child, line_of)]


def fr(value):
    return Fraction(value)


def frag_wire(box, boxes):
    ident = int(box.element.get('id')[1:])
    index = getattr(box, 'index', 0)
    geo = [fr(box.position_y), fr(box.margin_top), fr(box.margin_bottom), fr(box.padding_top),
           fr(box.padding_bottom), fr(box.border_top_width), fr(box.border_bottom_width), fr(box.height)]
    if box.children and isinstance(box.children[0], boxes.LineBox):
        lines = []
        for line in box.children:
            _, i = line_ident(line)
            lines.append([i, fr(line.position_y)])
        return ['p', ident, index, *geo, lines]
    return ['b', ident, index, *geo, [frag_wire(child, boxes) for child in box.children]]


# ---------------------------------------------------------------------------------------------
# generator

def gen_doc(rng, size=None):
    """A random document. Lengths are small dyadic rationals (exact in binary floating point)."""
    counter = [0]

    def nid():
        counter[0] += 1
        return counter[0]

    line_h = rng.choice([10, 10, 10, 20, 12, Fraction(25, 2)])
    page_h = rng.choice([3, 4, 5, 6, 7, 9]) * line_h + rng.choice([0, 0, 0, line_h / 2, 3])
    rich = rng.random() < 0.7

    def length(prob, choices=(2, 4, 5, 8, 10, Fraction(5, 2), 16)):
        return Fraction(rng.choice(choices)) if rich and rng.random() < prob else 0

    def style(kind, depth):
        st = default_style()
        st['mt'] = length(0.35)
        st['mb'] = length(0.35)
        if rich and rng.random() < 0.08:
            st['mt'] = -Fraction(rng.choice([2, 4, 6]))
        if rich and rng.random() < 0.08:
            st['mb'] = -Fraction(rng.choice([2, 4, 6]))
        st['pt'] = length(0.2)
        st['pb'] = length(0.2)
        st['bt'] = length(0.2, (1, 2, 4))
        st['bb'] = length(0.2, (1, 2, 4))
        if rng.random() < 0.1:
            st['height'] = Fraction(rng.choice([0, 10, 20, 30, 50, 80]))
        if rng.random() < 0.06:
            st['minH'] = Fraction(rng.choice([5, 15, 40]))
        if rng.random() < 0.06:
            st['maxH'] = Fraction(rng.choice([10, 30, 60]))
        if rng.random() < 0.3:
            st['brkBefore'] = rng.choice(BREAKS)
        if rng.random() < 0.3:
            st['brkAfter'] = rng.choice(BREAKS)
        if rng.random() < 0.2:
            st['brkInside'] = rng.choice(['avoid', 'avoid-page', 'avoid-column', 'auto'])
        st['clone'] = rng.random() < 0.12
        if rng.random() < 0.12:
            st['page'] = rng.choice(['pa', 'pb'])
        if kind == 'para':
            st['orphans'] = rng.choice([1, 1, 2, 2, 3, 4])
            st['widows'] = rng.choice([1, 1, 2, 2, 3, 4])
        return st

    budget = [size if size is not None else rng.choice([2, 3, 4, 6, 8, 12])]

    def para():
        return dict(kind='para', id=nid(), n=rng.choice([1, 1, 2, 3, 4, 5, 7, 9]), lineH=Fraction(line_h),
                    st=style('para', 0), kids=[])

    def block(depth):
        kids = []
        for _ in range(rng.choice([0, 1, 1, 2, 2, 3, 4])):
            if budget[0] <= 0:
                break
            budget[0] -= 1
            if depth < 3 and rng.random() < 0.35:
                kids.append(block(depth + 1))
            else:
                kids.append(para())
        return dict(kind='block', id=nid(), st=style('block', depth), kids=kids)

    body_kids = []
    while budget[0] > 0 or not body_kids:
        budget[0] -= 1
        body_kids.append(block(1) if rng.random() < 0.4 else para())
    body_st = default_style()
    root_st = default_style(isRoot=True)
    if rng.random() < 0.3:
        body_st['mt'] = Fraction(rng.choice([4, 8]))
        body_st['mb'] = Fraction(rng.choice([4, 8]))
    if rng.random() < 0.15:
        body_st['pt'] = Fraction(rng.choice([2, 4]))
    if rng.random() < 0.15:
        root_st['brkBefore'] = rng.choice(['left', 'right', 'recto', 'verso', 'page'])
    if rng.random() < 0.1:
        root_st['page'] = 'pr'
    body = dict(kind='block', id=nid(), st=body_st, kids=body_kids)
    root = dict(kind='block', id=nid(), st=root_st, kids=[body])
    return dict(pageH=Fraction(page_h), ltr=rng.random() < 0.8, root=root)


def features(doc):
    """Tags for the branch histogram."""
    tags = set()

    def walk(box):
        st = box['st']
        if st['brkBefore'] in ('page', 'left', 'right', 'recto', 'verso') or st['brkAfter'] in (
                'page', 'left', 'right', 'recto', 'verso'):
            tags.add('forced')
        if 'avoid' in st['brkBefore'] or 'avoid' in st['brkAfter']:
            tags.add('avoid-between')
        if 'avoid' in st['brkInside']:
            tags.add('avoid-inside')
        if st['height'] != 'auto':
            tags.add('fixed-height')
        if st['clone']:
            tags.add('clone')
        if st['page']:
            tags.add('named-page')
        if st['mt'] < 0 or st['mb'] < 0:
            tags.add('negative-margin')
        if box['kind'] == 'para' and (st['orphans'] > 1 or st['widows'] > 1):
            tags.add('orphans-widows')
        for kid in box['kids']:
            walk(kid)
    walk(doc['root'])
    return sorted(tags)


# ---------------------------------------------------------------------------------------------
# shrinking

def shrink(doc, still_fails, budget=400):
    """Greedy structural minimisation of a document for which `still_fails(doc)` holds."""
    import copy
    spent = [0]

    def attempt(candidate):
        spent[0] += 1
        if spent[0] > budget:
            return False
        try:
            return still_fails(candidate)
        except Exception:
            return False

    def boxes_of(d):
        out = []

        def walk(b, parent, i):
            out.append((b, parent, i))
            for j, k in enumerate(b['kids']):
                walk(k, b, j)
        walk(d['root'], None, 0)
        return out

    changed = True
    while changed and spent[0] <= budget:
        changed = False
        # remove children
        for idx in range(len(boxes_of(doc))):
            cand = copy.deepcopy(doc)
            entries = boxes_of(cand)
            if idx >= len(entries):
                break
            box, parent, i = entries[idx]
            if parent is None or parent is cand['root']:
                continue
            del parent['kids'][i]
            if attempt(cand):
                doc, changed = cand, True
                break
        if changed:
            continue
        # simplify fields
        default = default_style()
        for idx in range(len(boxes_of(doc))):
            box = boxes_of(doc)[idx][0]
            for key, dv in default.items():
                if key == 'isRoot' or box['st'][key] == dv:
                    continue
                cand = copy.deepcopy(doc)
                boxes_of(cand)[idx][0]['st'][key] = dv
                if attempt(cand):
                    doc, changed = cand, True
                    break
            if changed:
                break
            if box['kind'] == 'para' and box['n'] > 1:
                cand = copy.deepcopy(doc)
                boxes_of(cand)[idx][0]['n'] = box['n'] - 1
                if attempt(cand):
                    doc, changed = cand, True
                    break
    return doc


# ---------------------------------------------------------------------------------------------
# deterministic family: unbreakable blocks around the page bottom

def make_doc(page_h, kids, ltr=True):
    """A document from a list of body children built with `para_box` / `block_box` (ids are assigned here)."""
    counter = [0]

    def number(box):
        for kid in box['kids']:
            number(kid)
        counter[0] += 1
        box['id'] = counter[0]
    body = dict(kind='block', id=0, st=default_style(), kids=kids)
    root = dict(kind='block', id=0, st=default_style(isRoot=True), kids=[body])
    number(root)
    return dict(pageH=Fraction(page_h), ltr=ltr, root=root)


def para_box(n, line_h=10, **style):
    return dict(kind='para', id=0, n=n, lineH=Fraction(line_h), kids=[],
                st=default_style(**{k: (Fraction(v) if isinstance(v, int) and not isinstance(v, bool) and k not in (
                    'orphans', 'widows') else v) for k, v in style.items()}))


def block_box(kids=(), **style):
    return dict(kind='block', id=0, kids=list(kids),
                st=default_style(**{k: (Fraction(v) if isinstance(v, int) and not isinstance(v, bool) and k not in (
                    'orphans', 'widows') else v) for k, v in style.items()}))


def edge_docs():
    """Blocks that cannot be fragmented (fixed height with or without lines, empty blocks with padding / border)
    placed after k lines on a 100px page so that their margin, border, padding and content edges fall on every side
    of the page bottom; alone in the body, inside a wrapper, and as first content of the page (k = 0)."""
    import itertools
    for k, height, pt, bt, pb, mt in itertools.product((0, 6, 7, 8), (0, 10, 30), (0, 4, 8), (0, 2), (0, 4), (0, 5)):
        if not (height or pt or bt or pb):
            continue
        for shape in ('plain', 'wrapped', 'lines'):
            if shape == 'lines' and not height:
                continue
            if shape == 'lines':
                target = para_box(2, height=height, pt=pt, bt=bt, pb=pb, mt=mt)
            else:
                target = block_box(height=height if height else 'auto', pt=pt, bt=bt, pb=pb, mt=mt)
            middle = block_box([target], pb=2) if shape == 'wrapped' else target
            kids = ([para_box(k)] if k else []) + [middle, para_box(2)]
            yield f'edge-k{k}-h{height}-pt{pt}-bt{bt}-pb{pb}-mt{mt}-{shape}', make_doc(100, kids)


def earlier_break_docs():
    """Boxes cut by find_earlier_page_break (first the document of the repaired finding
    earlier-break-keeps-bottom-decoration): a block with bottom padding / border / margin - sliced or cloned, directly
    in the body or nested - holding n lines, whose break-after (or the next box's break-before) is avoided, followed
    by a paragraph that does not fit on the 50px page."""
    import itertools
    for pb, bb, mb, clone, n, nested, side in itertools.product((5, 0), (0, 2), (0, 4), (False, True), (5, 4),
                                                                (False, True), ('after', 'before')):
        if not (pb or bb or mb):
            continue
        inner = para_box(n)
        if nested:
            inner = block_box([inner], pb=pb)
        first = block_box([inner], pb=pb, bb=bb, mb=mb, clone=clone,
                          brkAfter='avoid-page' if side == 'after' else 'auto')
        second = para_box(2, brkBefore='avoid' if side == 'before' else 'auto')
        yield (f'earlier-pb{pb}-bb{bb}-mb{mb}-c{int(clone)}-n{n}-d{int(nested)}-{side}',
               make_doc(50, [first, second]))


def spacer_docs():
    """Empty boxes through which margins collapse (height auto or 0, no padding / border / min-height) with vertical
    margins, placed after 8 / 9 / 10 lines of a 100px page so that the page bottom falls inside their margins: alone,
    two of them, nested in a section, at the end of the document or followed by a paragraph. They take no room and
    never need a page of their own."""
    import itertools
    for k, height, mt, mb, shape, tail in itertools.product((8, 9, 10), ('auto', 0), (10, 20), (0, 10),
                                                            ('one', 'two', 'nested'), (False, True)):
        def spacer():
            return block_box(height=height, mt=mt, mb=mb)
        if shape == 'one':
            kids = [para_box(k), spacer()]
        elif shape == 'two':
            kids = [para_box(k), spacer(), spacer()]
        else:
            kids = [block_box([para_box(k), spacer()])]
        if tail:
            kids.append(para_box(1))
        yield f'spacer-k{k}-h{height}-mt{mt}-mb{mb}-{shape}-t{int(tail)}', make_doc(100, kids)


def page_decoration_docs():
    """Pages whose @page rule has a bottom padding and / or border: the content area ends above them, so lines,
    unbreakable blocks and fragmented boxes are cut at the bottom of the page *content box* (page.py make_page:
    context.page_bottom), exactly as on a page of that content height without decoration (same model document)."""
    import itertools
    for pad, border, n, shape in itertools.product((0, 6, 15), (0, 4), (7, 12), ('lines', 'padded', 'fixed')):
        if not (pad or border):
            continue
        if shape == 'lines':
            kids = [para_box(n), para_box(3)]
        elif shape == 'padded':
            kids = [block_box([para_box(n)], pb=4, bb=1), para_box(3)]
        else:
            kids = [para_box(n - 3), block_box(height=25, pt=3), para_box(3)]
        doc = make_doc(50, kids)
        doc['pagePB'], doc['pageBB'] = pad, border
        yield f'pagedeco-pb{pad}-bb{border}-n{n}-{shape}', doc
