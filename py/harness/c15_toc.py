"""C15 helpers, page-based half: generated tables of contents printing `target-counter(attr(href), page)`,
`counter(page)` and `counter(pages)`; a recorder of what `layout_document` reads after every
`make_all_pages` pass (without touching the source: the two module globals are wrapped in-process);
extraction of the printed numbers and of the page every target lies on."""
import contextlib

from harness import docs

# lower-roman: the width of the printed number is not monotone in the page, which is what makes labels move targets
PAGE_STYLES = ['decimal', 'lower-roman', 'lower-roman', 'upper-alpha', 'decimal-leading-zero', 'upper-roman']


BASE_CSS = ('html, body { margin: 0; font-size: 10px; line-height: 10px; font-family: weasyprint }'
            'p, h2 { margin: 0; font-size: 10px; font-weight: normal } a { display: block }')


def gen_special(rng):
    """Small families exercising the other exits of the layout_document loop: no page-based counter at all
    (one pass), `counter(pages)` whose width changes the page count, the roman-numeral label that moves its
    own target (may hit max_loops: the known finding page-fixpoint-oscillation)."""
    kind = rng.choice(['plain', 'pages-wrap', 'oscillation'])
    lines = rng.choice([3, 4])
    page = f'@page {{ size: 200px {lines * 10}px; margin: 0 }}'
    if kind == 'plain':
        css, body, style = '', '<p>f</p>' * rng.randint(1, 12), 'decimal'
    elif kind == 'pages-wrap':
        style = 'decimal'
        css = '.toc { width: 50px } .toc::after { content: "abc " counter(pages) } h2::after { content: " " counter(page) "-" counter(pages) }'
        body = '<div class="toc"></div>' + '<p>f</p>' * rng.randint(lines * 8, lines * 11) + '<h2>T</h2>'
    else:
        style = 'lower-roman'
        css = '.toc { width: 50px } a::after { content: target-counter(attr(href), page, lower-roman) }'
        body = ('<div class="toc"><a href="#t">e0 </a></div>' + '<p>f</p>' * rng.randint(lines * 2 - 1, lines * 4)
                + '<h2 id="t">T</h2>')
    return {'html': f'<html><head><style>{page}{BASE_CSS}{css}</style></head><body>{body}</body></html>',
            'n': 1, 'style': style, 'where': kind, 'lines_per_page': lines, 'pages_in_content': kind == 'pages-wrap',
            'margin': False}


def gen_toc(rng, max_entries):
    """-> dict(html=…, entries=[…], style=…) — every length is a multiple of 10px (font-size 10px)."""
    if rng.random() < 0.3:
        return gen_special(rng)
    n = rng.randint(1, max_entries)
    style = rng.choice(PAGE_STYLES)
    lines_per_page = rng.choice([3, 4, 5, 6, 8])
    toc_chars = rng.choice([5, 5, 6, 6, 7, 8, 20])            # narrow: the entry wraps when the number gets longer
    where = rng.choice(['front', 'front', 'front', 'back', 'middle'])
    order = list(range(n))
    if rng.random() < 0.5:
        rng.shuffle(order)
    sections = []
    for k in range(n):
        body = ''.join(f'<p>l{j}</p>' for j in range(rng.choice([0, 1, 1, 2, 3, 5])))
        brk = ' style="break-before:page"' if rng.random() < 0.15 else ''
        if rng.random() < 0.3 and body:
            # the anchor is on a block that may span pages: its page is the page of its first fragment
            sections.append(f'<section id="s{k}"{brk}><h2>S{k}</h2>{body}</section>')
        else:
            sections.append(f'<h2 id="s{k}"{brk}>S{k}</h2>{body}')
    toc = '<div class="toc">' + ''.join(f'<a href="#s{k}">e{k} </a>' for k in order) + '</div>'
    if rng.random() < 0.15:
        toc = toc.replace('</div>', '<a href="#nowhere">x </a></div>')
    front = ''.join(f'<p>f{j}</p>' for j in range(rng.choice([0, 0, 1, 2])))
    if where == 'front':
        body = front + toc + ''.join(sections)
    elif where == 'back':
        body = front + ''.join(sections) + toc
    else:
        cut = rng.randint(0, n)
        body = front + ''.join(sections[:cut]) + toc + ''.join(sections[cut:])
    pages_in_content = rng.random() < 0.4
    # a generated box long enough to be split over lines and pages: counted on the page of its first fragment
    long_mark = pages_in_content and rng.random() < 0.4
    # target-counter(…, pages), backwards and (since da41776 repaired target-counter-pages-forward-crash) forwards
    pages_ref = rng.random() < (0.6 if where == 'back' else 0.3)
    margin = rng.random() < 0.5
    # the entry also prints the number of its own page: the box is re-parsed with the page counters of ITS page
    own_page = rng.random() < 0.35
    css = (
        f'@page {{ size: 200px {lines_per_page * 10 + (20 if margin else 0)}px; margin: 0; '
        + (f'margin-bottom: 20px; @bottom-center {{ content: counter(page) "/" counter(pages); font-size: 10px }} '
           if margin else '') + '}'
        'html, body { margin: 0; font-size: 10px; line-height: 10px; font-family: weasyprint }'
        'p, h2 { margin: 0; font-size: 10px; font-weight: normal }'
        f'.toc {{ width: {toc_chars * 10}px }}'
        'a { display: block }'
        f'a::after {{ content: target-counter(attr(href), page, {style})' + (' "@" counter(page)' if own_page else '') + ' }'

        + ('h2::after { content: " " counter(page) "-" counter(pages)'
           + (' "|w w w w w w w"' if long_mark else '') + ' }' if pages_in_content else '')
        + ('h2 { width: 50px }' if long_mark else '')
        + ('a::before { content: target-counter(attr(href), pages) " " }' if pages_ref else ''))
    return {'html': f'<html><head><style>{css}</style></head><body>{body}</body></html>',
            'n': n, 'style': style, 'where': where, 'lines_per_page': lines_per_page,
            'pages_in_content': pages_in_content, 'margin': margin}


class Recorder:
    """Records, for every `make_all_pages` pass of `layout_document`: the re-make decision of every
    page (flags read at the loop top, whether `remake_page` was called) and what `layout_document`
    reads afterwards (number of pages, `remake_state` flags of every `page_maker` entry)."""

    def __init__(self):
        self.passes = []
        self.remade = 0

    @contextlib.contextmanager
    def installed(self):
        import weasyprint.layout as layout
        import weasyprint.layout.page as page_mod
        orig_all, orig_remake = layout.make_all_pages, page_mod.remake_page
        recorder = self

        def remake_page(*args, **kwargs):
            recorder.remade += 1
            return orig_remake(*args, **kwargs)

        def make_all_pages(context, root_box, html, pages):
            decisions = []
            generator = orig_all(context, root_box, html, pages)
            index = count = 0
            while True:
                before = None
                if index < len(context.page_maker):
                    state = context.page_maker[index][-1]
                    before = (len(pages) == 0, bool(state['content_changed']), bool(state['pages_wanted']))
                calls = recorder.remade
                try:
                    page = next(generator)
                except StopIteration:
                    break
                decisions.append((before, recorder.remade > calls))
                count += 1
                index += 1
                yield page
            flags = [(bool(item[-1]['content_changed']), bool(item[-1]['pages_wanted']))
                     for item in context.page_maker]
            recorder.passes.append({'pages': count, 'flags': flags, 'decisions': decisions})

        layout.make_all_pages, page_mod.remake_page = make_all_pages, remake_page
        try:
            yield self
        finally:
            layout.make_all_pages, page_mod.remake_page = orig_all, orig_remake


def render_recorded(html_text):
    recorder = Recorder()
    with recorder.installed():
        document = docs.render(html_text)
    return document, recorder.passes


def text_of(box):
    from weasyprint.formatting_structure import boxes
    if isinstance(box, boxes.TextBox):
        return box.text
    if isinstance(box, boxes.ParentBox):
        return ''.join(text_of(child) for child in box.children)
    return ''


def observe(document):
    """-> (labels, targets, page_marks, n_pages)
    labels: [(href, printed text, page index of the label)], targets: {id: first page index},
    page_marks: [(page index, text)] of h2::after boxes and bottom-center margin boxes.
    Texts are read from the TextBoxes (an inline box split over lines gives one TextBox per line)."""
    from weasyprint.formatting_structure import boxes
    labels, targets, marks = {}, {}, {}
    for index, page in enumerate(document.pages):
        for box in page._page_box.descendants():
            tag = box.element_tag or ''
            if isinstance(box, boxes.MarginBox):
                if box.at_keyword == '@bottom-center' and box.is_generated:
                    marks[('margin', index)] = (index, text_of(box).strip().replace('/', '-'))
            elif isinstance(box, boxes.TextBox) and tag == 'a::after':
                key = id(box.element)
                old = labels.get(key, (box.element.get('href'), '', index))
                labels[key] = (old[0], old[1] + box.text, old[2])
            elif tag == 'h2::after':
                # the generated box "is on" the page of its first fragment, even an empty one left at a line end
                key = ('h2', id(box.element))
                old = marks.get(key, (index, ''))
                marks[key] = (old[0], old[1] + (box.text if isinstance(box, boxes.TextBox) else ''))
            elif box.element is not None and '::' not in tag and box.element.get('id'):
                targets.setdefault(box.element.get('id'), index)
    return ([(href, text.split('@')[0], index) for href, text, index in labels.values()], targets,
            [(i, t.strip().split('|')[0]) for i, t in marks.values()], len(document.pages))


def observe_own_pages(document):
    """[(href, text after "@", page index)] of the `a::after` boxes that also print `counter(page)`; the page is
    that of the first fragment of the generated box (text or not)."""
    from weasyprint.formatting_structure import boxes
    first, texts = {}, {}
    for index, page in enumerate(document.pages):
        for box in page._page_box.descendants():
            if (box.element_tag or '') == 'a::after':
                key = id(box.element)
                first.setdefault(key, (box.element.get('href'), index))
                if isinstance(box, boxes.TextBox):
                    texts[key] = texts.get(key, '') + box.text
    return [(first[key][0], text.split('@', 1)[1], first[key][1]) for key, text in texts.items() if '@' in text]


def observe_pages_refs(document):
    """[(href, text)] of the `a::before` boxes printing `target-counter(attr(href), pages) " "`."""
    from weasyprint.formatting_structure import boxes
    refs = {}
    for page in document.pages:
        for box in page._page_box.descendants():
            if isinstance(box, boxes.TextBox) and (box.element_tag or '') == 'a::before':
                key = id(box.element)
                old = refs.get(key, (box.element.get('href'), ''))
                refs[key] = (old[0], old[1] + box.text)
    return list(refs.values())


def converged(passes, max_loops=8):
    """The exit rule of layout_document restated (used only to set aside runs that hit max_loops)."""
    last = passes[-1]
    initial = passes[-2]['pages'] if len(passes) > 1 else 0
    content = any(cc for cc, _ in last['flags'])
    pages = any(pw for _, pw in last['flags']) and initial != last['pages']
    return not content and not pages
