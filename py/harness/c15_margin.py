"""C15 helpers, margin-box half: every call of `make_margin_boxes` of a render is recorded in-process (the page
state it receives, the generated boxes it yields with their computed style and laid-out text) and replayed through
`Model/MarginCounters.lean`; a fixed family of @page rules whose margin boxes reset / set / increment counters that
other margin boxes of the same page print; an independent per-box reference for `judge`."""
import contextlib
import copy

from harness import c15_dom as D
from harness import c15_styles as S
from harness import docs
from vlib import sx

BOXES = ['top-left-corner', 'top-left', 'top-center', 'top-right', 'top-right-corner', 'bottom-left', 'bottom-center',
         'bottom-right', 'left-top', 'left-middle', 'right-middle', 'right-bottom']
DECLS = ['counter-increment: page 100', 'counter-increment: page 10 c 2', 'counter-reset: c 5', 'counter-set: c 7',
         'counter-increment: c', 'counter-reset: c 1 d 2', 'counter-set: page 40', 'counter-reset: page 9',
         'counter-increment: d 3']
CONTENTS = ['counter(page)', 'counter(page) "/" counter(pages)', 'counter(c)', 'counters(c, ".")',
            'counter(page, lower-roman) "-" counter(c) "-" counter(d)', '"p" counter(page) "c" counter(c)']
BASE = ('html, body { margin: 0; font-size: 10px; line-height: 10px; font-family: weasyprint } '
        'p { margin: 0; font-size: 10px }')


def document(rules, page_decl='', pages=2):
    css = (f'@page {{ size: 400px 300px; margin: 60px; font-size: 10px; font-family: weasyprint; {page_decl} '
           + ' '.join(f'@{name} {{ {decl} }}' for name, decl in rules) + ' }')
    body = '<p>x</p>' + '<p style="break-before: page">y</p>' * (pages - 1)
    return f'<html><head><style>{css} {BASE}</style></head><body>{body}</body></html>'


def family():
    """Deterministic: every declaration on an early box x every content on a later one (and the reverse order), with
    and without a page-level counter declaration."""
    out = []
    for i, decl in enumerate(DECLS):
        for j, content in enumerate(CONTENTS):
            first = BOXES[(i + j) % 6]
            second = BOXES[6 + (i * 2 + j) % 6]
            early, late = (first, second) if (i + j) % 3 else (second, first)
            rules = [(early, f'{decl}; content: {CONTENTS[(j + 1) % len(CONTENTS)]}'), (late, f'content: {content}')]
            if (i + j) % 4 == 0:
                rules.append((BOXES[(i + 3) % 12 if BOXES[(i + 3) % 12] not in (early, late) else 4],
                              f'{DECLS[(i + 4) % len(DECLS)]}; content: {content}'))
            page_decl = ['', 'counter-reset: c 3', 'counter-increment: page 2 d 1'][(i + j) % 3]
            out.append(document(rules, page_decl))
    return out


def gen_document(rng):
    rules = []
    for name in rng.sample(BOXES, rng.choice([2, 3, 4])):
        decls = [d for d in (rng.choice(DECLS) for _ in range(rng.choice([0, 1, 1, 2])))]
        rules.append((name, '; '.join(decls + ['content: ' + rng.choice(CONTENTS)])))
    return document(rules, rng.choice(['', '', 'counter-reset: c 3', 'counter-increment: page 2 d 1']),
                    pages=rng.choice([1, 2, 3]))


def text_of(box):
    from weasyprint.formatting_structure import boxes
    if isinstance(box, boxes.TextBox):
        return box.text
    if isinstance(box, boxes.ParentBox):
        return ''.join(text_of(child) for child in box.children)
    return ''


class MarginRecorder:
    def __init__(self):
        self.calls = []      # (state snapshot, [(at_keyword, style, text)])

    @contextlib.contextmanager
    def installed(self):
        import weasyprint.layout as layout
        original = layout.make_margin_boxes
        recorder = self

        def make_margin_boxes(context, page, state):
            snapshot = copy.deepcopy(state)
            made = list(original(context, page, state))
            recorder.calls.append((snapshot, [(box.at_keyword, box.style, text_of(box)) for box in made
                                              if box.is_generated]))
            return made
        layout.make_margin_boxes = make_margin_boxes
        try:
            yield self
        finally:
            layout.make_margin_boxes = original


def w_state(state):
    _quote_depth, values, scopes = state
    return ([[S.enc(k), [int(v) for v in st]] for k, st in values.items()],
            [[S.enc(n) for n in sorted(s)] for s in scopes])


def box_ops(style):
    incr = style['counter_increment']
    return ('other', [(n, int(v)) for n, v in style['counter_reset']], [(n, int(v)) for n, v in style['counter_set']],
            [] if incr == 'auto' else [(n, int(v)) for n, v in incr])


def margin_cases(html_text):
    """-> [(line, impl_out, n_boxes)] : one case per make_margin_boxes call (= per page and layout pass)."""
    recorder = MarginRecorder()
    try:
        with recorder.installed():
            docs.render(html_text)
    except Exception as exc:  # noqa: BLE001
        return [(sx.line('mbox', 'ua', [], [], [], []), f'err:{type(exc).__name__}', 0)]
    cases = []
    for state, made in recorder.calls:
        try:
            wire = [[D.w_ops(box_ops(style)), D.w_items(D.plain_items(style['content']))] for _, style, _ in made]
        except D.Unsupported:
            continue
        values, scopes = w_state(state)
        line = sx.line('mbox', 'ua', [], values, scopes, wire)
        cases.append((line, ' '.join(['ok'] + [S.enc(text) for _, _, text in made]), len(made)))
    return cases


# ---------------------------------------------------------------- judge only

def margin_clause(html_text):
    """Every generated margin box prints the counters of its page as changed by its OWN declarations only."""
    recorder = MarginRecorder()
    try:
        with recorder.installed():
            docs.render(html_text)
    except Exception as exc:  # noqa: BLE001
        return f'rendering raised {type(exc).__name__}: {exc}'
    ua = S.ua_styles()
    for page_index, (state, made) in enumerate(recorder.calls):
        for at_keyword, style, text in made:
            values = {k: list(v) for k, v in state[1].items()}
            _kind, resets, sets, incrs = box_ops(style)
            if {n for n, _ in sets} & {n for n, _ in incrs}:
                continue        # known finding counter-set-before-increment
            for name, value in resets:      # the box's own (new) scope: a reset always adds an instance
                values.setdefault(name, []).append(value)
            for pairs, op in ((incrs, lambda old, v: old + v), (sets, lambda old, v: v)):
                for name, value in pairs:
                    if not values.get(name):
                        values[name] = [0]
                    values[name][-1] = op(values[name][-1], value)
            try:
                items = D.plain_items(style['content'])
            except D.Unsupported:
                continue
            expected = ''
            for item in items:
                if item[0] == 'str':
                    expected += item[1]
                elif item[0] == 'c':
                    expected += ua.render_value(values.get(item[1], [0])[-1], item[2])
                elif item[0] == 'cs':
                    expected += item[2].join(ua.render_value(v, item[3]) for v in values.get(item[1], [0]))
                else:
                    expected = None
                    break
            if expected is not None and expected != text:
                others = [k for k, _, _ in made if k != at_keyword]
                return (f'make_margin_boxes call #{page_index + 1}: {at_keyword} prints {text!r}; the counters of the '
                        f'page {dict(state[1])} and its own declarations give {expected!r} (other generated boxes of '
                        f'the page: {others})')
    return None
