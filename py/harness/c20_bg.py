"""C20: multi-layer backgrounds (layout_box_backgrounds) and the folder cache (DiskCache) under get_image_from_uri,
compared with Model/ResourcesBg.lean; the judges state the property's clause on the implementation's output."""
import shutil
import tempfile
from pathlib import Path

from harness import c20_res as R
from harness import docs
from harness.c20_res import Spec, enc
from vlib import sx

REPEATS = ['repeat', 'no-repeat', 'repeat-x', 'repeat-y']
BOXES = ['border-box', 'padding-box', 'content-box']
ATTACHMENTS = ['scroll', 'fixed']
GRADIENTS = ['linear-gradient(red, blue)', 'radial-gradient(white, black)', 'linear-gradient(to right, lime, black)']
BASE = 'http://doc.test/dir/'


def gen_box(rng, serial):
    """A box with a 1..5 layer background-image and per-layer lists of independent lengths (cycled)."""
    contents = R.bank()
    n = rng.choice([1, 2, 2, 3, 3, 4, 5])
    pool = [f'{BASE}bg{serial}x{i}.png' for i in range(rng.choice([1, 2, 3]))]
    table = {}
    for url in pool:
        r = rng.random()
        if r < 0.35:
            table[url] = Spec('raises', exc=rng.choice(R.EXCEPTIONS + [R.url_fetching_error])())
        elif r < 0.5:
            table[url] = Spec('resp', content=contents[rng.choice(['html', 'empty', 'garbage', 'png_cut20', 'tiff_cmyk'])],
                              string=True, mime=rng.choice([None, 'image/png', 'text/html']))
        elif r < 0.55:
            table[url] = Spec('resp', content=contents['png'], string=False, file_obj=(OSError('reset'), False), mime='image/png')
        else:
            string = rng.random() < 0.6
            table[url] = Spec('resp', content=contents[rng.choice(['png', 'png_rgba', 'jpeg', 'gif', 'svg'])], string=string,
                              file_obj=None if string else (None, False), mime=rng.choice([None, 'image/png', 'image/svg+xml']))
    images = []
    for _ in range(n):
        r = rng.random()
        if r < 0.6:
            images.append(('url', rng.choice(pool)))
        elif r < 0.78:
            images.append(('none', None))
        else:
            images.append(('grad', rng.randrange(len(GRADIENTS))))

    def ids(limit):
        return [rng.randrange(limit) for _ in range(rng.choice([1, n, n, n, max(1, n - 1), n + 1]))]
    style = {'sizes': ids(8), 'clips': ids(3), 'repeats': ids(4), 'origins': ids(3), 'positions': ids(8),
             'attachments': [rng.choice([0, 0, 0, 1]) for _ in range(rng.choice([1, n]))]}
    return {'images': images, 'style': style, 'table': table, 'hidden': rng.choice([False] * 15 + ['hidden', 'collapse']),     # visibility other than visible (af29a5d)
            'transparent': rng.random() < 0.6, 'orient': rng.choice(['from-image', 'from-image', 'none', (90, False)])}


def box_html(box, drop_failed=False):
    """The document; with `drop_failed`, `none` stands in place of every url() layer that cannot be loaded."""
    def layer(kind, value):
        if kind == 'url':
            return 'none' if (drop_failed and not loads(box['table'][value])) else f"url('{value}')"
        return 'none' if kind == 'none' else GRADIENTS[value]
    style = box['style']
    orient = {'from-image': '', 'none': 'image-orientation:none;'}.get(box['orient'], 'image-orientation:90deg;')
    decls = (
        'background-image:' + ','.join(layer(k, v) for k, v in box['images']) + ';'
        'background-size:' + ','.join(f'{10 + i}px {5 + i}px' for i in style['sizes']) + ';'
        'background-clip:' + ','.join(BOXES[i] for i in style['clips']) + ';'
        'background-repeat:' + ','.join(REPEATS[i] for i in style['repeats']) + ';'
        'background-origin:' + ','.join(BOXES[i] for i in style['origins']) + ';'
        'background-position:' + ','.join(f'{i}px {2 * i}px' for i in style['positions']) + ';'
        'background-attachment:' + ','.join(ATTACHMENTS[i] for i in style['attachments']) + ';'
        + ('' if box['transparent'] else 'background-color:red;') + (f'visibility:{box["hidden"]};' if box['hidden'] else '') + orient)
    return ('<html><head><style>@page{size:300px 200px;margin:7px}body{margin:0}</style></head><body>'
            f'<div id=b style="{decls}width:60px;height:40px;padding:3px;border:2px solid"></div></body></html>')


def loads(spec):
    return spec.kind == 'resp' and spec.delivers and spec.content.image_loads


def show_layers(document):
    """`box.background` of the div in the model's vocabulary."""
    from weasyprint.images import RasterImage, SVGImage
    from weasyprint.layout.background import box_rectangle
    page = document.pages[0]._page_box
    found = [b for b in walk(page) if getattr(b, 'element', None) is not None and b.element.get('id') == 'b']
    box = found[0]
    if box.background is None:
        return 'background=none'
    shown = []
    for layer in box.background.layers:
        clip = [tuple(box_rectangle(box, name)) for name in BOXES].index(tuple(layer.painting_area))
        if layer.image is None:
            shown.append(f'none:{clip}')
            continue
        kind = 'img' if isinstance(layer.image, (RasterImage, SVGImage)) else 'grad'
        area = tuple(layer.positioning_area)
        if area == tuple(box_rectangle(page, 'content-box')):
            origin = 'fixed'
        else:
            origin = [tuple(box_rectangle(box, name)) for name in BOXES].index(area)
        size, position = layer.size[0] - 10, layer.position[0]
        assert size == int(size) and position == int(position) and layer.size[1] - 5 == size and layer.position[1] == 2 * position
        repeat = {('repeat', 'repeat'): 0, ('no-repeat', 'no-repeat'): 1, ('repeat', 'no-repeat'): 2, ('no-repeat', 'repeat'): 3}[tuple(layer.repeat)]
        shown.append(f'{kind}:{int(size)}:{clip}:{repeat}:{origin}:{int(position)}')
    return 'background=[' + ','.join(shown) + ']'


def walk(box):
    yield box
    for child in getattr(box, 'children', None) or ():
        yield from walk(child)


def run_box(box, drop_failed=False):
    recorder = R.Recorder(dict(box['table']))
    try:
        document = docs.html(box_html(box, drop_failed), base_url=BASE, url_fetcher=recorder).render()
        out = show_layers(document)
    except Exception as exc:  # noqa: BLE001
        out = f'err:{type(exc).__name__}'
    return f'log={recorder.log()} {out}'


def box_wire(box):
    images = [['url', enc(v)] if k == 'url' else ('none' if k == 'none' else ['grad', v]) for k, v in box['images']]
    style = box['style']
    orient = box['orient'] if isinstance(box['orient'], str) else list(box['orient'])
    return [bool(box['hidden']), box['transparent'], False, orient, images, style['sizes'], style['clips'], style['repeats'],
            style['origins'], style['positions'], style['attachments']]


def box_json(box):
    return {**{k: box[k] for k in ('images', 'style', 'hidden', 'transparent', 'orient')},
            'table': {u: s.json() for u, s in box['table'].items()}}


def box_from_json(data):
    box = dict(data)
    box['table'] = {u: Spec.from_json(j) for u, j in data['table'].items()}
    box['images'] = [tuple(i) for i in data['images']]
    box['orient'] = data['orient'] if isinstance(data['orient'], str) else tuple(data['orient'])
    return box


def section(run):
    docs.quiet()
    sec = run.section('background-layers', 'layout_box_backgrounds on rendered boxes with 1..5 background layers (url / none / '
                      'gradient; the same URL in several layers) and per-layer size / clip / repeat / origin / position / '
                      'attachment lists of independent lengths, recording fetcher with failure modes: fetch log and every '
                      'layer of box.background (image or none, and which value of each list it got); non-trivial = a url() '
                      'layer fails to load')
    fixed = [   # regression shapes: a failing first layer before a gradient and a good image
        {'images': [('url', BASE + 'bad.png'), ('grad', 0), ('url', BASE + 'ok.png')],
         'style': {'sizes': [1, 2, 3], 'clips': [0, 1, 2], 'repeats': [1, 2, 3], 'origins': [0, 1, 2], 'positions': [1, 2, 3],
                   'attachments': [0]},
         'table': {BASE + 'bad.png': Spec('raises', exc=OSError('connection reset')),
                   BASE + 'ok.png': Spec('resp', content=R.bank()['png'], string=True, mime='image/png')},
         'hidden': False, 'transparent': True, 'orient': 'from-image'}]
    fixed.append({**fixed[0], 'table': {BASE + 'bad.png': Spec('resp', content=R.bank()['html'], string=True, mime='text/html'),
                                       BASE + 'ok.png': fixed[0]['table'][BASE + 'ok.png']}})
    # regression of af29a5d (found by C17): a box with visibility: collapse paints no background, fetches nothing
    fixed.append({**fixed[0], 'hidden': 'collapse', 'transparent': False})
    fixed.append({**fixed[0], 'hidden': 'hidden', 'transparent': False})
    boxes = fixed + [gen_box(run.rng, i) for i in range(run.n(160, 2500))]
    for box in boxes:
        failing = any(k == 'url' and not loads(box['table'][v]) for k, v in box['images'])
        sec.add(sx.line('bg', R.Recorder(box['table']).sx(), [False, None, None], box_wire(box)), run_box(box),
                meta={'box': box_json(box)}, nontrivial=failing,
                tags=[f'layers{len(box["images"])}', 'failing-layer' if failing else 'all-load'] +
                     ([f'visibility-{box["hidden"]}'] if box['hidden'] else []))


def judge(meta):
    """`… giving the same result as the document without that reference`: the layers must be those of the same
    declaration with `none` in place of the url() layers that cannot be loaded."""
    docs.quiet()
    R.bank()
    box = box_from_json(meta['box'])
    real = run_box(box)
    if ' err:' in real:
        if any(spec.escaping for spec in box['table'].values()):
            return None
        return f'rendering raised {real.split(" err:")[1]} although every fetch failure is a plain failure mode'
    absent = run_box(box, drop_failed=True)
    if real.split(' ', 1)[1] != absent.split(' ', 1)[1]:
        return ('box.background differs from the one of the same declaration with `none` in place of the layers that '
                f'cannot be loaded: {real.split(" ", 1)[1]} instead of {absent.split(" ", 1)[1]}')
    return None


# ------------------------------------------------------------------------------------------------------------------
# DiskCache

def run_disk_case(prop, case):
    """`run_image_case` with the `cache` option of a render given as a folder: a DiskCache."""
    from weasyprint.document import DiskCache
    from weasyprint.images import get_image_from_uri
    from props.c20 import cache_key, opts_sx, orient_sx, real_options, show_img
    folder = Path(tempfile.mkdtemp(prefix='c20-diskcache-'))
    try:
        cache = DiskCache(folder / 'cache')
        recorder = R.Recorder(case['table'])
        outs, shown, tags, failing = [], {}, set(), False
        for url, orient, forced, opts in case['reqs']:
            spec = case['table'].get(url)
            key = cache_key(url, orient, opts)
            try:
                with R.counting_saves() as saves:
                    image = get_image_from_uri(cache, recorder, real_options(opts), url, forced, None, orient)
            except Exception as exc:  # noqa: BLE001
                text = f'err:{type(exc).__name__}'
            else:
                if key not in shown:
                    try:
                        shown[key] = show_img(image, spec, 0, saves['n'], spec.content.data if image is not None else None)
                    except AssertionError:
                        shown[key] = 'raster:foreign-bytes'     # neither the fetcher's bytes nor re-encoded in this call
                text = shown[key]
            tags.add(text.split(':')[0] if not text.startswith('err') else 'escapes')
            failing = failing or text == 'none' or text.startswith('err')
            outs.append(recorder.take() + text)
        cache_text = ','.join(f'{enc(k)}={shown[k]}' for k in cache._memory_cache if k in shown)
        line = sx.line('imagesdisk', recorder.sx(), [[enc(u), orient_sx(o), enc(m), opts_sx(opts)] for u, o, m, opts in case['reqs']])
        del cache
        return line, ';'.join(outs) + f' cache=[{cache_text}]', failing, sorted(tags)
    finally:
        shutil.rmtree(folder, ignore_errors=True)


def disk_section(run, prop):
    sec = run.section('image-sequences-disk-cache', 'get_image_from_uri: the sequences of `image-sequences` over a shared '
                      'DiskCache on an empty folder (the `cache` option given as a folder); same observables, plus the '
                      'memory part of the cache; non-trivial = some fetch fails')
    for _ in range(run.n(250, 4000)):
        case = prop.gen_image_case(run.rng)
        if run.rng.random() < 0.5:      # ask again for everything that was asked: every cached value is read back
            case['reqs'] = case['reqs'] + case['reqs'][:6]
        line, out, nontrivial, tags = run_disk_case(prop, case)
        sec.add(line, out, meta={'case': prop.case_meta(case)}, nontrivial=nontrivial, tags=tags)
