"""C15 helpers, descriptor half: token lists for the `@counter-style` descriptor validators (real tinycss2
tokens mapped to the model's abstract tokens), calls of the real validators, of the real rule registration
(`preprocess_stylesheet`) and of `parse_counter_style_name`."""
import tinycss2

from harness import c15_styles as S
from vlib import sx

DESCRIPTORS = ['system', 'negative', 'prefix', 'suffix', 'range', 'pad', 'fallback', 'symbols', 'additive-symbols']
FIELD = {'system': 'system', 'negative': 'negative', 'prefix': 'prefix', 'suffix': 'suffix', 'range': 'range',
         'pad': 'pad', 'fallback': 'fallback', 'symbols': 'symbols', 'additive-symbols': 'additive_symbols'}
BASE = 'http://x.invalid/'

PIECES = ['cyclic', 'numeric', 'alphabetic', 'symbolic', 'additive', 'fixed', 'extends', 'Extends', 'FIXED', 'auto',
          'Auto', 'infinite', 'INFINITE', 'none', 'decimal', 'Foo', 'a', 'b', '"x"', '"a b"', '""', '0', '1', '2', '3',
          '-1', '+4', '10', '2.5', '1e1', '5%', '3px', ',', ',', 'url(http://x.invalid/i.png)', 'url(rel.png)', '-',
          '(', 'f(x)', '#h', '!']


def tokens_of(text):
    return [t for t in tinycss2.parse_component_value_list(text) if t.type not in ('whitespace', 'comment')]


def w_tok(token):
    if token.type == 'ident':
        return ['i', S.enc(token.value)]
    if token.type == 'string':
        return ['s', S.enc(token.value)]
    if token.type == 'number':
        return ['n', token.int_value] if token.is_integer else 'num'
    if token.type == 'url' or (token.type == 'function' and token.lower_name == 'url'):
        return 'url'
    if token.type == 'literal' and token.value == ',':
        return 'comma'
    return 'other'


def has_relative_url(tokens):
    return any(t.type == 'url' and '://' not in t.value for t in tokens)


def gen_value(rng, name):
    """Mostly plausible values for the descriptor, plus token soup."""
    r = rng.random()
    if r < 0.3:
        return ' '.join(rng.choice(PIECES) for _ in range(rng.choice([0, 1, 1, 2, 2, 3, 4])))
    if name == 'system':
        return rng.choice(['cyclic', 'numeric', 'fixed', 'fixed 3', 'fixed -2', 'fixed 2.5', 'fixed a', 'extends foo',
                           'extends Foo', 'extends', 'extends a b', 'ADDITIVE', 'symbolic x', 'alphabetic'])
    if name == 'range':
        def part():
            return rng.choice(['auto', 'AUTO', 'infinite infinite', '1 3', '3 1', '0 0', '-5 infinite', 'infinite 9',
                               '1 infinite', 'infinite', '2 2.5', 'Infinite 3', '1 2 3', '', 'auto auto', '"auto"'])
        return ', '.join(part() for _ in range(rng.choice([1, 1, 2, 3])))
    if name in ('pad',):
        return rng.choice(['3 "0"', '"0" 3', '0 x', '-1 x', '2.0 x', '3 4', '3', 'x y', '3 url(http://x.invalid/p)',
                           '2 "a" 3', '+2 é'])
    if name == 'additive-symbols':
        def part():
            return rng.choice(['5 V', '1 I', '0 Z', 'X 10', '4 "IV"', '5 5', '2.5 q', 'q', '3 url(http://x.invalid/p)', ''])
        parts = [part() for _ in range(rng.choice([1, 2, 2, 3, 4]))]
        if rng.random() < 0.5:
            parts = ['10 X', '5 V', '1 I'][:rng.choice([1, 2, 3])] + ([parts[0]] if rng.random() < 0.3 else [])
        return ', '.join(parts)
    if name == 'negative':
        return rng.choice(['"-"', '"(" ")"', 'a b c', 'neg', '3 a', 'url(http://x.invalid/n) x', '- -', '""'])
    if name == 'fallback':
        return rng.choice(['decimal', 'none', 'None', 'Foo', '"x"', 'a b', '3'])
    return ' '.join(rng.choice(['a', '"b"', 'X', '"*"', 'url(http://x.invalid/s)', '3', ',', '""'])
                    for _ in range(rng.choice([0, 1, 2, 3, 5])))


def dv_case(rng):
    from weasyprint.css.utils import InvalidValues
    from weasyprint.css.validation.descriptors import DESCRIPTORS as REAL
    name = rng.choice(DESCRIPTORS)
    text = gen_value(rng, name)
    tokens = tokens_of(text)
    if has_relative_url(tokens):
        tokens = [t for t in tokens if not (t.type == 'url' and '://' not in t.value)]
    function = REAL['counter-style'][name]
    try:
        value = function(tokens, BASE) if function.wants_base_url else function(tokens)
        if value is None:
            out = 'none'
        else:
            desc = dict.fromkeys(S.FIELDS)
            desc[FIELD[name]] = value
            out = sx.dumps(S.w_desc(desc))
    except InvalidValues:
        out = 'none'
    except Exception as exc:  # noqa: BLE001
        out = f'err:{type(exc).__name__}'
    return sx.line('dv', name, [w_tok(t) for t in tokens]), out, name, text


def rule_case(rng):
    decls = []
    for _ in range(rng.choice([1, 2, 3, 4, 5])):
        name = rng.choice(DESCRIPTORS + ['speak-as'])
        value = gen_value(rng, name) if name != 'speak-as' else 'auto'
        if 'rel.png' in value or ';' in value or '{' in value or '}' in value or '(' in value.replace('url(', '').replace('f(x)', ''):
            value = 'a'
        if rng.random() < 0.7 and name in ('system', 'symbols', 'additive-symbols'):
            value = {'system': rng.choice(['cyclic', 'numeric', 'alphabetic', 'additive', 'fixed 2', 'extends decimal', 'symbolic']),
                     'symbols': rng.choice(['a', 'a b', 'a b c', '"x" "y"']),
                     'additive-symbols': rng.choice(['5 V, 1 I', '5 V', '9 IX, 5 V, 1 I, 0 N'])}[name]
        decls.append((name, value))
    css = '@counter-style zz { ' + '; '.join(f'{n}: {v}' for n, v in decls) + ' }'
    wire = []
    for n, v in decls:
        tokens = tokens_of(v)
        wire.append([n, [w_tok(t) for t in tokens]])
    try:
        cs = S.parse_styles(css, 'empty')
        out = sx.dumps(S.w_desc(cs['zz'])) if 'zz' in cs else 'ignored'
    except Exception as exc:  # noqa: BLE001
        out = f'err:{type(exc).__name__}'
    return sx.line('rule', wire), out, css


def name_case(rng):
    from weasyprint.css.counters import parse_counter_style_name
    text = rng.choice(['decimal', 'Decimal', 'disc', 'DISC', 'none', 'None', 'foo', 'Foo', 'a b', '"x"', '3', '', 'lower-roman'])
    known = {k for k in ('decimal', 'disc') if rng.random() < 0.5}
    value = parse_counter_style_name(tinycss2.parse_component_value_list(text), dict.fromkeys(known))
    return (sx.line('csname', [w_tok(t) for t in tokens_of(text)], 'decimal' in known, 'disc' in known),
            'none' if value is None else S.enc(value), text)
