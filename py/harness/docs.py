"""Document-level helpers: render with the light UA sheet and the fixed-pitch test font.

The font `weasyprint.otf` has advance = font-size for every glyph and normal line-height = font-size.
"""
import functools
import logging
from pathlib import Path

RES = Path(__file__).resolve().parents[1] / 'resources'


@functools.lru_cache(maxsize=1)
def _env():
    from weasyprint import CSS, HTML
    from weasyprint.html import HTML5_UA_STYLESHEET
    from weasyprint.text.fonts import FontConfiguration
    from weasyprint.urls import path2url
    font_config = FontConfiguration()
    ua = CSS(RES / 'tests_ua.css', font_config=font_config)

    class VHTML(HTML):
        def _ua_stylesheets(self, forms=False):
            return [ua if sheet == HTML5_UA_STYLESHEET else sheet
                    for sheet in super()._ua_stylesheets(forms)]

        def render(self, font_config_=None, *args, **kwargs):
            return super().render(font_config, *args, **kwargs)

    return VHTML, path2url(str(RES / '<verif>')), font_config


def html(string, **kwargs):
    VHTML, base_url, _ = _env()
    kwargs.setdefault('base_url', base_url)
    return VHTML(string=string, **kwargs)


def render(string, **kwargs):
    return html(string, **kwargs).render()


def page_texts(document):
    """Per page, the ordered texts of its TextBoxes."""
    from weasyprint.formatting_structure import boxes
    return [[box.text for box in page._page_box.descendants() if isinstance(box, boxes.TextBox)]
            for page in document.pages]


def quiet():
    logging.getLogger('weasyprint').setLevel(logging.CRITICAL)
    logging.getLogger('weasyprint.progress').setLevel(logging.CRITICAL)
    logging.getLogger('fontTools').setLevel(logging.CRITICAL)


def outcome(fn):
    """Run fn(); exceptions become the wire form `err:<Class>` used by the models."""
    try:
        return fn()
    except Exception as exc:  # noqa: BLE001 - every class is an outcome kind
        return f'err:{type(exc).__name__}'


class Hang(Exception):
    """The implementation exceeded its wall-clock budget (an outcome, `err:Hang`, never a hang of the check)."""


def time_limit(seconds=20):
    """Context manager: raise Hang in the main thread after `seconds` of CPU time of this process (a hang of the
    layout is a busy loop; CPU time, unlike wall clock, does not depend on how loaded the machine is)."""
    import contextlib
    import signal

    @contextlib.contextmanager
    def manager():
        def on_alarm(signum, frame):
            raise Hang()
        try:
            previous = signal.signal(signal.SIGPROF, on_alarm)
        except ValueError:          # not in the main thread: no limit
            yield
            return
        signal.setitimer(signal.ITIMER_PROF, seconds)
        try:
            yield
        finally:
            signal.setitimer(signal.ITIMER_PROF, 0)
            signal.signal(signal.SIGPROF, previous)
    return manager()
