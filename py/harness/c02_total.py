"""C02 totality outside the pagination model (sections added by c02_total.add_sections):

inline-baseline   real `inline_block_baseline` on real boxes, every small tree            <-> Model/C02Extra `ibaseline`
thumb-size        real `RasterImage.get_x_object` (the size it asks of Image.thumbnail)    <-> Model/C02Extra `thumb`
display-parts     documents: every `display` value x every sequence of table parts (empty / filled), render + write
output-options    documents: every output option x degenerate image geometries, render + write
nesting-growth    cost (count of Python function calls, deterministic) of one construct nested d, 3d/2, 2d deep,
                  judged by the Lean growth checker (`growth`); a blow-up is an outcome, never a hang of the check

Known lists: corpus/C02/growth_known.json {construct: [impl outcome, model outcome, finding id]}.
"""
import base64
import collections
import io
import itertools
import json
import sys
from fractions import Fraction

from harness import docs, wide_trace
from vlib import sx
from vlib.paths import CORPUS

SECTIONS = ('inline-baseline', 'thumb-size', 'display-parts', 'output-options', 'nesting-growth', 'margin-boxes',
            'table-spans', 'row-ending')


# ---------------------------------------------------------------------------------------------
# inline_block_baseline on real boxes

KIND_CLASS = {'line': 'LineBox', 'caption': 'TableCaptionBox', 'table': 'TableBox', 'other': 'BlockBox',
              'group': 'TableRowGroupBox', 'row': 'TableRowBox'}


def _style(in_flow=True, overflow='visible'):
    return {'float': 'none' if in_flow else 'left', 'position': 'static', 'overflow': overflow}


def real_ibox(node):
    """node = [kind, in_flow, y, baseline, kids] (kind also 'group' / 'row', wired as `other`) -> real box."""
    from weasyprint.formatting_structure import boxes
    kind, in_flow, y, baseline, kids = node
    box = getattr(boxes, KIND_CLASS[kind])('div', _style(in_flow), None, [real_ibox(k) for k in kids])
    box.position_y = y
    box.baseline = baseline
    return box


def real_iblock(case):
    from weasyprint.formatting_structure import boxes
    wrapper, visible, y, margin_height, kids = case
    box = boxes.InlineBlockBox('span', _style(True, 'visible' if visible else 'hidden'), None,
                               [real_ibox(k) for k in kids])
    box.is_table_wrapper = wrapper
    box.position_y = y
    box.height = margin_height
    for name in ('margin_top', 'margin_bottom', 'padding_top', 'padding_bottom', 'border_top_width',
                 'border_bottom_width'):
        setattr(box, name, 0)
    return box


def wire_ibox(node):
    kind, in_flow, y, baseline, kids = node
    return [kind if kind in ('line', 'caption', 'table') else 'other', in_flow, y, baseline,
            [wire_ibox(k) for k in kids]]


def baseline_cases():
    """Every wrapper content (captions x sequences of up to three row groups with 0-2 rows) and every inline-block
    content (sequences of up to three children out of eight shapes). Positions and baselines are all different,
    so the result names the box it was read from."""
    counter = itertools.count(1)

    def num():
        return Fraction(next(counter))

    def row():
        return ['row', True, num(), num(), []]

    def group(rows):
        return ['group', True, num(), num(), [row() for _ in range(rows)]]

    def line(zero=False):
        y = num()
        return ['line', True, y, -y if zero else num(), []]

    def caption():
        return ['caption', True, num(), num(), [line()]]

    for top, bottom, has_table in itertools.product((0, 1), (0, 1), (True, False)):
        for count in range(4):
            for rows in itertools.product((0, 1, 2), repeat=count):
                kids = [caption() for _ in range(top)]
                if has_table:
                    kids.append(['table', True, num(), num(), [group(n) for n in rows]])
                elif rows:
                    continue
                kids += [caption() for _ in range(bottom)]
                yield [True, True, num(), num(), kids], f'wrapper-g{count}'
    shapes = {
        'line': lambda: line(),
        'line0': lambda: line(zero=True),           # position_y + baseline = 0: `if result:` is false
        'block-line': lambda: ['other', True, num(), num(), [line()]],
        'block-empty': lambda: ['other', True, num(), num(), []],
        'float-line': lambda: ['other', False, num(), num(), [line()]],
        'caption': caption,
        'nested': lambda: ['other', True, num(), num(), [['other', True, num(), num(), [line(), line()]],
                                                          ['other', False, num(), num(), [line()]]]],
        'table-wrapper': lambda: ['other', True, num(), num(), [caption(), ['table', True, num(), num(), [group(1)]]]],
    }
    for visible in (True, False):
        for count in range(4):
            for names in itertools.product(shapes, repeat=count):
                yield [False, visible, num(), num(), [shapes[name]() for name in names]], f'block-k{count}'


def add_baseline(run, sec):
    from weasyprint.layout import inline

    def show(value):
        value = Fraction(value)
        return str(value.numerator) if value.denominator == 1 else f'{value.numerator}/{value.denominator}'
    cases = list(baseline_cases())
    if not run.thorough:     # quick: up to two children exhaustively, a seeded sample of the three-children trees
        big = [c for c in cases if c[1] == 'block-k3']
        cases = [c for c in cases if c[1] != 'block-k3'] + run.rng.sample(big, 80)
    for case, tag in cases:
        out = docs.outcome(lambda: show(inline.inline_block_baseline(real_iblock(case))))
        wrapper, visible, y, margin_height, kids = case
        sec.add(sx.line('ibaseline', wrapper, visible, y, margin_height, [wire_ibox(k) for k in kids]), out,
                meta={'case': json_case(case), 'signature': 'inline-baseline'}, nontrivial=bool(kids), tags=[tag])


def json_case(case):
    def conv(x):
        if isinstance(x, Fraction):
            return str(x)
        if isinstance(x, list):
            return [conv(i) for i in x]
        return x
    return conv(case)


def case_from_json(case):
    def conv(x):
        if isinstance(x, str) and (x.lstrip('-').replace('/', '').isdigit()):
            return Fraction(x)
        if isinstance(x, list):
            return [conv(i) for i in x]
        return x
    return conv(case)


def replay_baseline(meta):
    from weasyprint.layout import inline
    out = docs.outcome(lambda: inline.inline_block_baseline(real_iblock(case_from_json(meta['case']))))
    return f'inline_block_baseline raised {out}' if str(out).startswith('err:') else None


# ---------------------------------------------------------------------------------------------
# thumbnail size under the dpi option

def png_bytes(width, height, mode='RGB', fmt='PNG'):
    from PIL import Image
    color = {'RGB': (200, 30, 30), 'RGBA': (200, 30, 30, 128), 'L': 90, 'P': 3, '1': 1, 'LA': (90, 128),
             'CMYK': (10, 20, 30, 40)}[mode]
    buf = io.BytesIO()
    Image.new(mode, (width, height), color).save(buf, fmt)
    return buf.getvalue()


def thumb_request(width, height, ratio, mode='RGB', fmt='PNG'):
    """(W, H) that the real get_x_object asks of Image.thumbnail (the real thumbnail then runs)."""
    from PIL import Image
    from weasyprint.images import RasterImage
    data = png_bytes(width, height, mode, fmt)
    options = {'jpeg_quality': None, 'dpi': 96, 'optimize_images': False}
    image = RasterImage(Image.open(io.BytesIO(data)), f'i{width}x{height}', data, None, {}, 'none', options)
    asked = []
    original = Image.Image.thumbnail

    def thumbnail(self, size, *args, **kwargs):
        asked.append(tuple(size))
        return original(self, size, *args, **kwargs)
    Image.Image.thumbnail = thumbnail
    try:
        image.get_x_object(True, float(ratio))
    finally:
        Image.Image.thumbnail = original
    return asked[0]


THUMB_SIZES = (1, 2, 3, 5, 8, 100, 400)
THUMB_RATIOS = [Fraction(1, 2), Fraction(1, 4), Fraction(3, 8), Fraction(3, 4), Fraction(1, 8), Fraction(5, 16),
                Fraction(1, 64), Fraction(1, 1024), Fraction(7, 8)]


def add_thumb(run, sec):
    for width, height in itertools.product(THUMB_SIZES, THUMB_SIZES):
        ratios = THUMB_RATIOS if max(width, height) <= 8 or min(width, height) == 1 else run.rng.sample(THUMB_RATIOS, 2)
        for ratio in ratios:
            out = docs.outcome(lambda: '({} {})'.format(*thumb_request(width, height, ratio)))
            sec.add(sx.line('thumb', width, height, ratio), out,
                    meta={'thumb': [width, height, str(ratio)], 'signature': 'thumb-size'},
                    nontrivial=min(width, height) * ratio < Fraction(1, 2), tags=[f'min{min(width, height)}'])


def replay_thumb(meta):
    width, height, ratio = meta['thumb']
    out = docs.outcome(lambda: thumb_request(width, height, Fraction(ratio)))
    return (f'write_pdf(dpi=…) of a {width}x{height} image downsampled by {ratio}: get_x_object raised {out}'
            if str(out).startswith('err:') else None)


# ---------------------------------------------------------------------------------------------
# documents: display x table parts

DISPLAYS = ['inline-table', 'table', 'inline-block', 'inline-flex', 'flex', 'grid', 'inline-grid', 'block', 'inline',
            'list-item', 'flow-root', 'table-cell', 'table-row', 'table-row-group', 'table-header-group',
            'table-footer-group', 'table-caption', 'table-column-group', 'contents', 'none']
PAIR_DISPLAYS = ['inline-table', 'table', 'inline-block', 'inline-flex', 'flex', 'grid']


def _d(display, inner=''):
    return f'<div style="display:{display}">{inner}</div>'


CELL = _d('table-cell', 'c')
PARTS = {
    'hg0': _d('table-header-group'), 'hg1': _d('table-header-group', _d('table-row', CELL)),
    'rg0': _d('table-row-group'), 'rg1': _d('table-row-group', _d('table-row', CELL)),
    'rgr0': _d('table-row-group', _d('table-row')),
    'fg0': _d('table-footer-group'), 'fg1': _d('table-footer-group', _d('table-row', CELL)),
    'row0': _d('table-row'), 'row1': _d('table-row', CELL), 'cell0': _d('table-cell'), 'cell1': CELL,
    'cap0': _d('table-caption'), 'cap1': _d('table-caption', 'k'),
    'capb': '<div style="display:table-caption;caption-side:bottom">k</div>',
    'colg': _d('table-column-group', _d('table-column')), 'text': 't', 'blk': '<div>d</div>',
}
HTML_TABLES = [
    '<table style="display:{d}"><thead></thead><tbody><tr><td>x</td></tr></tbody></table>',
    '<table style="display:{d}"><tbody></tbody><tbody><tr><td>x</td></tr></tbody></table>',
    '<table style="display:{d}"><tfoot></tfoot><tr><td>x</td></tr></table>',
    '<table style="display:{d}"><caption>k</caption><thead></thead><tfoot><tr><td>f</td></tr></tfoot></table>',
    '<table style="display:{d}"><tr></tr><tr><td>x</td></tr></table>',
    '<table style="display:{d}"><colgroup></colgroup><tbody></tbody></table>',
    '<table style="display:{d}"></table>',
]
DOC_HEAD = ('<style>@page{size:300px 200px;margin:0}html,body{margin:0}body{font-size:10px;line-height:10px}'
            'p{margin:0}</style>')


def display_elements():
    """-> (element id, html of one element in a line of text)"""
    for display in DISPLAYS:
        yield f'{display}/', f'<p>a {_d(display)} b</p>'
        for name, part in PARTS.items():
            yield f'{display}/{name}', f'<p>a {_d(display, part)} b</p>'
    for display in PAIR_DISPLAYS:
        for (n1, p1), (n2, p2) in itertools.product(PARTS.items(), repeat=2):
            yield f'{display}/{n1}+{n2}', f'<p>a {_d(display, p1 + p2)} b</p>'
    for display in ('inline-table', 'table', 'inline-block', 'inline-flex', 'block', 'inline'):
        for index, template in enumerate(HTML_TABLES):
            yield f'{display}/html{index}', '<p>a</p>' + template.format(d=display) + '<p>b</p>'


def batches(items, size):
    items = list(items)
    for start in range(0, len(items), size):
        yield items[start:start + size]


def add_batched(sec, elements, size, options=None, limit_s=10, tag=lambda ident: ident.split('/')[0]):
    """Render the elements `size` at a time; a batch that fails is rendered element by element, so that every case
    reported is one element."""
    for batch in batches(elements, size):
        html = DOC_HEAD + ''.join(h for _, h in batch)
        out = wide_trace.render_outcome(html, limit_s=limit_s, options=options)
        if out == 'ok':
            for ident, h in batch:
                sec.add(sx.line('total'), 'ok', meta={'doc_id': ident, 'html': DOC_HEAD + h, 'options': options or {}},
                        tags=[tag(ident)])
            continue
        failed = False
        for ident, h in batch:
            single = wide_trace.render_outcome(DOC_HEAD + h, limit_s=5, options=options)
            failed = failed or single != 'ok'
            sec.add(sx.line('total'), single, meta={'doc_id': ident, 'html': DOC_HEAD + h, 'options': options or {}},
                    tags=[tag(ident)])
        if not failed:      # fails only together
            sec.add(sx.line('total'), out, meta={'doc_id': batch[0][0] + '…', 'html': html, 'options': options or {}})


# ---------------------------------------------------------------------------------------------
# documents: output options x degenerate images

def data_uri(width, height, mode='RGB', fmt='PNG'):
    mime = {'PNG': 'png', 'JPEG': 'jpeg', 'GIF': 'gif', 'TIFF': 'tiff', 'BMP': 'bmp', 'WEBP': 'webp'}[fmt]
    return f'data:image/{mime};base64,' + base64.b64encode(png_bytes(width, height, mode, fmt)).decode()


IMAGES = [(1, 1, 'RGB', 'PNG'), (3, 3, 'RGB', 'PNG'), (400, 1, 'RGB', 'PNG'), (1, 400, 'RGB', 'PNG'),
          (1200, 2, 'RGB', 'PNG'), (64, 64, 'RGBA', 'PNG'), (64, 3, 'L', 'PNG'), (400, 1, 'P', 'PNG'),
          (400, 1, 'RGB', 'JPEG'), (2, 300, 'L', 'JPEG'), (300, 2, 'P', 'GIF'), (5, 5, '1', 'PNG')]
IMAGE_CSS = ['', 'width:100px;height:1px', 'width:1px;height:100px', 'width:1px;height:1px',
             'width:300px;height:0.5px', 'width:0;height:0', 'width:50px', 'display:block;width:100px;height:1px']
OPTION_SETS = [
    {}, {'dpi': 1}, {'dpi': 72}, {'dpi': 96}, {'dpi': 150}, {'dpi': 600}, {'dpi': 0},
    {'jpeg_quality': 0}, {'jpeg_quality': 95}, {'optimize_images': True}, {'dpi': 96, 'optimize_images': True},
    {'dpi': 150, 'jpeg_quality': 10}, {'dpi': 96, 'jpeg_quality': 50, 'optimize_images': True},
    {'uncompressed_pdf': True}, {'full_fonts': True}, {'hinting': True}, {'presentational_hints': True},
    {'srgb': True}, {'custom_metadata': True}, {'pdf_forms': True}, {'pdf_identifier': b'id'},
    {'pdf_version': '1.4'}, {'pdf_version': '2.0'}, {'pdf_variant': 'pdf/a-1b'}, {'pdf_variant': 'pdf/a-3u'},
    {'pdf_variant': 'pdf/ua-1'}, {'pdf_variant': 'pdf/a-2b', 'dpi': 96}, {'pdf_variant': 'pdf/ua-1', 'dpi': 150},
    {'media_type': 'screen'}, {'dpi': 96, 'uncompressed_pdf': True},
]
OTHER_CONTENT = ('<p><a href="#x" id="x">l</a> <input value="v"> <svg width="4" height="0"></svg>'
                 '<img alt="none" src="data:image/png;base64,AAAA" style="width:10px;height:10px"></p>')


def image_elements(rng=None, sample=None, fixed=True):
    """Every image x every CSS size; with `sample`: the four thin / tiny RGB images under every CSS size (when `fixed`)
    and a seeded sample of the other combinations."""
    uris = {}
    combos = list(itertools.product(IMAGES, IMAGE_CSS))
    if sample is not None:
        thin = [c for c in combos if c[0][:2] in ((400, 1), (1200, 2), (1, 400), (3, 3)) and c[0][2:] == ('RGB', 'PNG')]
        rest = [c for c in combos if c not in thin]
        combos = (thin if fixed else []) + rng.sample(rest, sample)
    for (width, height, mode, fmt), css in combos:
        key = (width, height, mode, fmt)
        if key not in uris:
            uris[key] = data_uri(*key)
        ident = f'{fmt.lower()}-{mode}-{width}x{height}/{css or "natural"}'
        yield ident, f'<p>a<img alt="i" src="{uris[key]}" style="{css}">b</p>'


def options_label(options):
    return ','.join(f'{k}={v}' for k, v in options.items()) or 'default'


# ---------------------------------------------------------------------------------------------
# cost of nesting

CONSTRUCTS = {
    'table': '<table><tr><td>{}</td></tr></table>',
    'table-fixed': '<table style="table-layout:fixed;width:100%"><tr><td>{}</td></tr></table>',
    'table-pct': '<table style="width:100%"><tr><td style="width:50%">{}</td><td>y</td></tr></table>',
    'table-collapse': '<table style="border-collapse:collapse"><tr><td style="border:1px solid">{}</td></tr></table>',
    'inline-table': 'a <table style="display:inline-table"><tr><td>{}</td></tr></table> b',
    'table-cell': '<div style="display:table-cell">{}</div>',
    'caption': '<table><caption>{}</caption><tr><td>c</td></tr></table>',
    'thead': '<table><thead><tr><th>{}</th></tr></thead><tr><td>c</td></tr></table>',
    'div': '<div>{}</div>',
    'div-pad': '<div style="padding:1px;border:1px solid">{}</div>',
    'float': '<div style="float:left">{}</div>',
    'float-pct': '<div style="float:right;width:50%">{}</div>',
    'inline-block': 'a <span style="display:inline-block">{}</span> b',
    'inline-block-pct': 'a <span style="display:inline-block;width:90%">{}</span> b',
    'list': '<ul><li>{}</li></ul>',
    'ol-counter': '<ol style="counter-reset:c"><li style="counter-increment:c">{}</li></ol>',
    'span-plain': '<span>{}</span>',
    'abs': '<div style="position:absolute">{}</div>',
    'rel': '<div style="position:relative;top:1px">{}</div>',
    'fieldset': '<fieldset><legend>l</legend>{}</fieldset>',
    'minmax': '<div style="min-width:min-content;max-width:max-content;width:fit-content">{}</div>',
    'overflow': '<div style="overflow:hidden">{}</div>',
    'transform': '<div style="transform:rotate(1deg);opacity:0.9">{}</div>',
    'footnote': '<span style="float:footnote">{}</span>',
    'break-avoid': '<div style="break-inside:avoid">{}</div>',
    # exponential on the pinned tree (known findings nested-*-exponential, corpus/C02/growth_known.json)
    'flex': '<div style="display:flex"><div>{}</div></div>',
    'flex-column': '<div style="display:flex;flex-direction:column"><div>{}</div></div>',
    'inline-flex': 'a <span style="display:inline-flex"><span>{}</span></span> b',
    'grid': '<div style="display:grid"><div>{}</div></div>',
    'columns': '<div style="columns:2">{}</div>',
    'span-padding': '<span style="padding:1px">{}</span>',
}
# variants of a construct measured in the quick tier under another name
THOROUGH_ONLY = {'table-pct', 'thead', 'float-pct', 'inline-block-pct', 'ol-counter', 'rel', 'minmax', 'overflow',
                 'table-collapse', 'caption', 'div-pad', 'abs', 'fieldset', 'transform', 'break-avoid'}
CALL_CAP = 150000


def nest(template, depth, leaf='x'):
    html = leaf
    for _ in range(depth):
        html = template.format(html)
    return DOC_HEAD + html


class Blowup(Exception):
    pass


def call_count(html, cap=None, write=False, by_function=None):
    """Number of Python function calls made by render() (+ write_pdf()) of `html`; raises Blowup past `cap`."""
    count = [0]

    def profiler(frame, event, arg):
        if event == 'call':
            count[0] += 1
            if by_function is not None:
                code = frame.f_code
                by_function[f'{code.co_filename.split("/")[-1]}:{code.co_name}'] += 1
            if cap is not None and count[0] > cap:
                raise Blowup()
    sys.setprofile(profiler)
    try:
        document = docs.html(html).render()
        if write:
            document.write_pdf()
    finally:
        sys.setprofile(None)
    return count[0]


_BASE_CALLS = {}


def growth_measure(template, depths, write=False):
    """-> (impl outcome, [c1, c2, c3]) : calls beyond those of the un-nested document, at the three depths."""
    if write not in _BASE_CALLS:       # the un-nested document is the same for every construct
        _BASE_CALLS[write] = call_count(nest(template, 0), write=write)
    base = _BASE_CALLS[write]
    costs = []
    outcome = 'ok'
    for depth in depths:
        if outcome != 'ok':
            costs.append(CALL_CAP)
            continue
        try:
            costs.append(max(1, call_count(nest(template, depth), cap=base + CALL_CAP, write=write) - base))
        except Blowup:
            outcome = f'err:Blowup@d{depth}'
            costs.append(CALL_CAP)
        except Exception as exc:  # noqa: BLE001
            outcome = f'err:{type(exc).__name__}@d{depth}'
            costs.append(CALL_CAP)
    return outcome, costs


def growth_known():
    path = CORPUS / 'C02' / 'growth_known.json'
    return json.loads(path.read_text()) if path.exists() else {}


def add_growth(run, sec):
    depths = (6, 9, 12)
    docs.html('<p>x</p>').render()      # caches filled before anything is counted
    for name, template in CONSTRUCTS.items():
        if not run.thorough and name in THOROUGH_ONLY:
            continue
        outcome, costs = growth_measure(template, depths, write=run.thorough)
        _LAST_GROWTH[name] = (outcome, costs)
        sec.add(sx.line('growth', *costs), outcome,
                meta={'construct': name, 'template': template, 'depths': list(depths), 'costs': costs,
                      'html': nest(template, depths[-1])},
                tags=[name])


def growth_text(meta, impl, model):
    name, depths, costs = meta['construct'], meta['depths'], meta['costs']
    hot = ''
    try:
        small, large = collections.Counter(), collections.Counter()
        call_count(nest(meta['template'], 3), cap=4 * CALL_CAP, by_function=small)
        call_count(nest(meta['template'], 6), cap=4 * CALL_CAP, by_function=large)
        ratio, function = max((large[f] / small[f], f) for f in small if small[f] >= 20)
        hot = f'; calls of {function} grow x{ratio:.0f} from depth 3 to depth 6'
    except Exception:  # noqa: BLE001
        pass
    if impl.startswith('err:Blowup'):
        depth = impl.split('@d')[1]
        return (f'CPU cost of rendering blows up with nesting depth: `{name}` nested {depth} deep around one word needs '
                f'more than {CALL_CAP} function calls beyond the un-nested document (costs at depths {depths}: {costs})'
                + hot)
    if impl.startswith('err:'):
        return f'rendering `{name}` nested failed with {impl}'
    if model == 'super-polynomial':
        return (f'CPU cost of rendering grows super-polynomially with nesting depth: `{name}` at depths {depths} costs '
                f'{costs} function calls (more than x4 per step; a document nested {2 * depths[-1]} deep does not '
                f'return)' + hot)
    return None


# ---------------------------------------------------------------------------------------------
# documents: page-margin boxes of degenerate size; cells whose spans leave their row group

MARGIN_SIDES = {
    'top': ('top-left', 'top-center', 'top-right', 'padding:0 {n}px', 'border:solid;border-width:0 {n}px', 'margin:0 {n}px',
            'width'),
    'left': ('left-top', 'left-middle', 'left-bottom', 'padding:{n}px 0', 'border:solid;border-width:{n}px 0',
             'margin:{n}px 0', 'height'),
    'bottom': ('bottom-left', 'bottom-center', 'bottom-right', 'padding:0 {n}px', 'border:solid;border-width:0 {n}px',
               'margin:0 {n}px', 'width'),
    'right': ('right-top', 'right-middle', 'right-bottom', 'padding:{n}px 0', 'border:solid;border-width:{n}px 0',
              'margin:{n}px 0', 'height'),
}


def margin_box_elements(thorough):
    """One named page per element: the boxes of one side of the page (every subset that the css-page
    margin-dimension algorithm distinguishes: a, b, c, a+c, a+b, a+b+c), the first of them with empty / non-empty
    content and with nothing, padding, border or margins larger than the room between the corners, or a fixed size 0
    / larger than the page; the others with empty / non-empty content."""
    index = 0
    for side, (a, b, c, padding, border, margin, dimension) in MARGIN_SIDES.items():
        subsets = [(a,), (b,), (c,), (a, c), (a, b), (a, b, c)]
        contents = (('""', '""'), ('""', '"y"'), ('"x"', '""'))
        decorations = ['', padding.format(n=100), border.format(n=100), margin.format(n=100), f'{dimension}:0',
                       f'{dimension}:500px', padding.format(n=70) + f';{dimension}:auto']
        if not thorough:
            subsets = [(a,), (b,), (a, c), (a, b, c)]
            decorations = decorations[:5]
            if side in ('bottom', 'right'):      # quick: the other two sides only where the sizes are all zero
                subsets, contents, decorations = [(b,), (a, c)], contents[:1], [decorations[1], decorations[3]]
        for subset, (main, other), decoration in itertools.product(subsets, contents, decorations):
            index += 1
            rules = ''.join(f'@{name}{{content:{main if i == 0 else other};{decoration if i == 0 else ""}}}'
                            for i, name in enumerate(subset))
            ident = f'{side}/{"+".join(n.split("-", 1)[1] for n in subset)}/{main}{other}/{decoration or "plain"}'
            yield ident, (f'<style>@page m{index}{{size:200px;margin:30px;{rules}}}</style>'
                          f'<p style="page:m{index}">x</p>')


def table_span_elements(thorough):
    """Tables of 2-4 rows in which one cell, in any row and first or second in its row, has rowspan 0, 2, 3, 5 or 70
    (fits, ends with the group, leaves the group, leaves the table) and colspan 1 or 3; rows in one group, in
    thead + tbody, or in two bodies split after the first row; fixed and automatic layout, collapsed borders."""
    for rows, grouping in itertools.product((2, 3, 4) if thorough else (2, 3), ('plain', 'head', 'bodies')):
        for at, second, rowspan, colspan in itertools.product(range(rows), (False, True), (0, 2, 3, 5, 70), (1, 3)):
            if not thorough and (rowspan == 5 or (colspan == 3 and rowspan != 70)):
                continue
            trs = []
            for r in range(rows):
                cells = ['<td>a</td>', '<td>b</td>']
                if r == at:
                    cells.insert(1 if second else 0, f'<td rowspan="{rowspan}" colspan="{colspan}">s</td>')
                trs.append('<tr>' + ''.join(cells) + '</tr>')
            if grouping == 'plain':
                inner = ''.join(trs)
            elif grouping == 'head':
                inner = f'<thead>{trs[0]}</thead><tbody>{"".join(trs[1:])}</tbody>'
            else:
                inner = f'<tbody>{trs[0]}</tbody><tbody>{"".join(trs[1:])}</tbody>'
            style = ('', 'table-layout:fixed;width:100px', 'border-collapse:collapse')[(at + rowspan + rows) % 3]
            yield (f'r{rows}-{grouping}/at{at}{"b" if second else "a"}/rs{rowspan}/cs{colspan}',
                   f'<table style="{style}">{inner}</table>')


def row_ending_cases(elements, size=60):
    """-> (ident, html, skip, spans, impl): for every row group of every table of `elements` (rendered `size` tables
    at a time on one tall page): the rowspans `wrap_table` left on the cells, and - read off the laid-out boxes - the
    cells whose bottom edge is the bottom edge of each row (`ok (row.cell ...) ...`), or the exception class."""
    from weasyprint.formatting_structure import boxes
    tall = '<style>@page{size:300px 100000px;margin:0}</style>'
    for batch in batches(elements, size):
        html = DOC_HEAD + tall + ''.join(h for _, h in batch)
        try:
            with docs.time_limit(30):
                document = docs.render(html)
            tables = [b for b in document.pages[0]._page_box.descendants() if isinstance(b, boxes.TableBox)]
            error = None if len(tables) == len(batch) and len(document.pages) == 1 else 'err:Layout'
        except Exception as exc:  # noqa: BLE001
            tables, error = [], f'err:{type(exc).__name__}'
        if error:      # element by element: the model still gets the spans of the real build
            for ident, h in batch:
                yield from row_ending_cases([(ident, h)], 1) if size > 1 else [(ident, DOC_HEAD + h, 0, None, error)]
            continue
        for (ident, h), table in zip(batch, tables):
            for number, group in enumerate(table.children):
                rows = list(group.children)
                spans = [[cell.rowspan for cell in row.children] for row in rows]
                ending = [[] for _ in rows]
                for r, row in enumerate(rows):
                    for c, cell in enumerate(row.children):
                        bottom = cell.position_y + cell.border_height()
                        hits = [j for j in range(r, len(rows))
                                if abs(rows[j].position_y + rows[j].height - bottom) < 1e-6]
                        ending[hits[0] if hits else r].append(f'{r}.{c}')
                impl = 'ok ' + ' '.join('(' + ' '.join(cells) + ')' for cells in ending)
                yield f'{ident}#g{number}', DOC_HEAD + h, 0, spans, impl


# ---------------------------------------------------------------------------------------------

def add_sections(prop, run):
    docs.quiet()
    sec = run.section(
        'inline-baseline',
        'the real inline_block_baseline on real boxes: every table-wrapper content (captions x up to three row '
        'groups of 0-2 rows) and every inline-block content of up to three children out of eight shapes (lines, a '
        'line whose baseline is at 0, blocks, floats, captions, nested wrappers), result or exception class compared '
        'with Model/C02Extra (proved total: C02x.inlineBlockBaseline_total); non-trivial = the box has children')
    add_baseline(run, sec)
    sec = run.section(
        'thumb-size',
        'the size the real RasterImage.get_x_object asks of Pillow thumbnail() (recorded, then the real thumbnail '
        'runs) for image sizes 1..400 x dyadic dpi ratios, compared with Model/C02Extra.thumbSize (proved >= 1x1: '
        'C02x.thumbSize_pos); non-trivial = the smaller dimension rounds to 0')
    add_thumb(run, sec)
    sec = run.section(
        'display-parts',
        'documents: an element of every display value in a line of text holding every table part (empty / filled '
        'header, body, footer groups, rows, cells, captions, columns, text, a block) and, for the six inline-level / '
        'table / flex / grid values, every ordered pair of parts; HTML tables with empty groups under six display '
        'values; rendered and written 40 elements at a time (a failing batch is redone element by element); model: '
        'returns; non-trivial = every case')
    elements = list(display_elements())
    if not run.thorough:
        singles = [e for e in elements if '+' not in e[0]]
        pairs = [e for e in elements if '+' in e[0]]
        # quick: every single part and HTML table, every pair under inline-table, a seeded sample of the other pairs
        keep = [e for e in pairs if e[0].startswith('inline-table/')]
        others = [e for e in pairs if not e[0].startswith('inline-table/')]
        elements = singles + keep + run.rng.sample(others, 40)
    add_batched(sec, elements, 40)
    sec = run.section(
        'output-options',
        'documents: raster images of degenerate geometry (1x1, 400x1, 1x400, 1200x2 ...; RGB, RGBA, L, P, 1; PNG, '
        'JPEG, GIF) displayed at natural size, as hair lines, as 1px dots and at size 0, with a link, a form field, '
        'an empty SVG and a broken image, under every output option (dpi from 0 to 600, jpeg_quality, '
        'optimize_images, pdf_variant, pdf_version, pdf_forms, srgb, full_fonts, hinting ...); model: returns; '
        'non-trivial = an option is set')
    for options in OPTION_SETS:
        sample = None if run.thorough else 8
        items = [(f'{options_label(options)}/{ident}', html)
                 for ident, html in image_elements(run.rng, sample, fixed='dpi' in options)]
        items.append((f'{options_label(options)}/other', OTHER_CONTENT))
        add_batched(sec, items, 60, options=options, tag=lambda ident: ident.split('/')[0][:24])
    sec = run.section(
        'nesting-growth',
        'one construct (tables of every layout, captions, blocks, floats, inline-blocks, lists, positioned boxes, '
        'footnotes, flex, grid, multi-column, padded inline boxes ...) nested 6, 9 and 12 deep around one word: the '
        'number of Python function calls of render() beyond the un-nested document (deterministic), capped at '
        f'{CALL_CAP} (outcome err:Blowup@d<depth>), judged by the Lean growth checker (C02x.growthOk: every cost '
        'a+b*d^k, k<=3, is accepted - growthOk_polynomial; a cost doubling per level is not - growthOk_doubling); '
        'constructs already exponential on the pinned tree are listed with their exact outcome in '
        'corpus/C02/growth_known.json; non-trivial = every case')
    prop._growth_known = growth_known()
    add_growth(run, sec)
    sec = run.section(
        'margin-boxes',
        'documents: one named page per case, with the page-margin boxes of one side in every subset the css-page '
        'margin-dimension algorithm distinguishes (a, b, c, a+c, a+b, a+b+c), empty / non-empty content, and padding, '
        'border or margins larger than the room between the corners, fixed sizes 0 and 500px; rendered and written 60 '
        'pages at a time (a failing batch is redone page by page); model: returns; non-trivial = every case')
    add_batched(sec, list(margin_box_elements(run.thorough)), 60)
    sec = run.section(
        'table-spans',
        'documents: tables of 2-4 rows (one group, thead + tbody, two bodies) with one cell, in every row and position, '
        'whose rowspan is 0, 2, 3, 5 or 70 (fits, ends with its group, leaves the group, leaves the table) and colspan '
        '1 or 3, in automatic, fixed and collapsed-border layout; rendered and written 60 tables at a time; model: '
        'returns; non-trivial = every case')
    add_batched(sec, list(table_span_elements(run.thorough)), 60)
    if run.thorough:
        sec = run.section(
            'row-ending',
            'thorough tier: for every row group of the table-spans documents, the rowspans wrap_table left on the real '
            'cells go through Model/RowEnding (the ending_cells_by_row bookkeeping of group_layout, proved total on '
            'everything wrap_table can leave: C02RowEnding.placed_group_ending_total) and the cells ending in each row '
            'are compared with the laid-out boxes (a cell ends in the row whose bottom edge is its own); non-trivial = '
            'a cell spans several rows')
        for ident, html, skip, spans, impl in row_ending_cases(list(table_span_elements(True))):
            if spans is None:
                sec.add(sx.line('total'), impl, meta={'doc_id': ident, 'html': html})
                continue
            sec.add(sx.line('row-ending', skip, spans), impl, meta={'doc_id': ident, 'html': html, 'spans': spans},
                    nontrivial=any(s > 1 for row in spans for s in row), tags=[ident.split('/')[0]])


def classify(prop, d):
    if d['section'] == 'nesting-growth':
        known = getattr(prop, '_growth_known', None) or growth_known()
        entry = known.get(d['meta']['construct'])
        if entry and entry[0] == d['impl'] and entry[1] == d['model']:
            return entry[2]
    return None


def judge(prop, d):
    if d['section'] == 'nesting-growth':
        return growth_text(d['meta'], d['impl'], d['model'])
    if d['section'] == 'inline-baseline' and d['impl'].startswith('err:'):
        return (f'inline_block_baseline raised {d["impl"]} on a box tree of an inline table / inline-block '
                f'(children {d["line"][:300]})')
    if d['section'] == 'thumb-size' and d['impl'].startswith('err:'):
        w, h, r = d['meta']['thumb']
        return (f'write_pdf with the dpi option: RasterImage.get_x_object raised {d["impl"]} for a {w}x{h} image '
                f'downsampled by {r}')
    if d['section'] == 'row-ending' and not d['impl'].startswith('err:'):
        return None      # another geometry, no exception: not a clause of C02 (C10 judges geometry)
    if d['impl'].startswith('err:') or d['impl'] == 'bad-output':
        opts = d['meta'].get('options')
        return (f'{d["meta"].get("doc_id", "")}: rendering failed with {d["impl"]}'
                + (f' under options {opts}' if opts else ''))
    return None


def search(prop, run, failures):
    """A function-level disagreement without an exception (e.g. another thumbnail size): look for a document that
    fails under the dpi options."""
    found = []
    if any(f['kind'] == 'correspondence' and f['name'] == 'thumb-size' for f in failures):
        for options in OPTION_SETS:
            if 'dpi' not in options:
                continue
            for ident, html in image_elements():
                run.search_stats['evaluations'] += 1
                out = wide_trace.render_outcome(DOC_HEAD + html, limit_s=5, options=options)
                if out != 'ok':
                    found.append({'what': f'rendering failed with {out} under options {options}',
                                  'input': {'meta': {'html': DOC_HEAD + html, 'options': options}},
                                  'signature': f'thumb/{ident}'})
                    return found
    return found


def replay(prop, meta):
    """-> (handled, what)"""
    if 'case' in meta:
        return True, replay_baseline(meta)
    if 'thumb' in meta:
        return True, replay_thumb(meta)
    if 'construct' in meta:
        outcome, costs = growth_measure(meta['template'], meta['depths'])
        from vlib import lean
        model = lean.run_driver(prop.driver, [sx.line('growth', *costs)])[0]
        if outcome == 'ok' and model == 'ok':
            return True, None
        return True, growth_text(dict(meta, costs=costs), outcome, model)
    return False, None


# ---------------------------------------------------------------------------------------------
# known findings: replay functions

_LAST_GROWTH = {}


def _blows_up(name):
    outcome, costs = _LAST_GROWTH.get(name) or growth_measure(CONSTRUCTS[name], (6, 9, 12))
    return outcome != 'ok' or not (costs[1] <= 4 * costs[0] and costs[2] <= 4 * costs[1])


def nested_flex_exponential():
    return _blows_up('flex') or _blows_up('flex-column') or _blows_up('inline-flex')


def nested_grid_exponential():
    return _blows_up('grid')


def nested_columns_exponential():
    return _blows_up('columns')


def nested_padded_inline_exponential():
    return _blows_up('span-padding')


FINDING_REPLAYS = {
    'nested-flex-exponential': nested_flex_exponential,
    'nested-grid-exponential': nested_grid_exponential,
    'nested-columns-exponential': nested_columns_exponential,
    'nested-padded-inline-exponential': nested_padded_inline_exponential,
}
