"""C15: the property's clauses stated directly in Python (css-counter-styles-3 "generate a counter
representation", CSS 2.1 §12.4 counter scoping).  Used ONLY by `judge` / `search` / `replay`, i.e. after a
proof obligation or a correspondence broke — never as the check itself.  Independent of the Lean model and
of weasyprint/css/counters.py (different structure: instance lists with creator depth, spec algorithms)."""
import math

DEFAULT_DECIMAL = {
    'system': (None, 'numeric', None), 'negative': None, 'prefix': None, 'suffix': None, 'range': None,
    'pad': None, 'fallback': None, 'additive_symbols': None,
    'symbols': tuple(('string', c) for c in '0123456789')}


def sym(s):
    return s[1] if s[0] == 'string' else ''


def anonymous(name):
    if name[0] == 'string':
        system, symbols, suffix = (None, 'cyclic', None), (('string', name[1]),), ('string', '')
    else:
        suffix = ('string', ' ')
        args = name[1]
        system = (None, args[0], 1 if args[0] == 'fixed' else None)
        symbols = tuple(('string', a) for a in args[1:])
    return dict(DEFAULT_DECIMAL, system=system, symbols=symbols, fallback='decimal', range='auto', suffix=suffix)


def resolve(cs, name):
    """The style after `extends` resolution per spec (unknown / cyclic extends -> decimal algorithm)."""
    if not isinstance(name, str):
        return anonymous(name)
    if name not in cs:
        return None
    style = dict(cs[name])
    seen = [name]
    while style['system'] and style['system'][0] == 'extends':
        target = style['system'][1]
        if target not in cs:
            return 'plain-decimal'      # WeasyPrint renders a style extending an unknown style as plain decimal
        if target in seen:
            target_style = cs.get('decimal', DEFAULT_DECIMAL)
            if target_style['system'] and target_style['system'][0] == 'extends':
                target_style = DEFAULT_DECIMAL
            seen.append('decimal')
        else:
            target_style = cs[target]
            seen.append(target)
        merged = dict(target_style)
        for key, value in style.items():
            if key != 'system' and value is not None:
                merged[key] = value
        # a style that extends may not define symbols: the extended algorithm's symbols are used
        if style.get('symbols') is not None and target_style.get('symbols') is not None:
            merged['symbols'] = style['symbols']
        style = merged
    return style


def in_range(style, system, value):
    rng = style['range']
    if rng in (None, 'auto') or (isinstance(rng, tuple) and 'auto' in rng):
        low = 1 if system in ('alphabetic', 'symbolic') else 0 if system == 'additive' else -math.inf
        return low <= value
    return any(lo <= value <= hi for lo, hi in rng)


def initial_representation(style, system, fixed, value):
    """Spec algorithms on the absolute value where the system uses the negative sign; None = cannot."""
    symbols = [sym(s) for s in (style['symbols'] or ())]
    n = len(symbols)
    if system == 'cyclic':
        return symbols[(value - 1) % n] if n else None
    if system == 'fixed':
        index = value - (1 if fixed is None else fixed)
        return symbols[index] if 0 <= index < n else None
    if system == 'symbolic':
        if not n or value < 1:
            return '' if n and value == 0 else None
        return symbols[(value - 1) % n] * ((value - 1) // n + 1)
    if system == 'alphabetic':
        if n < 2 or value < 0:
            return None
        out = ''
        while value:
            value -= 1
            out = symbols[value % n] + out
            value //= n
        return out
    if system == 'numeric':
        if n < 2:
            return None
        if value == 0:
            return symbols[0]
        out = ''
        while value:
            out = symbols[value % n] + out
            value //= n
        return out
    if system == 'additive':
        tuples = [(w, sym(s)) for w, s in (style['additive_symbols'] or ())]
        if value == 0:
            zero = [s for w, s in tuples if w == 0]
            return zero[-1] if zero else None
        out = ''
        for weight, symbol in tuples:
            if weight == 0 or weight > value:
                continue
            out += symbol * (value // weight)
            value %= weight
            if value == 0:
                return out
        return None
    return None


def render(cs, value, name, visited=()):
    """css-counter-styles-3 §"generate a counter representation"; `None` when the reference declines
    (tables without a usable decimal style)."""
    style = resolve(cs, name)
    if style is None or style == 'plain-decimal' or name in visited:
        if name == 'decimal' or 'decimal' not in cs:
            return None
        return render(cs, value, 'decimal')
    extends, system, fixed = style['system'] or (None, 'symbolic', None)
    fallback = lambda: render(cs, value, style['fallback'] or 'decimal', visited + (name,))  # noqa: E731
    if not in_range(style, system, value):
        return fallback()
    uses_negative = system in ('symbolic', 'alphabetic', 'numeric', 'additive')
    negative = value < 0 and uses_negative
    initial = initial_representation(style, system, fixed, abs(value) if negative else value)
    if initial is None:
        return fallback()
    pad = style['pad'] or (0, ('string', ''))
    neg = [sym(s) for s in (style['negative'] or (('string', '-'), ('string', '')))]
    missing = pad[0] - len(initial) - (len(neg[0]) + len(neg[1]) if negative else 0)
    if missing > 0:
        initial = sym(pad[1]) * missing + initial
    if negative:
        initial = neg[0] + initial + neg[1]
    return initial


def marker(cs, value, name):
    style = resolve(cs, name)
    if style == 'plain-decimal':
        style = cs[name]
    if style is None:
        if 'decimal' not in cs:
            return None
        return marker(cs, value, 'decimal')
    text = render(cs, value, name)
    if text is None:
        return None
    return sym(style['prefix'] or ('string', '')) + text + sym(style['suffix'] or ('string', '. '))


# ---------------------------------------------------------------- counter scoping (CSS 2.1 12.4)

class Scoping:
    """Counter instances as a single list `(name, creator depth, value)`, innermost last.

    reset at depth d: drop the innermost instance of the name when it was created at depth d (by this
    element or an earlier sibling), push a new one; set / increment: innermost instance, created at d
    if there is none; leaving an element at depth d: drop every instance created at depth d + 1."""

    def __init__(self):
        self.instances = [('footnote', 0, 0)]

    def innermost(self, name):
        for index in range(len(self.instances) - 1, -1, -1):
            if self.instances[index][0] == name:
                return index
        return None

    def apply(self, ops, depth):
        disp, resets, sets, increments = ops
        for name, value in resets:
            index = self.innermost(name)
            if index is not None and self.instances[index][1] == depth:
                del self.instances[index]
            self.instances.append((name, depth, value))
        if increments == 'auto':
            increments = [('list-item', 1)] if disp == 'li' else []
        # css-lists-3 4.5: "reset, then incremented, then set" (WeasyPrint sets first: finding
        # counter-set-before-increment; the judges decline on elements doing both to one counter)
        for pairs, combine in ((increments, lambda old, v: old + v), (sets, lambda old, v: v)):
            for name, value in pairs:
                index = self.innermost(name)
                if index is None:
                    self.instances.append((name, depth, 0))
                    index = len(self.instances) - 1
                n, d, old = self.instances[index]
                self.instances[index] = (n, d, combine(old, value))

    def leave(self, depth):
        self.instances = [i for i in self.instances if i[1] <= depth]

    def stack(self, name):
        return [v for n, _, v in self.instances if n == name] or [0]

    def snapshot(self):
        return list(self.instances)


def sets_and_increments(tree):
    """Does some element (or pseudo-element) of the wire-form tree set and increment the same counter?"""
    def ops_both(ops):
        disp, _resets, sets, increments = ops
        if increments == 'auto':
            increments = [('list-item', 1)] if disp == 'li' else []
        return bool({n for n, _ in sets} & {n for n, _ in increments})
    ops, _ls, _mc, _anchor, before, after, kids = tree
    if ops[0] == 'none':
        return False
    if ops_both(ops) or any(p is not None and ops_both(p[0]) for p in (before, after)):
        return True
    return any(sets_and_increments(k) for k in kids)


def reference_texts(cs, tree, render_fn=render, marker_fn=marker):
    """Expected (kind, text) list of a wire-form element tree (see harness/c15_dom.py), two passes for
    forward target references.  Names and strings are decoded by the caller (plain Python values)."""
    targets = {}

    def stack_of(snapshot, name):
        return [v for n, _, v in snapshot if n == name] or [0]

    def content(items, scoping, final):
        out = ''
        for item in items:
            kind = item[0]
            if kind == 'str':
                out += item[1]
                continue
            style = item[-1]
            if style == 'none':
                continue
            if kind in ('c', 'cs'):
                values = scoping.stack(item[1])
            else:
                if item[1] not in targets:
                    if final:
                        break
                    continue
                values = stack_of(targets[item[1]], item[2])
            if kind in ('c', 'tc'):
                out += render_fn(cs, values[-1], style)
            else:
                sep = item[2] if kind == 'cs' else item[3]
                out += sep.join(render_fn(cs, v, style) for v in values)
        return out

    def walk(elem, scoping, depth, final, out):
        ops, list_style, marker_content, anchor, before, after, kids = elem
        if ops[0] == 'none':
            return
        scoping.apply(ops, depth)
        if ops[0] == 'li':
            if marker_content is not None:
                text = content(marker_content, scoping, final)
            elif list_style is not None:
                text = marker_fn(cs, scoping.stack('list-item')[-1], list_style)
            else:
                text = ''
            if text:
                out.append(('marker', text))
        if before is not None:
            scoping.apply(before[0], depth + 1)
            out.append(('before', content(before[1], scoping, final)))
        if anchor is not None:
            targets.setdefault(anchor, scoping.snapshot())
        for kid in kids:
            walk(kid, scoping, depth + 1, final, out)
        if after is not None:
            scoping.apply(after[0], depth + 1)
            out.append(('after', content(after[1], scoping, final)))
        scoping.leave(depth)

    walk(tree, Scoping(), 0, False, [])
    out = []
    walk(tree, Scoping(), 0, True, out)
    return out
