"""C15: the property's clauses stated directly in Python (css-counter-styles-3 "generate a counter
representation", CSS 2.1 §12.4 counter scoping).  Used ONLY by `judge` / `search` / `replay`, i.e. after a
proof obligation or a correspondence broke — never as the check itself.  Independent of the Lean model and
of weasyprint/css/counters.py (different structure: instance lists with creator depth, spec algorithms)."""
import math

DEFAULT_DECIMAL = {
    'system': (None, 'numeric', None), 'negative': None, 'prefix': None, 'suffix': None, 'range': None,
    'pad': None, 'fallback': None, 'additive_symbols': None,
    'symbols': tuple(('string', c) for c in '0123456789')}


def sym(s):
    return s[1] if s[0] == 'string' else ''


def anonymous(name):
    if name[0] == 'string':
        system, symbols, suffix = (None, 'cyclic', None), (('string', name[1]),), ('string', '')
    else:
        suffix = ('string', ' ')
        args = name[1]
        system = (None, args[0], 1 if args[0] == 'fixed' else None)
        symbols = tuple(('string', a) for a in args[1:])
    return dict(DEFAULT_DECIMAL, system=system, symbols=symbols, fallback='decimal', range='auto', suffix=suffix)


def resolve(cs, name):
    """The style after `extends` resolution per spec (unknown / cyclic extends -> decimal algorithm)."""
    if not isinstance(name, str):
        return anonymous(name)
    if name not in cs:
        return None
    style = dict(cs[name])
    seen = [name]
    while style['system'] and style['system'][0] == 'extends':
        target = style['system'][1]
        if target not in cs:
            return 'plain-decimal'      # WeasyPrint renders a style extending an unknown style as plain decimal
        if target in seen:
            target_style = cs.get('decimal', DEFAULT_DECIMAL)
            if target_style['system'] and target_style['system'][0] == 'extends':
                target_style = DEFAULT_DECIMAL
            seen.append('decimal')
        else:
            target_style = cs[target]
            seen.append(target)
        merged = dict(target_style)
        for key, value in style.items():
            if key != 'system' and value is not None:
                merged[key] = value
        # a style that extends may not define symbols: the extended algorithm's symbols are used
        if style.get('symbols') is not None and target_style.get('symbols') is not None:
            merged['symbols'] = style['symbols']
        style = merged
    return style


def in_range(style, system, value):
    rng = style['range']
    if rng in (None, 'auto') or (isinstance(rng, tuple) and 'auto' in rng):
        low = 1 if system in ('alphabetic', 'symbolic') else 0 if system == 'additive' else -math.inf
        return low <= value
    return any(lo <= value <= hi for lo, hi in rng)


def initial_representation(style, system, fixed, value):
    """Spec algorithms on the absolute value where the system uses the negative sign; None = cannot."""
    symbols = [sym(s) for s in (style['symbols'] or ())]
    n = len(symbols)
    if system == 'cyclic':
        return symbols[(value - 1) % n] if n else None
    if system == 'fixed':
        index = value - (1 if fixed is None else fixed)
        return symbols[index] if 0 <= index < n else None
    if system == 'symbolic':
        if not n or value < 1:
            return '' if n and value == 0 else None
        return symbols[(value - 1) % n] * ((value - 1) // n + 1)
    if system == 'alphabetic':
        if n < 2 or value < 0:
            return None
        out = ''
        while value:
            value -= 1
            out = symbols[value % n] + out
            value //= n
        return out
    if system == 'numeric':
        if n < 2:
            return None
        if value == 0:
            return symbols[0]
        out = ''
        while value:
            out = symbols[value % n] + out
            value //= n
        return out
    if system == 'additive':
        tuples = [(w, sym(s)) for w, s in (style['additive_symbols'] or ())]
        if value == 0:
            zero = [s for w, s in tuples if w == 0]
            return zero[-1] if zero else None
        out = ''
        for weight, symbol in tuples:
            if weight == 0 or weight > value:
                continue
            out += symbol * (value // weight)
            value %= weight
            if value == 0:
                return out
        return None
    return None


def render(cs, value, name, visited=()):
    """css-counter-styles-3 §"generate a counter representation"; `None` when the reference declines
    (tables without a usable decimal style)."""
    style = resolve(cs, name)
    if style is None or style == 'plain-decimal' or name in visited:
        if name == 'decimal' or 'decimal' not in cs:
            return None
        return render(cs, value, 'decimal')
    extends, system, fixed = style['system'] or (None, 'symbolic', None)
    fallback = lambda: render(cs, value, style['fallback'] or 'decimal', visited + (name,))  # noqa: E731
    if not in_range(style, system, value):
        return fallback()
    uses_negative = system in ('symbolic', 'alphabetic', 'numeric', 'additive')
    negative = value < 0 and uses_negative
    initial = initial_representation(style, system, fixed, abs(value) if negative else value)
    if initial is None:
        return fallback()
    pad = style['pad'] or (0, ('string', ''))
    neg = [sym(s) for s in (style['negative'] or (('string', '-'), ('string', '')))]
    missing = pad[0] - len(initial) - (len(neg[0]) + len(neg[1]) if negative else 0)
    if missing > 0:
        initial = sym(pad[1]) * missing + initial
    if negative:
        initial = neg[0] + initial + neg[1]
    return initial


def marker(cs, value, name):
    style = resolve(cs, name)
    if style == 'plain-decimal':
        style = cs[name]
    if style is None:
        if 'decimal' not in cs:
            return None
        return marker(cs, value, 'decimal')
    text = render(cs, value, name)
    if text is None:
        return None
    return sym(style['prefix'] or ('string', '')) + text + sym(style['suffix'] or ('string', '. '))


# ---------------------------------------------------------------- counter scoping (CSS 2.1 12.4)

class Scoping:
    """Counter instances as a single list `(name, creator depth, value)`, innermost last.

    reset at depth d: drop the innermost instance of the name when it was created at depth d (by this
    element or an earlier sibling), push a new one; set / increment: innermost instance, created at d
    if there is none; leaving an element at depth d: drop every instance created at depth d + 1."""

    def __init__(self):
        self.instances = [('footnote', 0, 0)]

    def innermost(self, name):
        for index in range(len(self.instances) - 1, -1, -1):
            if self.instances[index][0] == name:
                return index
        return None

    def apply(self, ops, depth):
        disp, resets, sets, increments = ops
        for name, value in resets:
            index = self.innermost(name)
            if index is not None and self.instances[index][1] == depth:
                del self.instances[index]
            self.instances.append((name, depth, value))
        if increments == 'auto':
            increments = [('list-item', 1)] if disp == 'li' else []
        # css-lists-3 4.5: "reset, then incremented, then set" (WeasyPrint sets first: finding
        # counter-set-before-increment; the judges decline on elements doing both to one counter)
        for pairs, combine in ((increments, lambda old, v: old + v), (sets, lambda old, v: v)):
            for name, value in pairs:
                index = self.innermost(name)
                if index is None:
                    self.instances.append((name, depth, 0))
                    index = len(self.instances) - 1
                n, d, old = self.instances[index]
                self.instances[index] = (n, d, combine(old, value))

    def leave(self, depth):
        self.instances = [i for i in self.instances if i[1] <= depth]

    def stack(self, name):
        return [v for n, _, v in self.instances if n == name] or [0]

    def snapshot(self):
        return list(self.instances)


def sets_and_increments(tree):
    """Does some element (or pseudo-element) of the wire-form tree set and increment the same counter?"""
    def ops_both(ops):
        disp, _resets, sets, increments = ops
        if increments == 'auto':
            increments = [('list-item', 1)] if disp == 'li' else []
        return bool({n for n, _ in sets} & {n for n, _ in increments})
    ops, _ls, _mc, _anchor, before, after, kids = tree
    if ops[0] == 'none':
        return False
    if ops_both(ops) or any(p is not None and ops_both(p[0]) for p in (before, after)):
        return True
    return any(sets_and_increments(k) for k in kids)


def reference_texts(cs, tree, render_fn=render, marker_fn=marker):
    """Expected (kind, text) list of a wire-form element tree (see harness/c15_dom.py), two passes for
    forward target references.  Names and strings are decoded by the caller (plain Python values)."""
    targets = {}

    def stack_of(snapshot, name):
        return [v for n, _, v in snapshot if n == name] or [0]

    def content(items, scoping, final):
        out = ''
        for item in items:
            kind = item[0]
            if kind == 'str':
                out += item[1]
                continue
            style = item[-1]
            if style == 'none':
                continue
            if kind in ('c', 'cs'):
                values = scoping.stack(item[1])
            else:
                if item[1] not in targets:
                    if final:
                        break
                    continue
                values = stack_of(targets[item[1]], item[2])
            if kind in ('c', 'tc'):
                out += render_fn(cs, values[-1], style)
            else:
                sep = item[2] if kind == 'cs' else item[3]
                out += sep.join(render_fn(cs, v, style) for v in values)
        return out

    def walk(elem, scoping, depth, final, out):
        ops, list_style, marker_content, anchor, before, after, kids = elem
        if ops[0] == 'none':
            return
        scoping.apply(ops, depth)
        if ops[0] == 'li':
            if marker_content is not None:
                text = content(marker_content, scoping, final)
            elif list_style is not None:
                text = marker_fn(cs, scoping.stack('list-item')[-1], list_style)
            else:
                text = ''
            if text:
                out.append(('marker', text))
        if before is not None:
            scoping.apply(before[0], depth + 1)
            out.append(('before', content(before[1], scoping, final)))
        if anchor is not None:
            targets.setdefault(anchor, scoping.snapshot())
        for kid in kids:
            walk(kid, scoping, depth + 1, final, out)
        if after is not None:
            scoping.apply(after[0], depth + 1)
            out.append(('after', content(after[1], scoping, final)))
        scoping.leave(depth)

    walk(tree, Scoping(), 0, False, [])
    out = []
    walk(tree, Scoping(), 0, True, out)
    return out


# ---------------------------------------------------------------- @counter-style descriptors (css-counter-styles-3 §3)
# Independent of weasyprint/css/validation/descriptors.py: the grammar of every descriptor written from the
# specification on tinycss2 tokens.  `DECLINE` where the specification and WeasyPrint are known to read the value
# differently for reasons that are not this property's business (ASCII case of keywords, url() symbols, tokens
# the validators skip silently): the judges then say nothing.

DECLINE = object()
INVALID = None
SYSTEM_KEYWORDS = ('cyclic', 'numeric', 'alphabetic', 'symbolic', 'additive')


def _tokens(text):
    import tinycss2
    return [t for t in tinycss2.parse_component_value_list(text) if t.type not in ('whitespace', 'comment')]


def _symbol(token):
    if token.type in ('string', 'ident'):
        return ('string', token.value)
    return DECLINE if token.type in ('url', 'function') else INVALID


def _integer(token):
    return token.int_value if token.type == 'number' and token.is_integer else None


def _split_commas(tokens):
    parts, current = [], []
    for token in tokens:
        if token.type == 'literal' and token.value == ',':
            parts.append(current)
            current = []
        else:
            current.append(token)
    parts.append(current)
    return parts


def _odd_case(tokens, keywords):
    return any(t.type == 'ident' and t.value.lower() in keywords and t.value != t.value.lower() for t in tokens)


def spec_descriptor(name, text):
    """-> the value in the shape WeasyPrint stores it, INVALID (None), or DECLINE."""
    tokens = _tokens(text)
    if not tokens:
        return DECLINE        # an empty value never reaches a validator (preprocess_descriptors rejects it)
    if any(t.type in ('url', 'function', 'error') for t in tokens):
        return DECLINE
    if name == 'range':
        if _odd_case(tokens, ('auto', 'infinite')):
            return DECLINE
        if len(tokens) == 1 and tokens[0].type == 'ident' and tokens[0].value == 'auto':
            return 'auto'
        out = []
        for part in _split_commas(tokens):
            if len(part) != 2:
                return INVALID
            bounds = []
            for index, token in enumerate(part):
                if token.type == 'ident' and token.value == 'infinite':
                    bounds.append(math.inf if index else -math.inf)
                elif _integer(token) is not None:
                    bounds.append(_integer(token))
                else:
                    return INVALID
            if bounds[0] > bounds[1]:          # "If the lower bound of any range is higher than the upper bound,
                return INVALID                 #  the entire descriptor is invalid": equal bounds are one value
            out.append(tuple(bounds))
        return tuple(out)
    if name == 'pad':
        if len(tokens) != 2:
            return INVALID
        ints = [t for t in tokens if _integer(t) is not None]
        syms = [t for t in tokens if t.type in ('string', 'ident')]
        if len(ints) != 1 or len(syms) != 1 or _integer(ints[0]) < 0:
            return INVALID
        return (_integer(ints[0]), _symbol(syms[0]))
    if name in ('prefix', 'suffix'):
        return _symbol(tokens[0]) if len(tokens) == 1 else INVALID
    if name == 'negative':
        if len(tokens) > 2 or any(t.type not in ('string', 'ident') for t in tokens):
            return DECLINE if len(tokens) <= 2 else INVALID
        syms = [_symbol(t) for t in tokens]
        return [syms[0], syms[1] if len(syms) == 2 else ('string', '')]
    if name == 'symbols':
        syms = [_symbol(t) for t in tokens]
        return INVALID if any(s is INVALID for s in syms) else tuple(syms)
    if name == 'additive-symbols':
        out = []
        for part in _split_commas(tokens):
            if len(part) != 2:
                return INVALID
            ints = [t for t in part if _integer(t) is not None]
            syms = [t for t in part if t.type in ('string', 'ident')]
            if len(ints) != 1 or len(syms) != 1 or _integer(ints[0]) < 0:
                return INVALID
            if out and out[-1][0] <= _integer(ints[0]):
                return INVALID
            out.append((_integer(ints[0]), _symbol(syms[0])))
        return tuple(out)
    if name == 'fallback':
        if len(tokens) != 1 or tokens[0].type != 'ident':
            return INVALID
        if tokens[0].value.lower() == 'none':
            return INVALID if tokens[0].value == 'none' else DECLINE
        return tokens[0].value
    if name == 'system':
        if _odd_case(tokens, SYSTEM_KEYWORDS + ('fixed', 'extends')):
            return DECLINE
        first = tokens[0].value if tokens[0].type == 'ident' else None
        if first in SYSTEM_KEYWORDS:
            return (None, first, None) if len(tokens) == 1 else INVALID
        if first == 'fixed':
            if len(tokens) == 1:
                return (None, 'fixed', 1)
            if len(tokens) == 2 and _integer(tokens[1]) is not None:
                return (None, 'fixed', _integer(tokens[1]))
            return INVALID
        if first == 'extends':
            if len(tokens) == 2 and tokens[1].type == 'ident':
                # the name is case-sensitive in the specification, WeasyPrint lower-cases it
                return DECLINE if tokens[1].value != tokens[1].value.lower() else ('extends', tokens[1].value, None)
            return INVALID
        return INVALID
    return DECLINE


def descriptor_clause(name, text, impl_value):
    """The validator of `name` on `text` against the specification; `impl_value`: what WeasyPrint stores (None =
    rejected).  -> what is wrong, or None."""
    want = spec_descriptor(name, text)
    if want is DECLINE or (isinstance(want, (tuple, list)) and any(x is DECLINE for x in _flatten(want))):
        return None
    canon = lambda v: None if v is None else _canon(v)  # noqa: E731
    if canon(want) == canon(impl_value):
        return None
    if want is INVALID:
        return f'`{name}: {text}` is accepted as {impl_value!r}; css-counter-styles-3 makes it invalid'
    if impl_value is None:
        return f'`{name}: {text}` is rejected; css-counter-styles-3 reads it as {want!r}'
    return f'`{name}: {text}` is stored as {impl_value!r}; css-counter-styles-3 reads it as {want!r}'


def _flatten(value):
    if isinstance(value, (tuple, list)):
        for item in value:
            yield item
            yield from _flatten(item)


def _canon(value):
    if isinstance(value, (tuple, list)):
        return tuple(_canon(v) for v in value)
    return value


def spec_styles(css_text, base_cs):
    """The counter-style table css-counter-styles-3 gives for a sheet of `@counter-style` rules (on top of
    `base_cs`), or None when some rule is outside what `spec_descriptor` reads (then the judges use the table the
    implementation built)."""
    import tinycss2
    table = {k: v for k, v in base_cs.items()}
    fields = {'system': 'system', 'negative': 'negative', 'prefix': 'prefix', 'suffix': 'suffix', 'range': 'range',
              'pad': 'pad', 'fallback': 'fallback', 'symbols': 'symbols', 'additive-symbols': 'additive_symbols'}
    for rule in tinycss2.parse_stylesheet(css_text, skip_comments=True, skip_whitespace=True):
        if rule.type != 'at-rule' or rule.lower_at_keyword != 'counter-style' or rule.content is None:
            return None
        prelude = [t for t in rule.prelude if t.type not in ('whitespace', 'comment')]
        if len(prelude) != 1 or prelude[0].type != 'ident':
            return None
        name = prelude[0].value
        if name.lower() in ('none', 'decimal', 'disc') and name.lower() in base_cs:
            continue       # not overridable / invalid names: the rule is ignored
        if name.lower() in ('none', 'decimal', 'disc') and name != name.lower():
            return None
        desc = dict.fromkeys(fields.values())
        for decl in tinycss2.parse_blocks_contents(rule.content, skip_comments=True, skip_whitespace=True):
            if decl.type != 'declaration':
                return None
            if decl.important:
                continue
            if decl.lower_name not in fields:
                continue
            value = spec_descriptor(decl.lower_name, tinycss2.serialize(decl.value))
            if value is DECLINE or (isinstance(value, (tuple, list)) and any(x is DECLINE for x in _flatten(value))):
                return None
            if value is not INVALID:
                desc[fields[decl.lower_name]] = value
        system = desc['system'] or (None, 'symbolic', None)
        if system[0] is None:
            need = {'cyclic': 1, 'fixed': 1, 'symbolic': 1, 'alphabetic': 2, 'numeric': 2}.get(system[1])
            if need is not None and len(desc['symbols'] or ()) < need:
                continue
            if system[1] == 'additive' and len(desc['additive_symbols'] or ()) < 2:
                # the specification asks for one tuple, WeasyPrint for two
                if len(desc['additive_symbols'] or ()) < 1:
                    continue
                return None
        table[name] = desc
    return table
